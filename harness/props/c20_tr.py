"""c20_tr.py — per-property translator for C20: python `ast` of Pyro5/utils/httpgateway.py -> Lean source text.

What is transcribed (on every run, from the source the real module was loaded from):
  * `singlyfy_parameters`          -> `singlyfySrc`     (the flattening of the parse_qs dict)
  * `process_pyro_request`         -> `processSrc`      (everything BEFORE its `try:` block: index page, path split, key check
                                                          header-vs-query, removal of $key, expose-pattern check, the refusals;
                                                          the `try:` block itself is the abstract operation `Src.fwd` applied to
                                                          the object name / member name / parameter dict that reach it)
  * `pyro_app`                     -> `appSrc`, `configWriteSrc` (config writes, method / path routing)

It is a symbolic executor in continuation-passing style that produces a *shallow* embedding: a Lean expression (a decision
tree of `if` / `match` whose leaves are replies) over the value types of PyroModel/Gateway.lean and the vocabulary of
PyroModel/GatewaySrc.lean.  Locals are substituted by their values (so their names do not matter), module-level constants
are resolved through the real module, helpers of the same module are inlined at the call site (with their own `return`s
continuing the caller), `if c: A; return` / `else` forms and `not` / `not in` / `and` / `or` all end in the same nested
two-way decisions, `is None` on a value whose shape is known on that path is decided statically.

SOUND BY REFUSAL: every AST node kind, call target, attribute, operator or type combination that is not explicitly
handled below raises Untranslatable.  Silently skipped are only: docstrings / bare constant expression statements,
`print(...)` and logger calls, `pass`.  Not represented in the model's `Response` and therefore dropped from
`start_response(...)`: the reason phrase after the status number, the CORS headers (`cors_response_header` is the identity
on the headers the model looks at) and the value of `Location`.
"""
import ast
import builtins
import inspect
import logging
import re
import urllib.parse


class Untranslatable(Exception):
    pass


def cpl(s):
    return "[" + ", ".join(str(ord(c)) for c in s) + "]"


SPLIT_REGEX = r"(.+)/(.+)"       # the only constant regex understood: it IS `splitPath` (C20_split_sound/_greedy/_complete)

LITS = {b"Error 405: Method Not Allowed": "notAllowed", b"200 OK": "optionsOk", b"Error 404: Not Found": "notFound",
        b"403 Forbidden - incorrect gateway api key": "badKey",
        b"403 Forbidden - access to the requested object has been denied": "denied"}
CTYPES = {"text/plain": ".plain", "text/html": ".html", "application/json; charset=utf-8": ".json"}
ENVIRON_GET = {   # key -> (required default, value)
    "REQUEST_METHOD": (None, ("str", "req.method")),
    "PATH_INFO": ("", ("str", "req.path")),
    "HTTP_X_PYRO_GATEWAY_KEY": ("", ("str", "req.keyHeader")),
    "HTTP_X_PYRO_OPTIONS": ("", ("str", "req.options")),
}
SERIALIZERS = {"json": ".json", "serpent": ".serpent", "marshal": ".marshal", "msgpack": ".msgpack"}


class V:
    """a symbolic value: tag + Lean text (+ python payload)"""
    __slots__ = ("tag", "lean", "x")

    def __init__(self, tag, lean=None, x=None):
        self.tag, self.lean, self.x = tag, lean, x

    def __repr__(self):
        return "V(%s,%s,%r)" % (self.tag, self.lean, self.x)


NONE = V("const", x=None)


class Tr:
    def __init__(self, mod):
        self.mod = mod
        src = inspect.getsource(mod)
        self.funcs = {n.name: n for n in ast.parse(src).body if isinstance(n, ast.FunctionDef)}
        self.n = 0
        self.ph = {}
        self.config_writes = None

    # ------------------------------------------------------------------ helpers
    def fresh(self, p):
        self.n += 1
        return "%s%d" % (p, self.n)

    def bad(self, node, why=""):
        what = ast.dump(node)[:160] if isinstance(node, ast.AST) else repr(node)
        raise Untranslatable("%s: %s (line %s)" % (why or "not understood", what, getattr(node, "lineno", "?")))

    def lower(self, v, want, node=None):
        t = v.tag
        if want == "str":
            if t == "str":
                return v.lean
            if t == "const" and isinstance(v.x, str):
                return "(%s : Str)" % cpl(v.x)
        elif want == "pval":
            if t == "pval":
                return v.lean
            if t == "str" or (t == "const" and isinstance(v.x, str)):
                return "(PVal.one %s)" % self.lower(v, "str")
            if t == "liststr":
                return "(PVal.many %s)" % v.lean
        elif want == "optbytes":
            if t == "optbytes":
                return v.lean
            if t == "bytes":
                return "(some %s)" % v.lean
            if t == "const" and v.x is None:
                return "(none : Option Bytes)"
        elif want == "bool":
            if t == "bool":
                return v.lean
            if t == "const" and isinstance(v.x, bool):
                return "true" if v.x else "false"
        elif want == t:
            return v.lean
        self.bad(node if node is not None else v, "value of kind %s where %s is needed" % (t, want))

    def glob(self, name, node):
        if hasattr(self.mod, name):
            o = getattr(self.mod, name)
        elif hasattr(builtins, name):
            o = getattr(builtins, name)
        else:
            self.bad(node, "unbound name")
        if o is None or isinstance(o, (str, bytes, bool, int)):
            return V("const", x=o)
        if isinstance(o, tuple) and all(isinstance(i, str) for i in o):
            return V("const", x=o)
        return V("pyobj", x=o)

    # ------------------------------------------------------------------ expressions
    def ev(self, n, env):
        if isinstance(n, ast.Constant):
            if n.value is None or isinstance(n.value, (str, bytes, bool, int)):
                return V("const", x=n.value)
            self.bad(n)
        if isinstance(n, ast.Name):
            if not isinstance(n.ctx, ast.Load):
                self.bad(n)
            return env[n.id] if n.id in env else self.glob(n.id, n)
        if isinstance(n, ast.Attribute):
            return self.attr(self.ev(n.value, env), n.attr, env, n)
        if isinstance(n, ast.Tuple):
            vs = [self.ev(e, env) for e in n.elts]
            if vs and all(v.tag == "const" and isinstance(v.x, str) for v in vs):
                return V("const", x=tuple(v.x for v in vs))
            return V("tuple", x=vs)
        if isinstance(n, ast.List):
            return V("list", x=[self.ev(e, env) for e in n.elts])
        if isinstance(n, ast.Subscript):
            return self.subscript(n, env)
        if isinstance(n, (ast.Compare, ast.BoolOp, ast.IfExp)) or (isinstance(n, ast.UnaryOp) and isinstance(n.op, ast.Not)):
            if isinstance(n, ast.BoolOp) and isinstance(n.op, ast.Or):
                v = self.value_or(n, env)
                if v is not None:
                    return v
            if isinstance(n, ast.IfExp):
                return self.merge(lambda kt, kf: self.br(n.test, env, kt, kf), lambda e: self.ev(n.body, e), lambda e: self.ev(n.orelse, e), n)
            t, f = V("const", x=True), V("const", x=False)
            return self.merge(lambda kt, kf: self.br(n, env, kt, kf), lambda e: t, lambda e: f, n)
        if isinstance(n, ast.Call):
            return self.call(n, env)
        if isinstance(n, ast.BinOp) and isinstance(n.op, ast.Add):
            # constant folding only: `+` of two str (or two bytes) constants, resolved through the real module
            a, b = self.ev(n.left, env), self.ev(n.right, env)
            if a.tag == "const" and b.tag == "const" and type(a.x) is type(b.x) and type(a.x) in (str, bytes):
                return V("const", x=a.x + b.x)
            self.bad(n, "`+` of values that are not both str / both bytes constants")
        if isinstance(n, ast.ListComp):
            return self.pairs_comprehension(n, env)
        self.bad(n)

    def pairs_comprehension(self, n, env):
        """`[(K, e) for K, V in d.items() if c]` over the parse_qs dict `d`: the list of (existing key, new value) pairs.
        It is only usable by the loop `for a, b in <that list>: d[a] = b` (see `run`), which together with it is the in-place
        loop `for K, V in d.items(): if c: d[K] = e`: the comprehension is evaluated completely before the first write, it
        only reads, the keys are keys of `d` (distinct, already present: no insertion, order kept)."""
        if len(n.generators) != 1:
            self.bad(n, "comprehension with several generators")
        g = n.generators[0]
        it, tg, el = g.iter, g.target, n.elt
        if g.is_async or not (isinstance(it, ast.Call) and not it.args and not it.keywords and isinstance(it.func, ast.Attribute)
                              and it.func.attr == "items" and isinstance(it.func.value, ast.Name)
                              and isinstance(tg, ast.Tuple) and len(tg.elts) == 2 and all(isinstance(x, ast.Name) for x in tg.elts)
                              and isinstance(el, ast.Tuple) and len(el.elts) == 2 and isinstance(el.elts[0], ast.Name)
                              and el.elts[0].id == tg.elts[0].id and tg.elts[0].id != tg.elts[1].id):
            self.bad(n, "comprehension that is not [(key, value') for key, value in d.items() if ...]")
        d = it.func.value.id
        dv = self.ev(it.func.value, env)
        if dv.tag != "query" or env.get("$depth", 0) != 0 or env.get("$conds", 0) != 0:
            self.bad(n, "comprehension over something other than the parse_qs dict")
        e = {**env, d: V("looping"), tg.elts[0].id: V("str", "kv.1"), tg.elts[1].id: V("liststr", "kv.2"), "$depth": 1,
             "$ret": lambda v, ce: self.bad(n, "return inside a comprehension")}
        test = None if not g.ifs else g.ifs[0] if len(g.ifs) == 1 else ast.BoolOp(op=ast.And(), values=list(g.ifs))
        item = lambda ce: self.lower(self.ev(el.elts[1], ce), "pval", n)
        keep = lambda ce: "(PVal.many kv.2)"
        body = item(e) if test is None else self.br(test, e, item, keep)
        return V("pairs", x=(d, dv.lean, body))

    def merge(self, brancher, vt, vf, node):
        """value of a two-way decision: evaluate both sides, unify their kinds, splice the texts into the decision"""
        mine = []

        def k(which):
            def f(e):
                v = which(e)
                p = "\x00%d\x00" % len(self.ph)
                self.ph[p] = None
                mine.append((p, v))
                return p
            return f
        text = brancher(k(vt), k(vf))
        if not mine:
            self.bad(node, "decision without outcome")
        if len(mine) == 1 and text == mine[0][0]:
            return mine[0][1]                        # decided statically
        tags = set()
        for _, v in mine:
            if v.tag == "const":
                tags.add("None" if v.x is None else type(v.x).__name__)
            else:
                tags.add(v.tag)
        if tags <= {"bool"}:
            want = "bool"
        elif tags <= {"str"}:
            want = "str"
        elif tags <= {"str", "pval", "liststr"}:
            want = "pval"
        elif tags <= {"bytes", "optbytes", "None"}:
            want = "optbytes"
        else:
            self.bad(node, "branches of kinds %s" % sorted(tags))
        for p, v in mine:
            text = text.replace(p, self.lower(v, want, node))
            del self.ph[p]
        return V(want, "(%s)" % text)

    def value_or(self, n, env):
        """`a or b` used as a value (not as a condition)"""
        vs = [self.ev(e, env) for e in n.values]
        if all(v.tag in ("bool",) or (v.tag == "const" and isinstance(v.x, bool)) for v in vs):
            return None
        if len(vs) == 2 and vs[0].tag == "str" and (vs[1].tag in ("pval", "str") or (vs[1].tag == "const" and isinstance(vs[1].x, str))):
            if vs[1].tag == "pval":
                return V("pval", "(Src.orP %s %s)" % (vs[0].lean, vs[1].lean))
            return V("str", "(if Src.truthy %s = true then %s else %s)" % (vs[0].lean, vs[0].lean, self.lower(vs[1], "str")))
        return None

    def attr(self, b, name, env, node):
        if b.tag == "pyobj":
            o = b.x
            if o is getattr(self.mod, "pyro_app", None):
                if name == "gateway_key":
                    return V("optbytes", "cfg.key")
                if name == "ns_regex":
                    return env.get("$ref", {}).get("cfg.pattern", V("optstr", "cfg.pattern"))
                if name == "cors":
                    return V("ignored")
                if name == "comm_timeout":
                    return V("nat", "appTimeout")
                self.bad(node, "attribute of pyro_app")
            if inspect.ismodule(o) and hasattr(o, name):
                r = getattr(o, name)
                if r is None or isinstance(r, (str, bytes, bool, int)):
                    return V("const", x=r)
                return V("pyobj", x=r)
        return V("method", x=(b, name))

    def subscript(self, n, env):
        b = self.ev(n.value, env)
        if isinstance(n.slice, ast.Slice):
            s = n.slice
            if b.tag == "str" and s.lower is not None and s.upper is None and s.step is None:
                lo = self.ev(s.lower, env)
                if lo.tag == "const" and isinstance(lo.x, int) and not isinstance(lo.x, bool) and lo.x >= 0:
                    return V("str", "(Src.sliceFrom %s %d)" % (b.lean, lo.x))
            self.bad(n, "slice")
        i = self.ev(n.slice, env)
        if b.tag == "environ" and i.tag == "const" and i.x == "QUERY_STRING":
            return V("qs")
        if b.tag == "liststr" and i.tag == "const" and i.x == 0 and not isinstance(i.x, bool):
            if ("len1", b.lean) not in env.get("$facts", ()):
                self.bad(n, "[0] of a list not known to have one element")
            return V("str", "((%s).headD [])" % b.lean)
        self.bad(n, "subscript")

    def call(self, n, env):
        f = self.ev(n.func, env)
        if any(k.arg is None for k in n.keywords):
            self.bad(n, "**kwargs")
        args = [self.ev(a, env) for a in n.args]
        kw = {k.arg: self.ev(k.value, env) for k in n.keywords}
        if f.tag == "method":
            b, name = f.x
            if kw:
                self.bad(n, "keyword arguments of a method")
            if b.tag == "environ" and name == "get" and args and args[0].tag == "const" and args[0].x in ENVIRON_GET:
                dflt, (tag, lean) = ENVIRON_GET[args[0].x]
                given = args[1] if len(args) == 2 else NONE
                if len(args) <= 2 and given.tag == "const" and given.x == dflt and type(given.x) is type(dflt):
                    return V(tag, lean)
                self.bad(n, "default of environ.get differs from what the model's Req assumes")
            if b.tag == "str" and len(args) == 1 and args[0].tag == "const" and isinstance(args[0].x, str):
                c = args[0].x
                if name == "lstrip":
                    return V("str", "(Src.lstrip %s %s)" % (cpl(c), b.lean))
                if name == "startswith":
                    return V("bool", "(Src.startswith %s %s)" % (b.lean, cpl(c)))
                if name == "split" and len(c) == 1:
                    return V("liststr", "(splitOn %d %s)" % (ord(c), b.lean))
                if name == "encode" and c.lower().replace("_", "-") in ("utf-8", "utf8"):
                    return V("bytes", "(utf8 %s)" % b.lean)
            if b.tag == "params" and name == "get" and len(args) == 2 and args[0].tag == "const" and isinstance(args[0].x, str):
                return V("pval", "(Src.getP %s %s %s)" % (cpl(args[0].x), b.lean, self.lower(args[1], "pval", n)))
            if b.tag == "groups" and name == "groups" and not args:
                return V("tuple", x=[V("str", b.x[0]), V("str", b.x[1])])
            if b.tag == "pyobj" and isinstance(b.x, re.Pattern) and name == "match" and len(args) == 1:
                if b.x.flags != re.compile(b.x.pattern).flags:
                    self.bad(n, "regex flags")
                return self.re_match(V("const", x=b.x.pattern), args[0], n)
            self.bad(n, "method call")
        if f.tag == "pyobj":
            o = f.x
            if o is re.match and len(args) == 2 and not kw:
                return self.re_match(args[0], args[1], n)
            if o is urllib.parse.parse_qs and len(args) == 1 and not kw and args[0].tag == "qs":
                return V("query", "req.query")
            if o is len and len(args) == 1 and not kw:
                a = args[0]
                if a.tag == "const" and isinstance(a.x, (str, bytes, tuple)):
                    return V("const", x=len(a.x))
                if a.tag in ("liststr", "str"):
                    return V("nat", "(%s).length" % a.lean)
                self.bad(n, "len")
            m = self.mod
            if o is getattr(m, "cors_response_header", None) and len(args) == 2 and not kw and args[0].tag == "list":
                return args[0]
            if o is getattr(m, "singlyfy_parameters", None) and len(args) == 1 and not kw:
                return V("params", "(singlyfySrc %s)" % self.lower(args[0], "query", n))
            if o is getattr(m, "process_pyro_request", None) and len(args) == 4 and not kw:
                if args[0].tag == "environ" and args[3].tag == "sr":
                    return V("reply", "(processSrc cfg be req %s %s)" % (self.lower(args[1], "str", n), self.lower(args[2], "params", n)))
            if o is getattr(m, "return_homepage", None) and len(args) == 2 and not kw:
                if args[0].tag == "environ" and args[1].tag == "sr":
                    return V("reply", "(homepage cfg be)")
            if inspect.isfunction(o) and o.__module__ == m.__name__ and self.funcs.get(o.__name__) is not None \
                    and getattr(m, o.__name__, None) is o:
                got = []

                def kv(v, e):
                    got.append(v)
                    return "\x01"
                text = self.inline(self.funcs[o.__name__], args, kw, env, kv, n)
                if len(got) != 1 or text != "\x01":
                    self.bad(n, "helper with more than one outcome used inside an expression")
                return got[0]
        self.bad(n, "call")

    def re_match(self, p, x, n):
        if p.tag == "const" and p.x == SPLIT_REGEX and x.tag == "str":
            return V("match", "(splitPath %s)" % x.lean)
        if p.tag == "str" and p.lean.startswith("pat") and x.tag == "str":
            return V("bool", "(be.rmatch %s %s)" % (p.lean, x.lean))
        self.bad(n, "re.match with this pattern")

    # ------------------------------------------------------------------ decisions
    def ite(self, c, env, kt, kf):
        e = dict(env)
        e["$conds"] = env.get("$conds", 0) + 1
        return "(if %s = true then %s else %s)" % (c, kt(e), kf(e))

    def br(self, t, env, kt, kf):
        if isinstance(t, ast.UnaryOp) and isinstance(t.op, ast.Not):
            return self.br(t.operand, env, kf, kt)
        if isinstance(t, ast.BoolOp):
            first, rest = t.values[0], t.values[1:]
            more = rest[0] if len(rest) == 1 else ast.BoolOp(op=t.op, values=rest)
            if isinstance(t.op, ast.And):
                return self.br(first, env, lambda e: self.br(more, e, kt, kf), kf)
            return self.br(first, env, kt, lambda e: self.br(more, e, kt, kf))
        if isinstance(t, ast.Compare) and len(t.ops) == 1:
            op, l, r = t.ops[0], t.left, t.comparators[0]
            if isinstance(op, (ast.NotIn, ast.NotEq, ast.IsNot)):
                pos = {ast.NotIn: ast.In, ast.NotEq: ast.Eq, ast.IsNot: ast.Is}[type(op)]()
                return self.br(ast.Compare(left=l, ops=[pos], comparators=[r]), env, kf, kt)
            if isinstance(op, ast.Is):
                rv = self.ev(r, env)
                if not (rv.tag == "const" and rv.x is None):
                    self.bad(t, "`is` with something other than None")
                lv = self.ev(l, env)
                if lv.tag == "const":
                    return kt(env) if lv.x is None else kf(env)
                if lv.tag in ("groups", "tuple", "str", "bytes", "params", "liststr", "pval"):
                    return kf(env)
                if lv.tag == "match":
                    return self.br_val(lv, env, kf, kt, l)
                self.bad(t, "`is None` on a value of kind %s" % lv.tag)
            if isinstance(op, ast.Eq):
                a, b = self.ev(l, env), self.ev(r, env)
                if a.tag == "const" and b.tag == "const":
                    return kt(env) if (a.x == b.x and type(a.x) is type(b.x)) else kf(env)
                strs = lambda v: v.tag == "str" or (v.tag == "const" and isinstance(v.x, str))
                obs = lambda v: v.tag in ("bytes", "optbytes") or (v.tag == "const" and v.x is None)
                if strs(a) and strs(b):
                    return self.ite("decide (%s = %s)" % (self.lower(a, "str"), self.lower(b, "str")), env, kt, kf)
                if obs(a) and obs(b):
                    return self.ite("decide (%s = %s)" % (self.lower(a, "optbytes"), self.lower(b, "optbytes")), env, kt, kf)
                if a.tag == "nat" and b.tag == "const" and isinstance(b.x, int) and not isinstance(b.x, bool) and b.x >= 0:
                    def kt2(e):
                        if b.x == 1 and a.lean.endswith(".length"):
                            e = dict(e)
                            e["$facts"] = set(e.get("$facts", ())) | {("len1", a.lean[1:-len(").length")])}
                        return kt(e)
                    return self.ite("decide (%s = %d)" % (a.lean, b.x), env, kt2, kf)
                self.bad(t, "== between kinds %s and %s" % (a.tag, b.tag))
            if isinstance(op, ast.In):
                a, b = self.ev(l, env), self.ev(r, env)
                x = self.lower(a, "str", t)
                if b.tag == "const" and isinstance(b.x, tuple):
                    return self.ite("Src.strIn %s [%s]" % (x, ", ".join(cpl(i) for i in b.x)), env, kt, kf)
                if b.tag == "const" and isinstance(b.x, str):
                    return self.ite("Src.substr %s %s" % (x, cpl(b.x)), env, kt, kf)
                if b.tag == "liststr":
                    return self.ite("List.contains %s %s" % (b.lean, x), env, kt, kf)
                if b.tag == "params":
                    return self.ite("Src.hasP %s %s" % (x, b.lean), env, kt, kf)
                self.bad(t, "`in` with a right-hand side of kind %s" % b.tag)
            self.bad(t, "comparison")
        if isinstance(t, ast.Call) and isinstance(t.func, ast.Name) and t.func.id == "isinstance" and "isinstance" not in env \
                and not hasattr(self.mod, "isinstance") and len(t.args) == 2 and not t.keywords:
            v = self.ev(t.args[0], env)
            tv = self.ev(t.args[1], env)
            tys = [tv.x] if tv.tag == "pyobj" else [i.x for i in tv.x if i.tag == "pyobj"] if tv.tag == "tuple" else None
            if not tys or not all(isinstance(i, type) for i in tys) or (tv.tag == "tuple" and len(tys) != len(tv.x)):
                self.bad(t, "isinstance with these types")
            tys = tuple(tys)
            if v.tag == "const":
                return kt(env) if isinstance(v.x, tys) else kf(env)
            have = {"str": str, "bytes": bytes, "liststr": list, "params": dict, "query": dict}.get(v.tag)
            if have is not None:
                return kt(env) if issubclass(have, tys) else kf(env)
            if v.tag == "pval":
                s, l = issubclass(str, tys), issubclass(list, tys)
                if s and l:
                    return kt(env)
                if not s and not l:
                    return kf(env)
                a, b = self.fresh("s"), self.fresh("_l")
                e1, e2 = dict(env), dict(env)
                e1["$conds"] = e2["$conds"] = env.get("$conds", 0) + 1
                if isinstance(t.args[0], ast.Name):
                    e1[t.args[0].id] = V("str", a)
                    e2[t.args[0].id] = V("liststr", b)
                one, many = (kt, kf) if s else (kf, kt)
                return "(match %s with | PVal.one %s => %s | PVal.many %s => %s)" % (v.lean, a, one(e1), b, many(e2))
            self.bad(t, "isinstance on a value of kind %s" % v.tag)
        if isinstance(t, ast.Call) and not any(k.arg is None for k in t.keywords):
            # a predicate helper of the module (`[x = e]* return <test>`): decide on its returned test directly
            f = self.ev(t.func, env)
            m = self.mod
            if f.tag == "pyobj" and inspect.isfunction(f.x) and f.x.__module__ == m.__name__ and getattr(m, f.x.__name__, None) is f.x \
                    and f.x.__name__ in self.funcs:
                fn = self.funcs[f.x.__name__]
                body = [s for s in fn.body if not (isinstance(s, ast.Expr) and isinstance(s.value, ast.Constant))]
                if body and isinstance(body[-1], ast.Return) and body[-1].value is not None \
                        and all(isinstance(s, ast.Assign) and len(s.targets) == 1 and isinstance(s.targets[0], ast.Name) for s in body[:-1]):
                    args = [self.ev(a, env) for a in t.args]
                    kw = {k.arg: self.ev(k.value, env) for k in t.keywords}
                    box = {}

                    def grab(ce):
                        box["env"] = ce
                        return "\x01"
                    if self.inline(ast.FunctionDef(name=fn.name, args=fn.args, body=body[:-1] or [ast.Pass()], decorator_list=[]),
                                   args, kw, env, lambda v, e: "\x02", t, fall=grab) != "\x01":
                        self.bad(t, "predicate helper")
                    back = lambda k: (lambda ce: k({**env, **{x: ce[x] for x in ("$conds", "$ref", "$facts") if x in ce}}))
                    return self.br(body[-1].value, box["env"], back(kt), back(kf))
        return self.br_val(self.ev(t, env), env, kt, kf, t)

    def br_val(self, v, env, kt, kf, node):
        """truth value of `v` decides"""
        name = node.id if isinstance(node, ast.Name) else None
        if v.tag == "const":
            return kt(env) if v.x else kf(env)
        if v.tag == "bool":
            return self.ite(v.lean, env, kt, kf)
        if v.tag == "str":
            return self.ite("Src.truthy %s" % v.lean, env, kt, kf)
        if v.tag == "optbytes":
            return self.ite("Src.truthyB %s" % v.lean, env, kt, kf)
        if v.tag in ("groups",) or (v.tag == "tuple" and v.x):
            return kt(env)
        if v.tag == "optstr":
            p = self.fresh("pat")
            e1 = dict(env)
            e1["$conds"] = env.get("$conds", 0) + 1
            e1["$ref"] = dict(env.get("$ref", {}))
            e1["$ref"][v.lean] = V("str", p)
            if name:
                e1[name] = V("str", p)
            e0 = dict(env)
            e0["$conds"] = e1["$conds"]
            return "(match %s with | none => %s | some %s => (if Src.truthy %s = true then %s else %s))" % (
                v.lean, kf(e0), p, p, kt(e1), kf(e1))
        if v.tag == "match":
            a, b = self.fresh("g"), self.fresh("g")
            e0, e1 = dict(env), dict(env)
            e0["$conds"] = e1["$conds"] = env.get("$conds", 0) + 1
            if name:
                e0[name] = NONE
                e1[name] = V("groups", x=(a, b))
            elif not isinstance(node, ast.Call):
                self.bad(node, "match object that is not a local")
            return "(match %s with | none => %s | some (%s, %s) => %s)" % (v.lean, kf(e0), a, b, kt(e1))
        self.bad(node, "truth value of a value of kind %s" % v.tag)

    # ------------------------------------------------------------------ statements
    def inline(self, fn, args, kw, env, kv, node, fall=None):
        a = fn.args
        if a.vararg or a.kwarg or a.kwonlyargs or a.posonlyargs or fn.decorator_list:
            self.bad(node, "signature of helper %s" % fn.name)
        names = [p.arg for p in a.args]
        if len(args) > len(names):
            self.bad(node, "too many arguments")
        e = {k: v for k, v in env.items() if k in ("$conds", "$ref", "$facts")}
        for nm, v in zip(names, args):
            e[nm] = v
        defaults = dict(zip(names[len(names) - len(a.defaults):], a.defaults))
        for nm in names[len(args):]:
            if nm in kw:
                e[nm] = kw[nm]
            elif nm in defaults:
                e[nm] = self.ev(defaults[nm], {})
            else:
                self.bad(node, "missing argument %s" % nm)
        if set(kw) - set(names[len(args):]):
            self.bad(node, "unexpected keyword argument")
        e["$depth"] = env.get("$depth", 0) + 1
        if e["$depth"] > 6:
            self.bad(node, "helper nesting too deep")

        def ret(v, ce):
            e2 = dict(env)
            for k in ("$conds", "$ref", "$facts"):
                if k in ce:
                    e2[k] = ce[k]
            return kv(v, e2)
        e["$ret"] = ret
        return self.run(fn.body, e, fall or (lambda ce: ret(NONE, ce)))

    def value_then(self, node, env, kv):
        """value of `node`, continuing with kv(value, env); a call of a helper of the module is opened with its own returns"""
        if isinstance(node, ast.Call) and not any(k.arg is None for k in node.keywords):
            f = self.ev(node.func, env)
            m = self.mod
            special = [getattr(m, s, None) for s in ("cors_response_header", "singlyfy_parameters", "process_pyro_request", "return_homepage")]
            if f.tag == "pyobj" and inspect.isfunction(f.x) and f.x.__module__ == m.__name__ and getattr(m, f.x.__name__, None) is f.x \
                    and f.x.__name__ in self.funcs and not any(f.x is s for s in special):
                args = [self.ev(a, env) for a in node.args]
                kw = {k.arg: self.ev(k.value, env) for k in node.keywords}
                return self.inline(self.funcs[f.x.__name__], args, kw, env, kv, node)
        return kv(self.ev(node, env), env)

    def is_silent_call(self, c, env):
        f = c.func
        if isinstance(f, ast.Name) and f.id == "print" and "print" not in env and not hasattr(self.mod, "print"):
            return True
        if isinstance(f, ast.Attribute) and isinstance(f.value, ast.Name) and f.value.id not in env \
                and isinstance(getattr(self.mod, f.value.id, None), logging.Logger):
            return True
        return False

    def run(self, stmts, env, k):
        if not stmts:
            return k(env)
        s, rest = stmts[0], stmts[1:]
        kk = lambda e: self.run(rest, e, k)
        if isinstance(s, ast.Pass):
            return kk(env)
        if isinstance(s, ast.Expr):
            c = s.value
            if isinstance(c, ast.Constant):
                return kk(env)                               # docstring / bare string
            if isinstance(c, ast.Call):
                if self.is_silent_call(c, env):
                    return kk(env)
                f = self.ev(c.func, env)
                if f.tag == "sr" and len(c.args) == 2 and not c.keywords:
                    e = dict(env)
                    e["$sr"] = self.start_response(self.ev(c.args[0], env), self.ev(c.args[1], env), c)
                    return kk(e)
                if f.tag == "method" and f.x[0].tag == "params" and f.x[1] == "pop" and isinstance(c.func.value, ast.Name) \
                        and len(c.args) == 2 and not c.keywords and env.get("$depth", 0) == 0:
                    key, d = self.ev(c.args[0], env), self.ev(c.args[1], env)
                    if key.tag == "const" and isinstance(key.x, str) and d.tag == "const":
                        e = dict(env)
                        e[c.func.value.id] = V("params", "(eraseP %s %s)" % (cpl(key.x), f.x[0].lean))
                        return kk(e)
            self.bad(s, "expression statement")
        if isinstance(s, ast.AnnAssign) and s.value is not None and s.simple:
            s = ast.Assign(targets=[s.target], value=s.value, lineno=s.lineno)
        if isinstance(s, ast.Assign) and len(s.targets) == 1:
            tg = s.targets[0]
            if isinstance(tg, ast.Name):
                return self.value_then(s.value, env, lambda v, e: kk({**e, tg.id: self.storable(v, s)}))
            if isinstance(tg, ast.Tuple) and all(isinstance(x, ast.Name) for x in tg.elts):
                def bind(v, e):
                    if v.tag != "tuple" or len(v.x) != len(tg.elts):
                        self.bad(s, "unpacking")
                    return kk({**e, **{x.id: self.storable(i, s) for x, i in zip(tg.elts, v.x)}})
                return self.value_then(s.value, env, bind)
            if isinstance(tg, ast.Attribute):
                b = self.ev(tg.value, env)
                import Pyro5
                if b.tag == "pyobj" and b.x is Pyro5.config and self.config_writes is not None \
                        and env.get("$conds", 0) == 0 and env.get("$depth", 0) == 0:
                    v = self.ev(s.value, env)
                    if tg.attr == "SERIALIZER" and v.tag == "const" and v.x in SERIALIZERS:
                        self.config_writes.append("serializer := %s" % SERIALIZERS[v.x])
                        return kk(env)
                    if tg.attr == "COMMTIMEOUT" and v.tag == "nat" and v.lean == "appTimeout":
                        self.config_writes.append("commTimeout := appTimeout")
                        return kk(env)
                self.bad(s, "attribute assignment")
            if isinstance(tg, ast.Subscript) and "$loop" in env:
                d, key = env["$loop"]
                if isinstance(tg.value, ast.Name) and tg.value.id == d and isinstance(tg.slice, ast.Name) and tg.slice.id == key \
                        and env[d].tag == "looping" and env[key].lean == "kv.1":
                    v = self.ev(s.value, env)
                    return kk({**env, "$item": self.lower(v, "pval", s)})
            self.bad(s, "assignment")
        if isinstance(s, ast.Delete) and len(s.targets) == 1 and isinstance(s.targets[0], ast.Subscript) \
                and isinstance(s.targets[0].value, ast.Name) and env.get("$depth", 0) == 0:
            tg = s.targets[0]
            d, key = self.ev(tg.value, env), self.ev(tg.slice, env)
            if d.tag == "params" and key.tag == "const" and isinstance(key.x, str):
                if ("has", key.x, d.lean) not in env.get("$facts", ()):
                    self.bad(s, "del of a key not known to be present")
                return kk({**env, tg.value.id: V("params", "(eraseP %s %s)" % (cpl(key.x), d.lean))})
            self.bad(s, "del")
        if isinstance(s, ast.If):
            t = s.test
            # normal form: `if K in d: del d[K]` (nothing else, no else) is `d.pop(K, None)` — both are `eraseP K d`
            if isinstance(t, ast.Compare) and len(t.ops) == 1 and isinstance(t.ops[0], ast.In) and not s.orelse and len(s.body) == 1 \
                    and isinstance(s.body[0], ast.Delete) and len(s.body[0].targets) == 1 and env.get("$depth", 0) == 0:
                dl = s.body[0].targets[0]
                if isinstance(dl, ast.Subscript) and isinstance(dl.value, ast.Name) and isinstance(t.comparators[0], ast.Name) \
                        and dl.value.id == t.comparators[0].id:
                    a, a2, d = self.ev(t.left, env), self.ev(dl.slice, env), self.ev(dl.value, env)
                    if d.tag == "params" and a.tag == "const" and isinstance(a.x, str) and a2.tag == "const" and a2.x == a.x \
                            and isinstance(a2.x, str):
                        return kk({**env, dl.value.id: V("params", "(eraseP %s %s)" % (cpl(a.x), d.lean))})
            # `if K in params:` teaches the branch that the key is present (needed by `del params[K]`)
            if isinstance(t, ast.Compare) and len(t.ops) == 1 and isinstance(t.ops[0], ast.In):
                a, b = self.ev(t.left, env), self.ev(t.comparators[0], env)
                if a.tag == "const" and isinstance(a.x, str) and b.tag == "params":
                    fact = ("has", a.x, b.lean)
                    return self.br(t, env, lambda e: self.run(s.body, {**e, "$facts": set(e.get("$facts", ())) | {fact}}, kk),
                                   lambda e: self.run(s.orelse, e, kk))
            return self.br(t, env, lambda e: self.run(s.body, e, kk), lambda e: self.run(s.orelse, e, kk))
        if isinstance(s, ast.Return):
            if s.value is None:
                return env["$ret"](NONE, env)
            if isinstance(s.value, ast.List):
                return env["$ret"](self.reply(s.value, env), env)
            return self.value_then(s.value, env, lambda v, e: env["$ret"](v, {**env, **{k: e[k] for k in ("$conds", "$ref", "$facts") if k in e}}))
        if isinstance(s, ast.Try) and env.get("$top") == "process" and env.get("$depth", 0) == 0 and not rest:
            return env["$ret"](self.forward_block(s, env), env)
        if isinstance(s, ast.For) and not s.orelse and env.get("$depth", 0) == 0 and env.get("$conds", 0) == 0:
            it, tg = s.iter, s.target
            if isinstance(it, ast.Call) and not it.args and not it.keywords and isinstance(it.func, ast.Attribute) \
                    and it.func.attr == "items" and isinstance(it.func.value, ast.Name) \
                    and isinstance(tg, ast.Tuple) and len(tg.elts) == 2 and all(isinstance(x, ast.Name) for x in tg.elts):
                d = it.func.value.id
                dv = self.ev(it.func.value, env)
                if dv.tag == "query":
                    e = {**env, d: V("looping"), tg.elts[0].id: V("str", "kv.1"), tg.elts[1].id: V("liststr", "kv.2"),
                         "$loop": (d, tg.elts[0].id), "$item": None, "$ret": lambda v, ce: self.bad(s, "return inside the loop"),
                         "$depth": 1}
                    body = self.run(s.body, e, lambda ce: ce["$item"] if ce["$item"] is not None else "(PVal.many kv.2)")
                    return kk({**env, d: V("params", "((%s).map fun kv => (kv.1, %s))" % (dv.lean, body))})
            # `for a, b in pairs: d[a] = b` where pairs = [(K, e) for K, V in d.items() if c] and d is untouched since
            if isinstance(it, ast.Name) and isinstance(tg, ast.Tuple) and len(tg.elts) == 2 and all(isinstance(x, ast.Name) for x in tg.elts) \
                    and tg.elts[0].id != tg.elts[1].id and env.get(it.id) is not None and env[it.id].tag == "pairs" and len(s.body) == 1:
                d, dlean, body = env[it.id].x
                a = s.body[0]
                if isinstance(a, ast.Assign) and len(a.targets) == 1 and isinstance(a.targets[0], ast.Subscript) \
                        and isinstance(a.targets[0].value, ast.Name) and a.targets[0].value.id == d \
                        and isinstance(a.targets[0].slice, ast.Name) and a.targets[0].slice.id == tg.elts[0].id \
                        and isinstance(a.value, ast.Name) and a.value.id == tg.elts[1].id \
                        and env.get(d) is not None and env[d].tag == "query" and env[d].lean == dlean \
                        and d not in (tg.elts[0].id, tg.elts[1].id, it.id):
                    return kk({**env, d: V("params", "((%s).map fun kv => (kv.1, %s))" % (dlean, body))})
            self.bad(s, "for loop")
        self.bad(s, "statement")

    def storable(self, v, node):
        if v.tag in ("method", "looping"):
            self.bad(node, "binding a value of kind %s" % v.tag)
        return v

    def start_response(self, status, hdrs, node):
        if not (status.tag == "const" and isinstance(status.x, str) and re.match(r"\d{3}( |$)", status.x)):
            self.bad(node, "status line")
        if hdrs.tag != "list":
            self.bad(node, "headers")
        ctype, corr = ".none", False
        for h in hdrs.x:
            if not (h.tag == "tuple" or (h.tag == "const" and isinstance(h.x, tuple))):
                self.bad(node, "header entry")
            items = h.x if h.tag == "tuple" else [V("const", x=i) for i in h.x]
            if len(items) != 2 or not (items[0].tag == "const" and isinstance(items[0].x, str)):
                self.bad(node, "header entry")
            key = items[0].x.lower()
            if key == "content-type":
                if not (items[1].tag == "const" and items[1].x in CTYPES):
                    self.bad(node, "content type")
                ctype = CTYPES[items[1].x]
            elif key == "x-pyro-correlation-id":
                corr = True
            elif key != "location":
                self.bad(node, "header %s" % key)
        return (int(status.x[:3]), ctype, "true" if corr else "false")

    def reply(self, lst, env):
        if "$sr" not in env:
            self.bad(lst, "body returned before start_response on this path")
        st, ct, corr = env["$sr"]
        if not lst.elts:
            body = ".empty"
        elif len(lst.elts) == 1:
            v = self.ev(lst.elts[0], env)
            if not (v.tag == "const" and isinstance(v.x, bytes) and v.x in LITS):
                self.bad(lst, "reply body is not one of the gateway's fixed texts")
            body = "(.lit .%s)" % LITS[v.x]
        else:
            self.bad(lst, "reply body")
        return V("reply", "(Reply.http ⟨%d, %s, %s, %s⟩, [])" % (st, ct, corr, body))

    def forward_block(self, t, env):
        """the `try:` statement that ends process_pyro_request: not opened.  Checked: which locals it reads and in which role."""
        silent = set()
        for c in ast.walk(t):
            if isinstance(c, ast.Call) and self.is_silent_call(c, env):
                for x in ast.walk(c):
                    silent.add(id(x))
        bound = set()
        for x in ast.walk(t):
            if isinstance(x, ast.Name) and isinstance(x.ctx, (ast.Store, ast.Del)):
                bound.add(x.id)
            elif isinstance(x, ast.ExceptHandler) and x.name:
                bound.add(x.name)
            elif isinstance(x, (ast.FunctionDef, ast.Lambda, ast.ClassDef, ast.comprehension, ast.Global, ast.Nonlocal)) \
                    or (hasattr(ast, "NamedExpr") and isinstance(x, ast.NamedExpr)):
                self.bad(x, "inside the forwarding block")
        rebound = {n for n in bound if n in env}
        if rebound:
            self.bad(t, "forwarding block rebinds %s" % sorted(rebound))
        lookups = [c for c in ast.walk(t) if isinstance(c, ast.Call) and isinstance(c.func, ast.Attribute) and c.func.attr == "lookup"]
        stars = [k.value for c in ast.walk(t) if isinstance(c, ast.Call) for k in c.keywords if k.arg is None]
        if len(lookups) != 1 or len(lookups[0].args) != 1 or lookups[0].keywords or not isinstance(lookups[0].args[0], ast.Name):
            self.bad(t, "exactly one <nameserver>.lookup(<local>) expected in the forwarding block")
        if len(stars) != 1 or not isinstance(stars[0], ast.Name):
            self.bad(t, "exactly one call with **<local> expected in the forwarding block")
        obj = env.get(lookups[0].args[0].id)
        ps = env.get(stars[0].id)
        if obj is None or obj.tag != "str" or not re.fullmatch(r"g\d+", obj.lean):
            self.bad(t, "the looked-up name is not the first group of the path split")
        if ps is None or ps.tag != "params":
            self.bad(t, "the **kwargs are not the parameter dict")
        member = None
        for x in ast.walk(t):
            if isinstance(x, ast.Name) and isinstance(x.ctx, ast.Load) and id(x) not in silent and x.id in env and x.id not in bound:
                v = env[x.id]
                if v.tag in ("environ", "sr") or v is obj:
                    continue
                if v.tag == "params":
                    if v.lean != ps.lean:
                        self.bad(x, "a second parameter dict reaches the forwarding block")
                    continue
                if v.tag == "str" and re.fullmatch(r"g\d+", v.lean):
                    if v.lean == obj.lean:
                        continue
                    if member is not None and member != v.lean:
                        self.bad(x, "several member names")
                    member = v.lean
                    continue
                if v.tag in ("liststr", "bool", "str") and re.fullmatch(r"[\w\s().,\[\]=:]*", v.lean) \
                        and not re.search(r"\b(cfg|be|p\d+|g\d+|pat\d+|s\d+|l\d+)\b", v.lean):
                    continue                                  # computed from the request's headers alone: `req` carries it
                self.bad(x, "local of kind %s reaches the forwarding block" % v.tag)
        if member is None:
            self.bad(t, "the member name does not reach the forwarding block")
        return V("reply", "(Src.fwd be req %s %s %s)" % (obj.lean, member, ps.lean))

    # ------------------------------------------------------------------ entry points
    def function(self, name, nparams):
        fn = self.funcs.get(name)
        if fn is None or getattr(self.mod, name, None) is None:
            raise Untranslatable("no function %s in the module" % name)
        a = fn.args
        if a.vararg or a.kwarg or a.kwonlyargs or a.posonlyargs or a.defaults or fn.decorator_list or len(a.args) != nparams:
            raise Untranslatable("signature of %s" % name)
        return fn, [p.arg for p in a.args]

    def top(self, name, binds, want):
        fn, names = self.function(name, len(binds))
        self.n = 0
        out = []

        def ret(v, e):
            if v.tag != want:
                self.bad(fn, "%s returns a value of kind %s" % (name, v.tag))
            out.append(1)
            return v.lean
        env = dict(zip(names, binds))
        env["$ret"] = ret
        env["$top"] = name.split("_")[0]
        text = self.run(fn.body, env, lambda e: ret(NONE, e))
        if "\x00" in text or "\x01" in text:
            raise Untranslatable("internal: placeholder left in %s" % name)
        return text


def pretty(text, width=118):
    """break the one-line term at `then` / `else` / `|` with indentation by nesting depth (cosmetic only)"""
    out, depth, line = [], 0, ""
    i = 0
    toks = re.split(r"(\(|\)| then | else )", text)
    for t in toks:
        if t == "(":
            depth += 1
        elif t == ")":
            depth -= 1
        if t in (" then ", " else ") and len(line) > 40:
            out.append(line.rstrip())
            line = "  " * min(depth, 30) + t.lstrip()
        else:
            line += t
    out.append(line)
    return "\n".join(out)


def transcribe(mod, relpath):
    """Lean source of PyroModel/Gen/C20Src.lean"""
    tr = Tr(mod)
    sing = tr.top("singlyfy_parameters", [V("query", "q")], "params")
    proc = tr.top("process_pyro_request", [V("environ"), V("str", "p1"), V("params", "p2"), V("sr")], "reply")
    tr.config_writes = []
    app = tr.top("pyro_app", [V("environ"), V("sr")], "reply")
    cw = "c"
    for w in tr.config_writes:
        cw = "{ %s with %s }" % (cw, w)
    return f"""-- GENERATED by harness/props/c20_tr.py from the source of {relpath} — do not edit
import PyroModel.GatewaySrc
namespace Pyro.Gen.C20Src
open Pyro Pyro.Gateway

/-- `singlyfy_parameters(q)` for `q` = the dict `urllib.parse.parse_qs` returned -/
def singlyfySrc (q : List (Str × List Str)) : Params :=
  {pretty(sing)}

/-- `process_pyro_request(environ, p1, p2, start_response)` up to its `try:` block (= `Src.fwd`) -/
def processSrc (cfg : Cfg) (be : Backend) (req : Req) (p1 : Str) (p2 : Params) : Reply × List Action :=
  {pretty(proc)}

/-- the assignments to `Pyro5.config` with which `pyro_app` begins (straight-line, before any decision) -/
def configWriteSrc (appTimeout : Nat) (c : PyroConfig) : PyroConfig :=
  {cw}

/-- `pyro_app(environ, start_response)` -/
def appSrc (cfg : Cfg) (be : Backend) (req : Req) : Reply × List Action :=
  {pretty(app)}

end Pyro.Gen.C20Src
"""
