"""
C08: Daemon._handshake, transcribed from the source text into Lean (a shallow embedding over the types of
lean/PyroModel/Handshake.lean) on every run.

The result is one `def handshakeSrc (w : World) (denied : Option String) : Except Err Result` in continuation form:
  * every call of a collaborator that can raise becomes `match <call> with | .error e => <where the exception goes> | .ok v => <rest>`;
  * a `try` becomes two local functions: `handlerN err <locals bound before the try> cc sent` (the except clauses, in order,
    by the class each one names - resolved through the real module) and `afterN <locals the rest reads> cc sent` (what follows
    the try statement, reached from the end of the body and from a handler that falls through);
  * locals are renamed canonically (v<order of first binding>_<version>), module-level constants are resolved through the
    real modules to their values, `current_context` writes and `conn.send` are threaded as the state `cc` / `sent`.
SOUND BY REFUSAL: every statement, expression, call target, attribute, operator and exception class that is not listed
below raises Untranslatable.  Skipped without trace: docstrings, `log.*(...)`, `protocol.log_wiredata(log, ...)`, and an `if`
whose body consists of such calls only.
"""
import ast
import inspect
import textwrap


class Untranslatable(Exception):
    pass


def _no(node, why=""):
    try:
        src = ast.unparse(node)
    except Exception:
        src = repr(node)
    raise Untranslatable("c08_tr: cannot translate %s%s: %s" % (type(node).__name__, (" (" + why + ")") if why else "", src[:120]))


KIND_TYPE = {"nat": "Nat", "blob": "Blob", "str": "String", "rmsg": "RMsg", "pval": "PVal", "dval": "DVal", "outmsg": "OutMsg",
             "corr": "Corr", "ser": "Nat", "hval": "Nat", "oval": "Nat", "rval": "Nat", "meta": "Nat", "ann": "Nat", "optstr": "Option String",
             "bool": "Bool"}


def lean_str(s):
    if not all(32 <= ord(ch) < 127 and ch not in '"\\' for ch in s):
        raise Untranslatable("c08_tr: string constant %r" % (s,))
    return '"' + s + '"'


class Translator:
    def __init__(self, module, class_name, fn_name, lean_name):
        self.mod = module
        self.g = vars(module)
        tree = ast.parse(inspect.getsource(module))
        cls = [n for n in tree.body if isinstance(n, ast.ClassDef) and n.name == class_name]
        if len(cls) != 1:
            raise Untranslatable("c08_tr: class %s not found" % class_name)
        self.cls_name = class_name
        self.methods = {n.name: n for n in cls[0].body if isinstance(n, ast.FunctionDef)}
        if fn_name not in self.methods:
            raise Untranslatable("c08_tr: %s.%s not found" % (class_name, fn_name))
        self.fn = self.methods[fn_name]
        self.lean_name = lean_name
        self.order = {}          # python local -> index of first binding
        self.version = {}
        self.ntry = 0
        self.tmp = 0
        from Pyro5 import errors, protocol, serializers, core, callcontext
        self.errors, self.protocol, self.serializers, self.core, self.callcontext = errors, protocol, serializers, core, callcontext

    # ---- names -------------------------------------------------------------------------------
    def fresh(self, pyname):
        if pyname not in self.order:
            self.order[pyname] = len(self.order)
            self.version[pyname] = 0
        else:
            self.version[pyname] += 1
        return "v%d_%d" % (self.order[pyname], self.version[pyname])

    def freshtmp(self):
        self.tmp += 1
        return "t%d" % self.tmp

    # ---- resolving through the real module ---------------------------------------------------
    def resolve(self, e):
        """the Python object a dotted name rooted at a module global stands for (or raise KeyError)"""
        if isinstance(e, ast.Name):
            if e.id in self.g:
                return self.g[e.id]
            import builtins
            if hasattr(builtins, e.id):
                return getattr(builtins, e.id)
            raise KeyError(e.id)
        if isinstance(e, ast.Attribute):
            return getattr(self.resolve(e.value), e.attr)
        raise KeyError("not a dotted name")

    def try_resolve(self, e, env):
        if isinstance(e, ast.Name) and e.id in env:
            return None
        root = e
        while isinstance(root, ast.Attribute):
            root = root.value
        if isinstance(root, ast.Name) and (root.id in env or root.id in ("self", "conn")):
            return None
        try:
            return ("ok", self.resolve(e))
        except (KeyError, AttributeError):
            return None

    # ---- expressions: returns (prelude, lean, kind); prelude = [(leanvar, raising lean expr, kind)] in evaluation order --------
    def expr(self, e, env):
        if isinstance(e, ast.Constant):
            if isinstance(e.value, bool):
                return [], ("true" if e.value else "false"), "bool"
            if isinstance(e.value, int) and e.value >= 0:
                return [], str(e.value), "nat"
            if isinstance(e.value, str):
                return [], lean_str(e.value), "str"
            _no(e, "constant")
        if isinstance(e, ast.Name):
            if e.id in env:
                return [], env[e.id][0], env[e.id][1]
            if e.id in ("self", "conn") or e.id in self.order:
                _no(e, "unbound local or parameter used as a value")
        r = self.try_resolve(e, env)
        if r is not None:
            v = r[1]
            if isinstance(v, bool):
                _no(e, "module-level bool")
            if isinstance(v, int) and v >= 0:
                return [], str(v), "nat"
            if isinstance(v, str):
                return [], lean_str(v), "str"
            _no(e, "module-level object of type %s used as a value" % type(v).__name__)
        if isinstance(e, ast.Attribute):
            pre, base, kind = self.expr(e.value, env)
            table = {"rmsg": {"seq": ("seq", "nat"), "serializer_id": ("serId", "nat"), "data": ("data", "blob"),
                              "corr_id": ("corrId", "blob"), "type": ("type", "nat")},
                     "outmsg": {"type": ("type", "nat")}}
            if kind in table and e.attr in table[kind]:
                f, k = table[kind][e.attr]
                return pre, "%s.%s" % (base, f), k
            _no(e, "attribute of a %s" % kind)
        if isinstance(e, ast.Subscript):
            tgt = self.try_resolve(e.value, env)
            if tgt is not None and tgt[1] is self.serializers.serializers_by_id:
                pre, k, kind = self.expr(e.slice, env)
                if kind != "nat":
                    _no(e, "serializer table key")
                t = self.freshtmp()
                return pre + [(t, "(w.serializer %s)" % k, "ser")], t, "ser"
            pre, base, kind = self.expr(e.value, env)
            if kind == "pval" and isinstance(e.slice, ast.Constant) and e.slice.value in ("handshake", "object"):
                t = self.freshtmp()
                return pre + [(t, "(PVal.item %s %s)" % (base, lean_str(e.slice.value)), "hval" if e.slice.value == "handshake" else "oval")], \
                    t, ("hval" if e.slice.value == "handshake" else "oval")
            _no(e, "subscript")
        if isinstance(e, ast.Compare) and len(e.ops) == 1:
            op = e.ops[0]
            if isinstance(op, (ast.In, ast.NotIn)):
                tgt = self.try_resolve(e.comparators[0], env)
                if tgt is not None and tgt[1] is self.serializers.serializers_by_id:
                    pre, k, kind = self.expr(e.left, env)
                    if kind != "nat":
                        _no(e)
                    return pre, "(w.serializers %s).%s" % (k, "isNone" if isinstance(op, ast.NotIn) else "isSome"), "bool"
                _no(e, "membership test")
            if isinstance(op, (ast.Eq, ast.NotEq)):
                p1, a, k1 = self.expr(e.left, env)
                p2, b, k2 = self.expr(e.comparators[0], env)
                if k1 == k2 == "nat":
                    return p1 + p2, "(%s %s %s)" % (a, "==" if isinstance(op, ast.Eq) else "!=", b), "bool"
            _no(e, "comparison")
        if isinstance(e, ast.UnaryOp) and isinstance(e.op, ast.Not):
            # `not x in y` is `x not in y`
            if isinstance(e.operand, ast.Compare) and len(e.operand.ops) == 1 and isinstance(e.operand.ops[0], (ast.In, ast.NotIn)):
                flipped = ast.Compare(left=e.operand.left, ops=[ast.NotIn() if isinstance(e.operand.ops[0], ast.In) else ast.In()],
                                      comparators=e.operand.comparators)
                return self.expr(flipped, env)
            pre, c = self.cond(e.operand, env)
            if c.startswith("(w.serializers ") and c.endswith(").isSome"):
                return pre, c[:-len("isSome")] + "isNone", "bool"       # not (k in table) = k not in table
            if c.startswith("(w.serializers ") and c.endswith(").isNone"):
                return pre, c[:-len("isNone")] + "isSome", "bool"
            return pre, "(!%s)" % c, "bool"
        if isinstance(e, ast.BinOp) and isinstance(e.op, ast.BitAnd):
            # msg.flags & protocol.FLAGS_CORR_ID  (either order)
            for a, b in ((e.left, e.right), (e.right, e.left)):
                r = self.try_resolve(b, env)
                if r is not None and r[1] == self.protocol.FLAGS_CORR_ID and isinstance(a, ast.Attribute) and a.attr == "flags":
                    pre, base, kind = self.expr(a.value, env)
                    if kind == "rmsg":
                        return pre, "%s.hasCorr" % base, "bool"
            _no(e, "bit test")
        if isinstance(e, ast.Dict):
            keys = [k.value if isinstance(k, ast.Constant) else None for k in e.keys]
            if keys == ["handshake", "meta"]:
                p1, a, k1 = self.expr(e.values[0], env)
                p2, b, k2 = self.expr(e.values[1], env)
                if k1 == "rval" and k2 == "meta":
                    return p1 + p2, "(DVal.response %s %s)" % (a, b), "dval"
            _no(e, "dict literal")
        if isinstance(e, ast.IfExp):
            pc, c = self.cond(e.test, env)
            p1, a, k1 = self.expr(e.body, env)
            p2, b, k2 = self.expr(e.orelse, env)
            if pc or p1 or p2 or k1 != k2:
                _no(e, "conditional expression with calls that can raise / of two kinds")
            return [], "(if %s then %s else %s)" % (c, a, b), k1
        if isinstance(e, ast.Call):
            return self.call(e, env)
        _no(e)

    def helper_def(self, f, env):
        """the FunctionDef of a private one-expression helper called as `name(...)` (module level) or `self.name(...)`"""
        import types
        if isinstance(f, ast.Name) and f.id not in env and isinstance(self.g.get(f.id), types.FunctionType) \
                and self.g[f.id].__module__ == self.mod.__name__:
            fn = ast.parse(textwrap.dedent(inspect.getsource(self.g[f.id]))).body[0]
            return fn, False
        if isinstance(f, ast.Attribute) and isinstance(f.value, ast.Name) and f.value.id == "self" and f.attr in self.methods \
                and f.attr not in ("validateHandshake", "annotations", "__annotations", "_%s__annotations" % self.cls_name):
            return self.methods[f.attr], True
        return None

    def inline(self, e, env, fn, is_method):
        body = [s for s in fn.body if not (isinstance(s, ast.Expr) and isinstance(s.value, ast.Constant)) and not self.is_log(s)]
        a = fn.args
        params = [x.arg for x in a.args]
        if is_method:
            params = params[1:]
        if len(body) != 1 or not isinstance(body[0], ast.Return) or body[0].value is None or a.vararg or a.kwarg or a.kwonlyargs \
                or a.defaults or e.keywords or len(e.args) != len(params) or fn.decorator_list:
            _no(e, "helper that is not one return expression")
        self.depth = getattr(self, "depth", 0) + 1
        if self.depth > 4:
            _no(e, "helpers nested too deep")
        try:
            pre, env2 = [], {k: v for k, v in env.items() if k.startswith("$")}
            for name, arg in zip(params, e.args):
                if isinstance(arg, ast.Name) and arg.id == "conn":
                    continue                      # the connection is no value of the model: the helper may only pass it on
                p, v, k = self.expr(arg, env)
                pre += p
                env2[name] = (v, k)
            p, v, k = self.expr(body[0].value, env2)
            return pre + p, v, k
        finally:
            self.depth -= 1

    def call(self, e, env):
        f = e.func
        h = self.helper_def(f, env)
        if h is not None:
            return self.inline(e, env, *h)
        tgt = self.try_resolve(f, env)
        kw = {k.arg: k.value for k in e.keywords}
        if None in kw:
            _no(e, "**kwargs")
        if tgt is not None:
            t = tgt[1]
            if t is self.protocol.recv_stub:
                if len(e.args) == 2 and not kw and isinstance(e.args[0], ast.Name) and e.args[0].id == "conn":
                    ids = []
                    const = self.try_resolve(e.args[1], env) if not isinstance(e.args[1], (ast.List, ast.Tuple)) else None
                    if const is not None and isinstance(const[1], (list, tuple)) and const[1] \
                            and all(isinstance(x, int) and not isinstance(x, bool) and x >= 0 for x in const[1]):
                        ids = [str(x) for x in const[1]]          # a module-level constant: its value
                    elif isinstance(e.args[1], (ast.List, ast.Tuple)):
                        for a in e.args[1].elts:
                            p, v, k = self.expr(a, env)
                            if p or k != "nat":
                                _no(e)
                            ids.append(v)
                    else:
                        _no(e, "recv_stub: accepted message types")
                    tv = self.freshtmp()
                    return [(tv, "(w.recv [%s])" % ", ".join(ids), "rmsg")], tv, "rmsg"
                _no(e, "recv_stub arguments")
            if t is self.protocol.SendingMessage:
                if len(e.args) == 5 and set(kw) == {"annotations"}:
                    pre, args = [], []
                    for a, want in zip(e.args, ("nat", "nat", "nat", "nat", "blob")):
                        p, v, k = self.expr(a, env)
                        if k != want:
                            _no(a, "SendingMessage argument of kind %s, expected %s" % (k, want))
                        pre += p
                        args.append(v)
                    p, v, k = self.expr(kw["annotations"], env)
                    if k != "ann":
                        _no(e, "annotations argument")
                    return pre + p, "(OutMsg.mk %s %s)" % (" ".join(args), v), "outmsg"
                _no(e, "SendingMessage arguments")
            import uuid
            if t is uuid.UUID:
                if not e.args and set(kw) == {"bytes"}:
                    p, v, k = self.expr(kw["bytes"], env)
                    if k == "blob":
                        return p, "(Corr.ofMsg %s)" % v, "corr"
                _no(e, "uuid.UUID arguments")
            if t is uuid.uuid4:
                if not e.args and not kw:
                    return [], "Corr.fresh", "corr"
                _no(e)
            if t is bool:
                if len(e.args) == 1 and not kw:
                    p, c = self.cond(e.args[0], env)
                    return p, c, "bool"
                _no(e, "bool() arguments")
            if t is str:
                if len(e.args) == 1 and not kw:
                    p, v, k = self.expr(e.args[0], env)
                    if k == "reason":
                        return p, v, "str"
                _no(e, "str() of something that is not the caught exception")
            _no(e, "call of %r" % (t,))
        if isinstance(f, ast.Attribute):
            # methods of self
            if isinstance(f.value, ast.Name) and f.value.id == "self":
                if f.attr == "validateHandshake" and len(e.args) == 2 and not kw and isinstance(e.args[0], ast.Name) and e.args[0].id == "conn":
                    p, v, k = self.expr(e.args[1], env)
                    if k != "hval":
                        _no(e, "validator argument is not data[\"handshake\"]")
                    t = self.freshtmp()
                    return p + [(t, "(w.validate %s)" % v, "rval")], t, "rval"
                if f.attr in ("__annotations", "_%s__annotations" % self.cls_name) and not e.args and not kw:
                    t = self.freshtmp()
                    return [(t, "w.annotations", "ann")], t, "ann"
                # a private helper of the same class without arguments other than values: inline is not supported here
                _no(e, "method of self")
            # self.objectsById[core.DAEMON_NAME].get_metadata(<object id>)
            if f.attr == "get_metadata" and isinstance(f.value, ast.Subscript) and ast.unparse(f.value.value) == "self.objectsById":
                r = self.try_resolve(f.value.slice, env)
                if r is not None and r[1] == self.core.DAEMON_NAME and len(e.args) == 1 and not kw:
                    p, v, k = self.expr(e.args[0], env)
                    if k != "oval":
                        _no(e, "metadata argument is not data[\"object\"]")
                    t = self.freshtmp()
                    return p + [(t, "(w.metadata %s)" % v, "meta")], t, "meta"
                _no(e, "get_metadata")
            # methods of a serializer
            if isinstance(f.value, ast.Name) and f.value.id in env and env[f.value.id][1] == "ser" and len(e.args) == 1 and not kw:
                s = env[f.value.id][0]
                p, v, k = self.expr(e.args[0], env)
                if f.attr == "loads" and k == "blob":
                    t = self.freshtmp()
                    return p + [(t, "(w.loads %s %s)" % (s, v), "pval")], t, "pval"
                if f.attr == "dumps" and k in ("dval", "str"):
                    t = self.freshtmp()
                    return p + [(t, "(w.dumps %s %s)" % (s, v if k == "dval" else "(DVal.reason %s)" % v), "blob")], t, "blob"
                _no(e, "serializer method")
        _no(e, "call")

    def cond(self, e, env):
        """truth value of e"""
        if isinstance(e, ast.Call) and isinstance(e.func, ast.Name) and e.func.id == "isinstance" and "isinstance" not in env \
                and len(e.args) == 2 and not e.keywords:
            p, v, k = self.expr(e.args[0], env)
            if k == "pval" and isinstance(e.args[1], ast.Name) and e.args[1].id == "dict" and "dict" not in self.g:
                return p, "(PVal.isDict %s)" % v
            _no(e, "isinstance")
        p, v, k = self.expr(e, env)
        if k == "bool":
            return p, v
        if k == "optstr":
            return p, "(truthy %s)" % v
        _no(e, "truth value of a %s" % k)

    # ---- exception classes -------------------------------------------------------------------
    def exc_classes(self, t):
        """which of the model's two exception classes a handler type catches completely: subset of {'cc','other'}"""
        if t is None:
            raise Untranslatable("c08_tr: bare except (also catches BaseException)")
        types = t.elts if isinstance(t, ast.Tuple) else [t]
        got = set()
        for x in types:
            try:
                c = self.resolve(x)
            except (KeyError, AttributeError):
                _no(x, "exception class")
            if not (isinstance(c, type) and issubclass(c, BaseException)):
                _no(x, "exception class")
            if c is Exception:
                got |= {"cc", "other"}
            elif c is self.errors.ConnectionClosedError:
                got |= {"cc"}
            else:
                _no(x, "a handler for %s catches part of a class of the model" % c.__name__)
        return got

    def raised(self, e, env):
        """the model's Err for `raise <e>`"""
        if isinstance(e, ast.Call) and not e.keywords and len(e.args) == 1:
            try:
                c = self.resolve(e.func)
            except (KeyError, AttributeError):
                _no(e, "raised class")
            if isinstance(c, type) and issubclass(c, Exception):
                if issubclass(c, self.errors.ConnectionClosedError):
                    return "Err.connClosed"
                p, v, k = self.expr(e.args[0], env)
                if p:
                    _no(e)
                if k == "str":
                    return "(Err.other %s)" % v
                if k == "optstr":
                    return "(Err.other (strOf %s))" % v
        _no(e, "raise")

    # ---- statements --------------------------------------------------------------------------
    def is_log(self, st):
        if isinstance(st, ast.Expr) and isinstance(st.value, ast.Call):
            f = st.value.func
            if isinstance(f, ast.Attribute) and isinstance(f.value, ast.Name) and f.value.id == "log" and "log" in self.g:
                return True
            try:
                if self.resolve(f) is self.protocol.log_wiredata:
                    return True
            except (KeyError, AttributeError):
                pass
        return False

    def bind_prelude(self, pre, env, ctx, body):
        """match each raising call of the prelude in order; body() gives the rest"""
        if not pre:
            return body()
        (t, call, kind), rest = pre[0], pre[1:]
        return "(match %s with\n | .error e => %s\n | .ok %s => %s)" % (call, ctx["raise"]("e", env), t, self.bind_prelude(rest, env, ctx, body))

    def block(self, stmts, env, ctx, k):
        """lean text of stmts followed by k(env); env: py name -> (lean name, kind); 'cc' and 'sent' are in env under '$cc', '$sent'"""
        if not stmts:
            return k(env)
        st, rest = stmts[0], stmts[1:]
        nxt = lambda env2: self.block(rest, env2, ctx, k)
        if isinstance(st, ast.Expr) and isinstance(st.value, ast.Constant) and isinstance(st.value.value, str):
            return nxt(env)
        if self.is_log(st):
            return nxt(env)
        if isinstance(st, ast.AnnAssign) and st.value is None:
            return nxt(env)
        if isinstance(st, ast.Assign) and len(st.targets) == 1:
            tgt = st.targets[0]
            if isinstance(tgt, ast.Name):
                if tgt.id in self.g or tgt.id in ("self", "conn"):
                    _no(st, "assignment to a global / parameter")
                pre, v, kind = self.expr(st.value, env)
                if kind == "bool" and not pre:
                    self.fresh(tgt.id)
                    env2 = dict(env)
                    env2[tgt.id] = (v, "bool")
                    return nxt(env2)

                def body():
                    n = self.fresh(tgt.id)
                    env2 = dict(env)
                    env2[tgt.id] = (n, kind)
                    return "(let %s := %s;\n %s)" % (n, v, nxt(env2))
                return self.bind_prelude(pre, env, ctx, body)
            if isinstance(tgt, ast.Attribute):
                r = self.try_resolve(tgt.value, env)
                if r is not None and r[1] is self.callcontext.current_context:
                    if tgt.attr == "response_annotations" and isinstance(st.value, ast.Dict) and not st.value.keys:
                        upd = "annCleared := true"
                        pre = []
                    elif tgt.attr == "correlation_id":
                        pre, v, kind = self.expr(st.value, env)
                        if kind != "corr":
                            _no(st, "correlation id")
                        upd = "corr := %s" % v
                    else:
                        _no(st, "write to current_context")

                    def body():
                        n = self.fresh("$cc")
                        env2 = dict(env)
                        env2["$cc"] = (n, "ctx")
                        return "(let %s : Ctx := { %s with %s };\n %s)" % (n, env["$cc"][0], upd, nxt(env2))
                    return self.bind_prelude(pre, env, ctx, body)
            if isinstance(tgt, ast.Tuple) and all(isinstance(x, ast.Name) for x in tgt.elts) and isinstance(st.value, ast.Call):
                return self.inline_tuple_helper(st, tgt, env, ctx, nxt)
            _no(st, "assignment target")
        if isinstance(st, ast.Expr) and isinstance(st.value, ast.Call):
            c = st.value
            # conn.send(<outmsg>.data)
            if isinstance(c.func, ast.Attribute) and c.func.attr == "send" and isinstance(c.func.value, ast.Name) and c.func.value.id == "conn" \
                    and len(c.args) == 1 and not c.keywords and isinstance(c.args[0], ast.Attribute) and c.args[0].attr == "data":
                pre, v, kind = self.expr(c.args[0].value, env)
                if kind != "outmsg":
                    _no(st, "send of something that is not a SendingMessage")

                def body():
                    n = self.fresh("$sent")
                    env2 = dict(env)
                    env2["$sent"] = (n, "sent")
                    return "(match w.send %s with\n | .error e => %s\n | .ok _ => (let %s := %s ++ [%s];\n %s))" % (
                        v, ctx["raise"]("e", env), n, env["$sent"][0], v, nxt(env2))
                return self.bind_prelude(pre, env, ctx, body)
            _no(st, "call statement")
        if isinstance(st, ast.Raise):
            if st.exc is None or st.cause is not None:
                _no(st)
            return ctx["raise"](self.raised(st.exc, env), env)
        if isinstance(st, ast.Return):
            if st.value is None:
                _no(st, "return without a value")
            pre, v = self.cond(st.value, env)
            return self.bind_prelude(pre, env, ctx, lambda: "(Except.ok ⟨%s, %s, %s⟩)" % (env["$cc"][0], env["$sent"][0], v))
        if isinstance(st, ast.If):
            return self.stmt_if(st, rest, env, ctx, k)
        if isinstance(st, ast.Try):
            return self.stmt_try(st, rest, env, ctx, k)
        _no(st, "statement")

    def inline_tuple_helper(self, st, tgt, env, ctx, nxt):
        """`a, b = self.helper(args)`: helper = a static / instance method of the class with a straight-line body (no return but the
        last statement, `return e1, e2`), inlined: its statements run in the caller's exception context with their own locals"""
        c = st.value
        f = c.func
        if not (isinstance(f, ast.Attribute) and isinstance(f.value, ast.Name) and f.value.id == "self" and f.attr in self.methods
                and f.attr not in ("validateHandshake", "annotations", "__annotations", "_%s__annotations" % self.cls_name, self.fn.name)):
            _no(st, "tuple assignment from something that is not a helper of the class")
        fn = self.methods[f.attr]
        decos = [d.id if isinstance(d, ast.Name) else None for d in fn.decorator_list]
        if decos not in ([], ["staticmethod"]):
            _no(st, "decorated helper")
        a = fn.args
        params = [x.arg for x in a.args]
        if not decos:
            if not params or params[0] != "self":
                _no(st, "helper signature")
            params = params[1:]
        body = [s_ for s_ in fn.body if not (isinstance(s_, ast.Expr) and isinstance(s_.value, ast.Constant)) and not self.is_log(s_)]
        if a.vararg or a.kwarg or a.kwonlyargs or a.defaults or c.keywords or len(c.args) != len(params) or not body \
                or not isinstance(body[-1], ast.Return) or not isinstance(body[-1].value, ast.Tuple) \
                or len(body[-1].value.elts) != len(tgt.elts):
            _no(st, "helper is not straight-line code ending in the return of a tuple of that length")
        for s_ in body[:-1]:
            for n_ in ast.walk(s_):
                if isinstance(n_, (ast.Return, ast.Try, ast.FunctionDef, ast.Lambda, ast.While, ast.For, ast.With, ast.Global, ast.Nonlocal)):
                    _no(st, "helper with %s" % type(n_).__name__)
        self.depth = getattr(self, "depth", 0) + 1
        if self.depth > 4:
            _no(st, "helpers nested too deep")
        try:
            pre, henv = [], {k_: v for k_, v in env.items() if k_.startswith("$")}
            for name, arg in zip(params, c.args):
                if isinstance(arg, ast.Name) and arg.id == "conn":
                    continue
                p, v, kind = self.expr(arg, env)
                pre += p
                henv[name] = (v, kind)

            def finish(henv2):
                vals, pre2 = [], []
                for el in body[-1].value.elts:
                    p, v, kind = self.expr(el, henv2)
                    pre2 += p
                    vals.append((v, kind))

                def bind():
                    env2 = dict(env)
                    env2["$cc"], env2["$sent"] = henv2["$cc"], henv2["$sent"]
                    lets = ""
                    for name, (v, kind) in zip(tgt.elts, vals):
                        if name.id in self.g or name.id in ("self", "conn"):
                            _no(st, "assignment to a global / parameter")
                        n = self.fresh(name.id)
                        env2[name.id] = (n, kind)
                        lets += "let %s := %s;\n " % (n, v)
                    return "(%s%s)" % (lets, nxt(env2))
                return self.bind_prelude(pre2, henv2, ctx, bind)
            return self.bind_prelude(pre, env, ctx, lambda: self.block(body[:-1], henv, ctx, finish))
        finally:
            self.depth -= 1

    def pure_assign(self, stmts, env):
        """((kind of target, name), lean value, kind) if stmts is one assignment whose value raises nothing"""
        if len(stmts) != 1 or not isinstance(stmts[0], ast.Assign) or len(stmts[0].targets) != 1:
            return None
        tgt = stmts[0].targets[0]
        if isinstance(tgt, ast.Name) and tgt.id not in self.g and tgt.id not in ("self", "conn"):
            key = ("name", tgt.id)
        elif isinstance(tgt, ast.Attribute) and tgt.attr == "correlation_id":
            r = self.try_resolve(tgt.value, env)
            if r is None or r[1] is not self.callcontext.current_context:
                return None
            key = ("cc", "corr")
        else:
            return None
        pre, v, kind = self.expr(stmts[0].value, env)
        if pre or (key[0] == "cc" and kind != "corr"):
            return None
        return key, v, kind

    @staticmethod
    def ends(stmts):
        return bool(stmts) and isinstance(stmts[-1], (ast.Raise, ast.Return))

    def stmt_if(self, st, rest, env, ctx, k):
        nxt = lambda env2: self.block(rest, env2, ctx, k)
        body = [s for s in st.body if not self.is_log(s)]
        orelse = [s for s in st.orelse if not self.is_log(s)]
        if not body and not orelse:
            # logging only; the test must be free of effects: a module-level flag
            r = self.try_resolve(st.test, env)
            if r is None or not isinstance(r[1], (bool, int)):
                _no(st.test, "test of a logging-only if")
            return nxt(env)
        # normal form: `if not c: A else: B` = `if c: B else: A`
        test = st.test
        if orelse and isinstance(test, ast.UnaryOp) and isinstance(test.op, ast.Not) and not self.ends(body):
            test, body, orelse = test.operand, orelse, body
        pre, c = self.cond(test, env)
        # normal form for `if c: x = a else: x = b` and `if c: x = a` (x bound): one binding `x := if c then a else b`
        if not pre:
            a = self.pure_assign(body, env)
            b = self.pure_assign(orelse, env) if orelse else None
            if a and not orelse and a[0][0] == "name" and a[0][1] in env and env[a[0][1]][1] == a[2]:
                b = (a[0], env[a[0][1]][0], a[2])
            if a and b and a[0] == b[0] and a[2] == b[2]:
                val = "(if %s then %s else %s)" % (c, a[1], b[1])
                env2 = dict(env)
                if a[0][0] == "name":
                    n = self.fresh(a[0][1])
                    env2[a[0][1]] = (n, a[2])
                    return "(let %s := %s;\n %s)" % (n, val, nxt(env2))
                n = self.fresh("$cc")
                env2["$cc"] = (n, "ctx")
                return "(let %s : Ctx := { %s with corr := %s };\n %s)" % (n, env["$cc"][0], val, nxt(env2))

        def fin():
            if self.ends(body) and not self.ends(orelse):
                # if c: ...raise/return   [else: B];  rest      =  if c then <body> else <B; rest>
                dead = lambda env2: _no(st, "fell off a block that ends in raise/return")
                return "(if %s then %s\n else %s)" % (c, self.block(body, env, ctx, dead), self.block(orelse + rest, env, ctx, k))
            if self.ends(orelse) and not self.ends(body):
                dead = lambda env2: _no(st, "fell off a block that ends in raise/return")
                return "(if %s then %s\n else %s)" % (c, self.block(body + rest, env, ctx, k), self.block(orelse, env, ctx, dead))
            if self.ends(body) and self.ends(orelse):
                if rest:
                    _no(rest[0], "unreachable statement")
                dead = lambda env2: _no(st, "fell off a block that ends in raise/return")
                return "(if %s then %s\n else %s)" % (c, self.block(body, env, ctx, dead), self.block(orelse, env, ctx, dead))
            # both fall through: the rest follows each branch (two short branches in this function)
            return "(if %s then %s\n else %s)" % (c, self.block(body + rest, env, ctx, k), self.block(orelse + rest, env, ctx, k))
        return self.bind_prelude(pre, env, ctx, fin)

    def reads(self, stmts):
        """names the statements read before they have certainly assigned them (top-level simple assignments count)"""
        out, assigned = [], set()
        for s in stmts:
            for n in ast.walk(s):
                if isinstance(n, ast.Name) and isinstance(n.ctx, ast.Load) and n.id not in out and n.id not in assigned:
                    out.append(n.id)
            if isinstance(s, ast.Assign) and len(s.targets) == 1 and isinstance(s.targets[0], ast.Name):
                assigned.add(s.targets[0].id)
        return out

    def stmt_try(self, st, rest, env, ctx, k):
        if st.finalbody or st.orelse:
            _no(st, "try with else/finally")
        idx = self.ntry
        self.ntry += 1
        hname, aname = "handler%d" % idx, "after%d" % idx
        pre_locals = [n for n in env if not n.startswith("$")]          # bound before the try: all a handler may read
        state = ["$cc", "$sent"]
        # ---- what follows the try statement, as a function of the locals it reads
        import builtins
        after_reads = [n for n in self.reads(rest) if n not in self.g and n not in ("self", "conn") and not hasattr(builtins, n)]
        after_kinds = {}

        def call_after(env2):
            args = []
            for n in after_reads:
                if n not in env2:
                    raise Untranslatable("c08_tr: %r may be unbound after the try statement" % n)
                kind = env2[n][1]
                if after_kinds.setdefault(n, kind) != kind:
                    raise Untranslatable("c08_tr: %r has kind %s or %s after the try statement" % (n, after_kinds[n], kind))
                args.append(env2[n][0])
            return "(%s %s)" % (aname, " ".join(args + [env2[s][0] for s in state]))

        def raise_in_body(err, env2):
            for n in pre_locals:
                if env2[n][1] != env[n][1]:
                    raise Untranslatable("c08_tr: %r changes its kind inside the try" % n)
            return "(%s %s %s)" % (hname, err, " ".join([env2[n][0] for n in pre_locals] + [env2[s][0] for s in state]))
        body_txt = self.block(st.body, env, dict(ctx, **{"raise": raise_in_body}), call_after)
        # ---- the handlers, per exception class of the model, first match wins
        henv = {}
        params = []
        for n in pre_locals:
            p = self.fresh(n)
            henv[n] = (p, env[n][1])
            params.append("(%s : %s)" % (p, KIND_TYPE[env[n][1]]))
        pcc, psent = self.fresh("$cc"), self.fresh("$sent")
        henv["$cc"], henv["$sent"] = (pcc, "ctx"), (psent, "sent")
        params += ["(%s : Ctx)" % pcc, "(%s : List OutMsg)" % psent]
        arms = {}
        for cls in ("cc", "other"):
            chosen = None
            for h in st.handlers:
                if cls in self.exc_classes(h.type):
                    chosen = h
                    break
            if chosen is None:
                arms[cls] = ctx["raise"]("Err.connClosed" if cls == "cc" else "(Err.other r)", henv)
                continue
            env3 = dict(henv)
            if chosen.name:
                if cls == "other":
                    env3[chosen.name] = ("r", "reason")
                # (for a ConnectionClosedError the model keeps no text: a handler that reads it cannot be translated)
            arms[cls] = self.block(chosen.body, env3, ctx, call_after)
        handler_txt = "(fun (err : Err) %s =>\n match err with\n | .connClosed => %s\n | .other r => %s)" % (" ".join(params), arms["cc"], arms["other"])
        # ---- after
        aenv = dict(env)
        aparams = []
        for n in after_reads:
            if n not in after_kinds:
                raise Untranslatable("c08_tr: the statements after the try are never reached")
            p = self.fresh(n)
            aenv[n] = (p, after_kinds[n])
            aparams.append("(%s : %s)" % (p, KIND_TYPE[after_kinds[n]]))
        for n in list(aenv):
            if not n.startswith("$") and n not in after_reads:
                del aenv[n]
        acc, asent = self.fresh("$cc"), self.fresh("$sent")
        aenv["$cc"], aenv["$sent"] = (acc, "ctx"), (asent, "sent")
        aparams += ["(%s : Ctx)" % acc, "(%s : List OutMsg)" % asent]
        after_txt = "(fun %s =>\n %s)" % (" ".join(aparams), self.block(rest, aenv, ctx, k))
        return "(let %s := %s;\n let %s := %s;\n %s)" % (aname, after_txt, hname, handler_txt, body_txt)

    # ---- the function --------------------------------------------------------------------------
    def translate(self):
        a = self.fn.args
        names = [x.arg for x in a.args]
        if names[:2] != ["self", "conn"] or len(names) != 3 or a.vararg or a.kwarg or a.kwonlyargs or len(a.defaults) != 1 \
                or not (isinstance(a.defaults[0], ast.Constant) and a.defaults[0].value is None):
            raise Untranslatable("c08_tr: signature of %s" % self.fn.name)
        env = {names[2]: ("denied", "optstr"), "$cc": ("cc0", "ctx"), "$sent": ("sent0", "sent")}
        self.order[names[2]] = 0
        self.version[names[2]] = 0

        def fell_off(env2):
            raise Untranslatable("c08_tr: %s can fall off its end (returns None)" % self.fn.name)
        ctx = {"raise": lambda err, env2: "(Except.error %s)" % err}
        body = self.block(self.fn.body, env, ctx, fell_off)
        return ("def %s (w : World) (denied : Option String) : Except Err Result :=\n let cc0 : Ctx := {};\n let sent0 : List OutMsg := [];\n %s\n"
                % (self.lean_name, body))


def handshake_src(server_module):
    return Translator(server_module, "Daemon", "_handshake", "handshakeSrc").translate()


if __name__ == "__main__":
    import sys
    sys.path.insert(0, __file__.rsplit("/props/", 1)[0])
    import common
    common.repo_on_path()
    from Pyro5 import server
    print(handshake_src(server))
