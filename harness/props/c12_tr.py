"""
C12 — shallow transcription of client.py `Proxy._pyroInvoke` (whole function) into Lean, from the source on every run.

Target: a `def pyroInvokeSrc (s : CState) (c : WCall) : CState` over the model's own types (PyroModel/Context.lean):
  current_context.response_annotations = {}            -> { s with ra := [] }
  self._pyroConnection is None / __pyroCreateConnection -> s.connected / connectOp   (collaborator = model operation)
  self._pyroSeq = (self._pyroSeq + 1) & MASK            -> { s with seq := nextSeq s.seq MASK }
  self._pyroConnection.send(...)                        -> sendOp s c                (collaborator)
  X = protocol.recv_stub(conn, [MSG_RESULT])            -> match recvOp s c with raised / msg r   (collaborator)
  tests on the reply / flags / proxy                    -> fields of r / c
  raise errors.K(...)                                   -> (s, .raised <class of K resolved through the real module>)
  try ... except (classes): self._pyroRelease(); raise  -> tryRelease handlerCatchesSrc (...)  with the issubclass table
                                                           taken from the live classes
  private helpers `self.__name(args)`                   -> inlined at the call site
Statements without effect on that state (bindings of locals from whitelisted pure expressions, `del local`, logging) vanish;
`if c: ...return / else: rest` and `if c: ...return` + rest give the same text (continuation form); locals never appear by name.
SOUND BY REFUSAL: every statement, expression node, call target, attribute or test that is not matched below raises Untranslatable.
"""
import ast


class Untranslatable(Exception):
    pass


PURE_METHODS = {"dumpsCall", "loads", "decode", "get", "__serializeBlobArgs"}
PURE_FUNCS = {"isinstance", "bool", "bytes", "_StreamResultIterator", "protocol.SendingMessage"}
PURE_NODES = (ast.Name, ast.Attribute, ast.Subscript, ast.Constant, ast.BoolOp, ast.BinOp, ast.Compare, ast.UnaryOp, ast.Tuple,
              ast.List, ast.Call, ast.Load, ast.And, ast.Or, ast.Not, ast.Mod, ast.BitAnd, ast.BitOr, ast.Add, ast.Is, ast.IsNot,
              ast.Eq, ast.NotEq, ast.In, ast.NotIn, ast.keyword, ast.Index if hasattr(ast, "Index") else ast.Load)
FORBIDDEN_ATTRS = {"response_annotations", "send", "recv", "recv_stub", "_pyroRelease", "__pyroCreateConnection", "close"}


def paren(a):
    """one spelling for a branch: an exit pair `(s, …)` on one line stays as it is, anything else is parenthesised"""
    return a if a.startswith("(s, ") and "\n" not in a else "(%s)" % a


class Tr:
    def __init__(self, module, clsname="Proxy", fname="_pyroInvoke"):
        self.mod = module
        tree = ast.parse(open(module.__file__).read())
        self.cls = [n for n in tree.body if isinstance(n, ast.ClassDef) and n.name == clsname][0]
        self.fn = self.method(fname)
        self.handler_classes = None

    def method(self, name):
        fs = [n for n in self.cls.body if isinstance(n, ast.FunctionDef) and n.name == name]
        if len(fs) != 1:
            raise Untranslatable("method %s not found once" % name)
        return fs[0]

    # ---- values ------------------------------------------------------------------------------
    def resolve(self, node):
        """a module-level name / dotted constant, through the REAL module"""
        try:
            return eval(compile(ast.Expression(node), "<c12_tr>", "eval"), vars(self.mod))
        except Exception as x:
            raise Untranslatable("cannot resolve %s: %r" % (ast.unparse(node), x))

    def kind(self, node, env):
        """symbolic kind of an expression, or None"""
        if isinstance(node, ast.Name):
            return env.get(node.id)
        if isinstance(node, ast.Attribute) and isinstance(node.value, ast.Name):
            base = env.get(node.value.id)
            if base == "reply" and node.attr in ("seq", "serializer_id", "annotations", "flags", "data"):
                return "reply." + node.attr
            if base == "serializer" and node.attr == "serializer_id":
                return "serializer.serializer_id"
            if base == "self" and node.attr in ("_pyroConnection", "_pyroSeq", "_pyroRawWireResponse"):
                return "self." + node.attr
        return None

    def check_pure(self, node, env):
        for n in ast.walk(node):
            if not isinstance(n, PURE_NODES):
                raise Untranslatable("expression node %s in %s" % (type(n).__name__, ast.unparse(node)))
            if isinstance(n, ast.Attribute) and n.attr in FORBIDDEN_ATTRS:
                raise Untranslatable("attribute .%s in a binding: %s" % (n.attr, ast.unparse(node)))
            if isinstance(n, ast.Name) and n.id == "current_context":
                pass
            if isinstance(n, ast.Attribute) and isinstance(n.value, ast.Name) and n.value.id == "current_context" \
                    and n.attr != "annotations":
                raise Untranslatable("current_context.%s read" % n.attr)
            if isinstance(n, ast.Call):
                f = n.func
                ok = (isinstance(f, ast.Attribute) and f.attr in PURE_METHODS) or ast.unparse(f) in PURE_FUNCS
                if not ok:
                    raise Untranslatable("call of %s" % ast.unparse(f))

    def flag_const(self, node):
        v = self.resolve(node)
        p = self.mod.protocol
        if v == p.FLAGS_ONEWAY:
            return "oneway"
        if v == p.FLAGS_ITEMSTREAMRESULT:
            return "stream"
        if v == p.FLAGS_EXCEPTION:
            return "exc"
        raise Untranslatable("flag constant %r" % v)

    def test(self, node, env):
        """Lean Bool text of an effect-relevant test, or None for a test that is pure and irrelevant"""
        if isinstance(node, ast.UnaryOp) and isinstance(node.op, ast.Not):
            if isinstance(node.operand, ast.Name) and env.get(node.operand.id) == "streamid":
                return "r.noStreamId"
            if isinstance(node.operand, ast.Name) and node.operand.id in env and env[node.operand.id] is None:
                return None           # a local bound (by an understood, effect-free statement) to an untracked pure value
            raise Untranslatable("test %s" % ast.unparse(node))
        if isinstance(node, ast.Compare) and len(node.ops) == 1:
            l, r = self.kind(node.left, env), self.kind(node.comparators[0], env)
            op = node.ops[0]
            if l == "self._pyroConnection" and isinstance(op, ast.Is) and isinstance(node.comparators[0], ast.Constant) \
                    and node.comparators[0].value is None:
                return "!s.connected"
            if isinstance(op, ast.NotEq) and {l, r} == {"reply.seq", "self._pyroSeq"}:
                return "r.forCall != s.seq"
            if isinstance(op, ast.Eq) and {l, r} == {"reply.seq", "self._pyroSeq"}:
                return "NEG:r.forCall != s.seq"          # normal form: the `!=` test with the branches swapped
            if isinstance(op, ast.Eq) and {l, r} == {"reply.serializer_id", "serializer.serializer_id"}:
                return "NEG:!r.serOk"
            if isinstance(op, ast.NotEq) and {l, r} == {"reply.serializer_id", "serializer.serializer_id"}:
                return "!r.serOk"
            if isinstance(op, (ast.In, ast.NotIn)) and l is None and r is None:
                self.check_pure(node, env)
                return None
            raise Untranslatable("test %s" % ast.unparse(node))
        if isinstance(node, ast.BinOp) and isinstance(node.op, ast.BitAnd):
            l = self.kind(node.left, env)
            fc = self.flag_const(node.right)
            if l == "flags" and fc == "oneway":
                return "c.oneway"
            if l == "reply.flags" and fc == "stream":
                return "r.stream"
            if l == "reply.flags" and fc == "exc":
                return "r.excFlag"
            raise Untranslatable("test %s" % ast.unparse(node))
        if isinstance(node, ast.Name) and node.id in env and env[node.id] is None:
            return None               # same: truth test of an untracked pure local
        k = self.kind(node, env)
        if k == "reply.annotations":
            return "!r.anns.isEmpty"
        if k == "self._pyroRawWireResponse":
            return "c.raw"
        if ast.unparse(node) == "config.LOGWIRE":
            return None
        if isinstance(node, ast.BoolOp):
            self.check_pure(node, env)
            if any(self.kind(n, env) for n in ast.walk(node) if isinstance(n, (ast.Name, ast.Attribute))
                   if self.kind(n, env) not in (None, "self")):
                raise Untranslatable("test %s mixes tracked values" % ast.unparse(node))
            return None
        raise Untranslatable("test %s" % ast.unparse(node))

    # ---- statements --------------------------------------------------------------------------
    @staticmethod
    def is_log(st):
        if isinstance(st, ast.Expr) and isinstance(st.value, ast.Call):
            f = ast.unparse(st.value.func)
            return f.startswith("log.") or f == "protocol.log_wiredata"
        return False

    def no_effect(self, st, env):
        """True (and env updated) if the statement has no effect on the modelled state and is explicitly understood"""
        if isinstance(st, ast.Expr) and isinstance(st.value, ast.Constant) and isinstance(st.value.value, str):
            return True
        if self.is_log(st):
            return True
        if isinstance(st, ast.Expr) and ast.unparse(st.value) == "self.__check_owner()":
            return True               # thread-ownership guard: raises before anything happens (assumption: owner thread)
        if isinstance(st, ast.Delete):
            if all(isinstance(t, ast.Name) for t in st.targets):
                for t in st.targets:
                    env.pop(t.id, None)
                return True
            raise Untranslatable("del %s" % ast.unparse(st))
        if isinstance(st, (ast.Assign, ast.AugAssign, ast.AnnAssign)):
            targets = st.targets if isinstance(st, ast.Assign) else [st.target]
            names = []
            for t in targets:
                for e in (t.elts if isinstance(t, ast.Tuple) else [t]):
                    if not isinstance(e, ast.Name):
                        return False
                    names.append(e.id)
            if st.value is None:
                return True
            if isinstance(st.value, ast.Call) and ast.unparse(st.value.func) == "protocol.recv_stub":
                return False
            if isinstance(st.value, ast.Call) and isinstance(st.value.func, ast.Attribute) and \
                    isinstance(st.value.func.value, ast.Name) and env.get(st.value.func.value.id) == "self" and \
                    st.value.func.attr.startswith("__") and st.value.func.attr not in PURE_METHODS:
                return False          # a private helper: inlined by seq()
            self.check_pure(st.value, env)
            v = st.value
            for nm in names:
                newk = None
                if isinstance(st, ast.AugAssign):
                    newk = env.get(nm)                      # flags |= FLAGS_ONEWAY keeps being `flags`
                elif isinstance(v, ast.Subscript) and ast.unparse(v.value) == "serializers.serializers":
                    newk = "serializer"
                elif isinstance(v, ast.Call) and isinstance(v.func, ast.Attribute) and v.func.attr == "loads" \
                        and len(v.args) == 1 and self.kind(v.args[0], env) == "reply.data":
                    newk = "payload"
                elif isinstance(v, ast.Call) and ast.unparse(v.func) == "protocol.SendingMessage":
                    newk = "sendmsg"
                elif isinstance(v, ast.Call) and isinstance(v.func, ast.Attribute) and v.func.attr == "decode" and \
                        "'STRM'" in ast.unparse(v) and any(self.kind(n, env) == "reply.annotations" for n in ast.walk(v)):
                    newk = "streamid"
                elif isinstance(v, ast.Call) and isinstance(v.func, ast.Attribute) and v.func.attr == "__serializeBlobArgs" \
                        and len(names) == 2:
                    newk = "flags" if nm == names[1] else None
                if env.get(nm) in ("self", "reply") and newk != env.get(nm):
                    raise Untranslatable("rebinding of %s" % nm)
                env[nm] = newk
            return True
        if isinstance(st, ast.If):
            t = self.test(st.test, env)
            if t is not None:
                return False
            e1, e2 = dict(env), dict(env)
            ok = all(self.no_effect(b, e1) for b in st.body) and all(self.no_effect(b, e2) for b in st.orelse)
            if not ok:
                raise Untranslatable("effect under an untracked test: %s" % ast.unparse(st.test))
            for k in set(e1) | set(e2):
                if e1.get(k) != e2.get(k):
                    raise Untranslatable("local %s differs between branches" % k)
            env.clear()
            env.update(e1)
            return True
        return False

    def exc_class(self, node, env):
        if isinstance(node, ast.Name) and env.get(node.id) == "payload":
            return "(if r.excIsComm then .connClosed else .app)"
        if isinstance(node, ast.Call):
            cls = self.resolve(node.func)
            E = self.mod.errors
            for c, name in ((E.SerializeError, ".serialize"), (E.ProtocolError, ".protocol"), (E.ConnectionClosedError, ".connClosed")):
                if cls is c:
                    for a in node.args:
                        self.check_pure(a, env)
                    return name
        raise Untranslatable("raise %s" % ast.unparse(node))

    def terminates(self, stmts):
        if not stmts:
            return False
        last = stmts[-1]
        if isinstance(last, (ast.Return, ast.Raise)):
            return True
        if isinstance(last, ast.If):
            return self.terminates(last.body) and self.terminates(last.orelse)
        return False

    def state_update(self, st, env):
        """Lean text of a pure state update `s ↦ s'`, or None"""
        if isinstance(st, ast.Assign) and len(st.targets) == 1:
            t = ast.unparse(st.targets[0])
            if t == "current_context.response_annotations":
                if isinstance(st.value, ast.Dict) and not st.value.keys:
                    return "{ s with ra := [] }"
                if self.kind(st.value, env) == "reply.annotations":
                    return "{ s with ra := r.anns }"
                raise Untranslatable("response_annotations = %s" % ast.unparse(st.value))
            if t == "self._pyroSeq":
                v = st.value
                if isinstance(v, ast.BinOp) and isinstance(v.op, ast.BitAnd) and isinstance(v.left, ast.BinOp) and \
                        isinstance(v.left.op, ast.Add) and self.kind(v.left.left, env) == "self._pyroSeq" and \
                        isinstance(v.left.right, ast.Constant) and v.left.right.value == 1:
                    mask = self.resolve(v.right)
                    if not isinstance(mask, int):
                        raise Untranslatable("sequence mask %r" % (mask,))
                    return "{ s with seq := nextSeq s.seq %d }" % mask
                raise Untranslatable("_pyroSeq = %s" % ast.unparse(v))
        if isinstance(st, ast.Expr) and isinstance(st.value, ast.Call):
            f = st.value.func
            if isinstance(f, ast.Attribute) and f.attr == "send" and self.kind(f.value, env) == "self._pyroConnection":
                a = st.value.args
                if len(a) == 1 and isinstance(a[0], ast.Attribute) and a[0].attr == "data" and isinstance(a[0].value, ast.Name) \
                        and env.get(a[0].value.id) == "sendmsg":
                    return "sendOp s c"
                raise Untranslatable("send of %s" % ast.unparse(st.value))
        return None

    def seq(self, stmts, env, mode, depth=0):
        """continuation-form translation of a statement list; mode 'top' : CState, 'try' : CState × Exit"""
        ind = "    "
        fin = "s" if mode == "top" else "(s, .ret)"
        if not stmts:
            return fin
        st, rest = stmts[0], stmts[1:]
        if self.no_effect(st, env):
            return self.seq(rest, env, mode, depth)
        up = self.state_update(st, env)
        if up is not None:
            return "let s := %s\n%s%s" % (up, ind, self.seq(rest, env, mode, depth))
        if isinstance(st, ast.Return):
            if st.value is not None:
                self.check_pure(st.value, env)
            return fin
        if isinstance(st, ast.Raise):
            if mode != "try" or st.exc is None:
                raise Untranslatable("raise outside the try block")
            return "(s, .raised %s)" % self.exc_class(st.exc, env)
        if isinstance(st, ast.Assign) and isinstance(st.value, ast.Call) and ast.unparse(st.value.func) == "protocol.recv_stub":
            a = st.value.args
            if mode != "try" or len(st.targets) != 1 or not isinstance(st.targets[0], ast.Name) or len(a) != 2 or st.value.keywords \
                    or self.kind(a[0], env) != "self._pyroConnection" or self.resolve(a[1]) != [self.mod.protocol.MSG_RESULT]:
                raise Untranslatable(ast.unparse(st))
            if "reply" in env.values():
                raise Untranslatable("second receive")
            env[st.targets[0].id] = "reply"
            return "match recvOp s c with\n%s| (s, .raised e) => (s, .raised e)\n%s| (s, .msg r) =>\n%s  %s" % (
                ind, ind, ind, self.seq(rest, env, mode, depth + 1))
        if isinstance(st, ast.Assign) and len(st.targets) == 1 and isinstance(st.targets[0], ast.Name) and \
                isinstance(st.value, ast.Call) and isinstance(st.value.func, ast.Attribute) and \
                isinstance(st.value.func.value, ast.Name) and st.value.func.value.id == "self" and \
                st.value.func.attr.startswith("__") and st.value.func.attr not in PURE_METHODS and not st.value.args \
                and not st.value.keywords:
            # `x = self.__helper()`: straight-line helper (state updates, then `return <tracked value>`), inlined
            h = self.method(st.value.func.attr)
            if h.decorator_list or len(h.args.args) != 1 or not h.body or not isinstance(h.body[-1], ast.Return) or \
                    h.body[-1].value is None:
                raise Untranslatable("helper %s" % h.name)
            henv = {h.args.args[0].arg: "self"}
            out = []
            for b in h.body[:-1]:
                if self.no_effect(b, henv):
                    continue
                up = self.state_update(b, henv)
                if up is None:
                    raise Untranslatable("helper statement %s" % ast.unparse(b).splitlines()[0])
                out.append("let s := %s\n%s" % (up, ind))
            k = self.kind(h.body[-1].value, henv)
            if k is None:
                raise Untranslatable("helper %s returns %s" % (h.name, ast.unparse(h.body[-1].value)))
            if env.get(st.targets[0].id) in ("self", "reply"):
                raise Untranslatable("rebinding")
            env[st.targets[0].id] = k
            return "".join(out) + self.seq(rest, env, mode, depth)
        if isinstance(st, ast.Expr) and isinstance(st.value, ast.Call) and isinstance(st.value.func, ast.Attribute) and \
                isinstance(st.value.func.value, ast.Name) and st.value.func.value.id == "self" and st.value.func.attr.startswith("__"):
            # private helper of the same class: inlined
            h = self.method(st.value.func.attr)
            params = [a.arg for a in h.args.args]
            decos = [ast.unparse(d) for d in h.decorator_list]
            if decos == ["staticmethod"]:
                params = [None] + params          # no `self` parameter
            elif decos:
                raise Untranslatable("decorated helper %s" % h.name)
            if h.args.vararg or h.args.kwarg or h.args.kwonlyargs or h.args.defaults or st.value.keywords or \
                    len(params) != len(st.value.args) + 1:
                raise Untranslatable("helper call %s" % ast.unparse(st))
            if any(isinstance(n, ast.Return) and n.value is not None for n in ast.walk(h)):
                raise Untranslatable("helper %s returns a value that is dropped" % h.name)
            henv = {params[0]: "self"} if params[0] is not None else {}
            for p, a in zip(params[1:], st.value.args):
                k = self.kind(a, env)
                if k is None:
                    self.check_pure(a, env)
                henv[p] = k
            return self.seq_inline(h.body, henv, rest, env, mode, depth)
        if isinstance(st, ast.If):
            t = self.test(st.test, env)
            if t is None:
                raise Untranslatable("effect under an untracked test: %s" % ast.unparse(st.test))
            if mode == "top" and t == "!s.connected" and not st.orelse and len(st.body) == 1 and \
                    ast.unparse(st.body[0]) == "self.__pyroCreateConnection()":
                return "match (if s.connected then (s, true) else connectOp s c) with\n%s| (s, false) => s\n%s| (s, true) =>\n%s  %s" % (
                    ind, ind, ind, self.seq(rest, env, mode, depth + 1))
            if not st.orelse and not self.terminates(st.body):
                ups = [self.state_update(b, dict(env)) for b in st.body]
                if len(ups) == 1 and ups[0] is not None and not t.startswith("NEG:"):
                    return "let s := if %s then %s else s\n%s%s" % (t, ups[0], ind, self.seq(rest, env, mode, depth))
            if mode != "try":
                raise Untranslatable("branching before the try block: %s" % ast.unparse(st.test))
            e1, e2 = dict(env), dict(env)
            a = self.seq(st.body if self.terminates(st.body) else st.body + rest, e1, mode, depth + 1)
            b = self.seq(st.orelse + rest, e2, mode, depth + 1)
            if t.startswith("NEG:"):
                t, a, b = t[4:], b, a
            return "if %s then %s else\n%s%s" % (t, paren(a), ind, b)
        if isinstance(st, ast.Try):
            if mode != "top" or rest or st.orelse or st.finalbody or len(st.handlers) != 1:
                raise Untranslatable("shape of the try statement")
            h = st.handlers[0]
            if h.type is None or h.name is not None or len(h.body) != 2 or ast.unparse(h.body[0]) != "self._pyroRelease()" or \
                    not (isinstance(h.body[1], ast.Raise) and h.body[1].exc is None):
                raise Untranslatable("shape of the except handler")
            classes = self.resolve(h.type)
            self.handler_classes = classes if isinstance(classes, tuple) else (classes,)
            return "tryRelease handlerCatchesSrc (\n%s  %s)" % (ind, self.seq(st.body, env, "try", depth + 1))
        raise Untranslatable("statement %s: %s" % (type(st).__name__, ast.unparse(st).splitlines()[0]))

    def seq_inline(self, body, henv, rest, env, mode, depth):
        """helper body in its own environment (a bare `return` or the end of the body continues with the caller's rest, in
        the caller's environment)"""
        ind = "    "
        if not body:
            return self.seq(rest, env, mode, depth)
        st, more = body[0], body[1:]
        if self.no_effect(st, henv):
            return self.seq_inline(more, henv, rest, env, mode, depth)
        up = self.state_update(st, henv)
        if up is not None:
            return "let s := %s\n%s%s" % (up, ind, self.seq_inline(more, henv, rest, env, mode, depth))
        if isinstance(st, ast.Return) and st.value is None:
            return self.seq(rest, dict(env), mode, depth)
        if isinstance(st, ast.Raise):
            return self.seq([st], dict(henv), mode, depth)
        if isinstance(st, ast.If):
            t = self.test(st.test, henv)
            if t is None:
                raise Untranslatable("helper: untracked test guards an exit")
            ends = lambda b: bool(b) and isinstance(b[-1], (ast.Return, ast.Raise))
            a = self.seq_inline(st.body if ends(st.body) else st.body + more, dict(henv), rest, env, mode, depth + 1)
            b = self.seq_inline(st.orelse + more, dict(henv), rest, env, mode, depth + 1)
            if t.startswith("NEG:"):
                t, a, b = t[4:], b, a
            return "if %s then %s else\n%s%s" % (t, paren(a), ind, b)
        raise Untranslatable("helper statement %s" % ast.unparse(st).splitlines()[0])

    def lean(self):
        args = [a.arg for a in self.fn.args.args]
        if len(args) < 5:
            raise Untranslatable("parameters of _pyroInvoke")
        env = {args[0]: "self", args[4]: "flags"}
        body = self.seq(self.fn.body, env, "top")
        if self.handler_classes is None:
            raise Untranslatable("no try block")
        E = self.mod.errors
        App = type("_App", (Exception,), {})
        reps = [("app", App), ("connClosed", E.ConnectionClosedError), ("protocol", E.ProtocolError), ("serialize", E.SerializeError),
                ("keyboard", KeyboardInterrupt)]
        rows = "\n".join("  | .%s => %s" % (n, "true" if issubclass(c, self.handler_classes) else "false") for n, c in reps)
        return body, rows


def render(module):
    body, rows = Tr(module).lean()
    return """-- GENERATED by harness/props/c12_tr.py from Pyro5/client.py (Proxy._pyroInvoke and the helpers it calls) — do not edit
import PyroModel.Context
namespace Pyro.Gen.C12Src
open Pyro.Context

/-- which exception classes the `except` clause of `_pyroInvoke` catches (issubclass on the live classes) -/
def handlerCatchesSrc : ExcCls → Bool
%s

/-- `Proxy._pyroInvoke`, statement by statement -/
def pyroInvokeSrc (s : CState) (c : WCall) : CState :=
  %s

def wcallSrc (s : CState) (c : WCall) : CState :=
  pyroInvokeSrc (if c.releaseFirst then releaseOp s else s) c

def wrunSrc : CState → List WCall → List CState
  | _, [] => []
  | s, c :: cs => wcallSrc s c :: wrunSrc (wcallSrc s c) cs

end Pyro.Gen.C12Src
""" % (rows, body)


if __name__ == "__main__":
    import common
    common.repo_on_path()
    from Pyro5 import client
    print(render(client))
