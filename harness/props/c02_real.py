"""
C02 — real-code side: materialise a generated class shape with type() + the real decorators, register an
instance in a real Daemon and drive `daemon.handleRequest(conn)` with raw MSG_INVOKE messages over an
in-memory connection (never through the filtering Proxy).

Shape description (plain JSON):
  {"classes": [ {"expose": bool, "members": [[key, member], ...]}, ... ],     # MRO order: registered class first, its base next, ...
   "inst":    [[key, val], ...]}                                              # instance __dict__
  member = {"k": "func"|"static"|"clsm", "f": fn}
         | {"k": "prop", "expose": bool, "g": fn|None, "s": fn|None, "d": fn|None}
         | {"k": "attr", "v": val}
  fn     = {"name": str, "fid": int, "expose": bool, "oneway": bool}
  val    = {"v": "data"} | {"v": "inst"|"cls", "expose": bool, "call": bool, "callId": int, "initId": int} | {"v": "fn", "f": fn}
History event (after the first block of requests; the metadata cache is filled before and never reset):
  {"t": "is", "k": key, "v": val} | {"t": "id", "k": key} | {"t": "ts", "ci": class#, "k": key, "m": member} | {"t": "td", "ci": class#, "k": key}
  | {"t": "q", "req": request}
Request:
  {"batch": bool, "oneway": bool, "method": name, "args": [name, ...]}
  name   = str | {"ns": <tag>}   (non-string value, see NONSTR)
"""
import json
import threading
import warnings

import common

NONSTR = {
    "int": 7, "none": None, "float": 1.5, "bool": True, "tuple": ("m",),           # hashable, no .startswith
    "false": False, "zero": 0,                                                     # falsy extras for argument lists
    "list": ["m"], "dict": {"m": 1}, "set": {"m"}, "bytes": b"m",                  # arrive unhashable under serpent (bytes -> dict)
}


def _truthy(f, value=True):
    def __bool__(self):
        f(self)
        return value
    for a in ("_pyroExposed", "_pyroOneway"):
        if hasattr(f, a):
            setattr(__bool__, a, getattr(f, a))
    __bool__.__name__ = getattr(f, "__name__", "__bool__")      # (a helper instance / class stored under __bool__ has no / another name)
    return __bool__


LAZY_EXC = {"RuntimeError": RuntimeError, "AttributeError": AttributeError, "KeyError": KeyError, "OSError": OSError}


class _Lazy:
    """value of a plain class attribute that is resolved lazily: a non-data descriptor.  While armed, the first `n` accesses
    *through the class* (what the member-list computation does) either raise ("raise": the resource is not ready yet) or park
    until released ("conc": a slow first computation, so that a second connection can ask for the member list meanwhile).
    Apart from that it is a plain data value (42): unexposed, never advertised, never served.  It logs nothing: it is not code of
    the target object's exposed or unexposed *members*."""

    def __init__(self, spec):
        self.mode = spec.get("mode", "raise")
        self.left = int(spec.get("n", 1))
        self.exc = LAZY_EXC.get(spec.get("exc"), RuntimeError)
        self.armed = False
        self.signal = None
        self.release = threading.Event()

    def __get__(self, inst, owner):
        if self.armed and inst is None and self.left > 0:
            if self.mode == "raise":
                self.left -= 1
                raise self.exc("c02: lazily resolved class attribute is not ready yet")
            self.left = 0               # only the very first access is slow
            self.signal.set()
            self.release.wait(120)      # (released by the harness as soon as the second request was answered; no timing involved)
        return 42


class MetadataFailed(Exception):
    """the daemon did not answer a get_metadata request for a registered object with a member list"""


class FakeSock:
    def getpeername(self):
        return ("c02-fake-peer", 0)


class FakeConn:
    """in-memory connection: recv() serves the request bytes (exactly n or ConnectionClosedError), send() collects the reply"""

    def __init__(self, data, errors):
        self.inbuf = bytes(data)
        self.pos = 0
        self.sent = bytearray()
        self.sock = FakeSock()
        self.keep_open = False
        self._errors = errors
        self.pyroInstances = {}

    def recv(self, n):
        if len(self.inbuf) - self.pos < n:
            raise self._errors.ConnectionClosedError("receiving: not enough data")
        chunk = self.inbuf[self.pos:self.pos + n]
        self.pos += n
        return chunk

    def send(self, data):
        self.sent += bytes(data)

    def close(self):
        pass


class Real:
    """one real Daemon for a whole run; shapes are registered / unregistered one at a time"""

    def __init__(self, with_daemon=True):
        common.repo_on_path()
        from Pyro5 import server, protocol, serializers, errors, config
        self.server, self.protocol, self.errors = server, protocol, errors
        self.ser = serializers.serializers["serpent"]
        self.sers = dict(serializers.serializers)
        self.daemon = server.Daemon(host="127.0.0.1", port=0) if with_daemon else None   # (the extractor only materialises classes)
        self.log = []
        self.seq = 0
        self.cls = None
        self.obj = None
        self.prior = None
        self.prior_state = None
        self.serial = 0
        self.lazies, self._new_lazies = [], []
        self.first_failed, self.first_other = 0, None
        # a oneway call of a non-callable dies inside its thread (by design nothing is reported to the client); keep stderr clean
        self._excepthook = threading.excepthook
        threading.excepthook = lambda args: None

    def close(self):
        threading.excepthook = self._excepthook
        if self.daemon is not None:
            self.daemon.close()

    # ---------------------------------------------------------------- materialise
    def _fn(self, fd, kind):
        log, fid = self.log, fd["fid"]
        if kind == "static":
            def f(*a, **k):
                log.append(fid)
                return fid
        elif kind == "setter":
            def f(self, *a, **k):
                log.append(fid)
        else:
            def f(self, *a, **k):
                log.append(fid)
                return fid
        if fd.get("falsy"):
            inner = f

            def f(*a, **k):         # __len__ -> 0 / __bool__ -> False: an object that is falsy (empty container, idle job)
                inner(*a, **k)
                return 0
        f.__name__ = fd["name"]
        f.__qualname__ = "C02." + fd["name"]
        if fd["oneway"]:
            f = self.server.oneway(f)
        if fd["expose"]:
            f = self.server.expose(f)      # raises AttributeError for a private __name__
        return f

    def _val(self, v):
        if v["v"] == "data":
            if v.get("lazy"):
                lz = _Lazy(v["lazy"])
                self._new_lazies.append(lz)
                return lz
            return 42
        if v["v"] == "fn":
            return self._fn(v["f"], "static")      # a plain function object stored as a value: called without self
        log = self.log
        ns = {}
        init_id, call_id = v["initId"], v["callId"]

        def __init__(self, *a, **k):
            log.append(init_id)
        ns["__init__"] = __init__
        if v["call"]:
            def __call__(self, *a, **k):
                log.append(call_id)
                return call_id
            ns["__call__"] = __call__
        h = type("Helper", (), ns)
        if v["expose"]:
            h = self.server.expose(h)
        return h() if v["v"] == "inst" else h

    def _member(self, m):
        k = m["k"]
        if k == "func":
            return self._fn(m["f"], "inst")
        if k == "static":
            return staticmethod(self._fn(m["f"], "static"))
        if k == "clsm":
            return classmethod(self._fn(m["f"], "class"))
        if k == "prop":
            g = self._fn(m["g"], "getter") if m["g"] else None
            s = self._fn(m["s"], "setter") if m["s"] else None
            d = self._fn(m["d"], "deleter") if m["d"] else None
            p = property(g, s, d)
            if m["expose"]:
                p = self.server.expose(p)
            return p
        if k == "attr":
            return self._val(m["v"])
        raise ValueError(k)

    def _materialise(self, shape, names):
        cls = None
        classes = []
        for i, c in reversed(list(enumerate(shape["classes"]))):
            ns = {}
            for key, m in c["members"]:
                ns[key] = self._member(m)
            if callable(ns.get("__bool__")) and not isinstance(ns["__bool__"], (staticmethod, classmethod)):
                falsy = any(k == "__bool__" and m["k"] == "func" and m["f"].get("falsy") for k, m in c["members"])
                ns["__bool__"] = _truthy(ns["__bool__"], not falsy)        # truth testing must return a bool; the effect is still logged
            cls = type(names[i], (cls,) if cls else (), ns)
            if c["expose"]:
                cls = self.server.expose(cls)
            classes.insert(0, cls)
        if cls is None:
            cls = type(names[0], (), {})
            classes = [cls]
        obj = cls()
        for key, v in shape["inst"]:
            obj.__dict__[key] = self._val(v)
        return cls, obj, classes

    def build(self, shape, prior=None, reg="strong"):
        """materialise + register the shape; returns None, or the kind of exception the decorators raised.
        Class names (module, __qualname__) are unique per call.  `prior` = {"shape": .., "keep": bool}: a DIFFERENT object whose
        classes have the SAME module and qualified names, registered earlier in the same daemon, its metadata fetched (so whatever
        the daemon caches per class is filled by it), then unregistered unless keep."""
        self.drop()
        self.serial += 1
        n = max(len(shape["classes"]), len(prior["shape"]["classes"]) if prior else 0, 1)
        names = ["T%d_%d" % (self.serial, i) for i in range(n)]
        self.prior_state = None
        if prior:
            try:
                pcls, pobj, pclasses = self._materialise(prior["shape"], names)
            except AttributeError:
                self.prior_state = "refused"
            else:
                self.prior = (pcls, pobj, pclasses)
                self.daemon.register(pobj, "c02prior")
                self.prior_md = self.metadata("c02prior")
                self.prior_state = "kept" if prior.get("keep") else "gone"
                if not prior.get("keep"):
                    self.daemon.unregister("c02prior")
            del self.log[:]
        self._new_lazies = []
        self.lazies = []
        self.first_failed, self.first_other = 0, None
        try:
            cls, obj, classes = self._materialise(shape, names)
        except AttributeError as x:
            del self.log[:]
            self._drop_prior()
            return "priv" if str(x).startswith("exposing private names") else "attr"
        del self.log[:]
        self.cls, self.obj, self.classes = cls, obj, classes
        self.lazies = self._new_lazies
        # how the object is registered: the instance (strongly / weakly: the daemon then holds a weakref, we keep the object alive),
        # or the class (the daemon creates an instance per connection; instance attributes of the description do not apply)
        if reg == "weak":
            self.daemon.register(obj, "c02target", weak=True)
        elif reg == "class":
            self.daemon.register(cls, "c02target")
        else:
            self.daemon.register(obj, "c02target")
        self.reg = reg
        return None

    def step(self, ev):
        """a run-time change of the registered object / its classes (no metadata cache reset): 'step' | 'steperr:<kind>'"""
        try:
            t = ev["t"]
            if t == "rm":
                try:
                    self.daemon.resetMetadataCache("c02target")
                except Exception as x:       # (never on the unchanged tree; reported as a disagreement with the model, not a harness crash)
                    return "reseterr:" + type(x).__name__
                return "reset"
            elif t == "gm":
                try:
                    md = self.metadata()
                except MetadataFailed as x:
                    return "Mfailed %s" % x
                return "M %s" % json.dumps(md, sort_keys=True)
            elif t == "is":
                self.obj.__dict__[ev["k"]] = self._val(ev["v"])
            elif t == "id":
                self.obj.__dict__.pop(ev["k"], None)
            elif t == "ts":
                if ev["ci"] < len(self.classes):
                    member = self._member(ev["m"])
                    setattr(self.classes[ev["ci"]], ev["k"], member)
            elif t == "td":
                if ev["ci"] < len(self.classes) and ev["k"] in vars(self.classes[ev["ci"]]):
                    delattr(self.classes[ev["ci"]], ev["k"])
            else:
                raise ValueError(t)
        except AttributeError as x:
            return "steperr:priv" if str(x).startswith("exposing private names") else "steperr:attr"
        finally:
            del self.log[:]
        return "step"

    def _drop_prior(self):
        if self.prior is not None:
            pcls, pobj, _ = self.prior
            if "c02prior" in self.daemon.objectsById:
                self.daemon.unregister("c02prior")
            for c in pcls.__mro__:
                self.server._reset_exposed_members(c)
            self.prior = None

    def drop(self):
        """forget the case (the caches are emptied only here, when a whole case — prior object, object, history — is over)"""
        if self.obj is not None:
            self.daemon.unregister("c02target")
            for c in self.cls.__mro__:
                self.server._reset_exposed_members(c)
            self.cls = self.obj = None
        self._drop_prior()

    # ---------------------------------------------------------------- raw requests
    def _pyname(self, n):
        if isinstance(n, str):
            return n
        if "b" in n:
            return n["b"].encode("utf-8")        # the name as a bytes object (needs a serializer that transports bytes)
        return NONSTR[n["ns"]]

    def _payload(self, ser, object_id, method, vargs, kwargs):
        """the serialised call.  marshal / msgpack payloads are written with the library itself (what any peer can send)."""
        if ser == "marshal":
            import marshal
            return marshal.dumps((object_id, method, tuple(vargs), kwargs))
        if ser == "msgpack":
            import msgpack
            return msgpack.packb((object_id, method, list(vargs), kwargs), use_bin_type=True)
        return self.sers[ser].dumpsCall(object_id, method, vargs, kwargs)

    def raw(self, object_id, flags, method, vargs, kwargs=None, ser="serpent", seq=None):
        """send one MSG_INVOKE, return (kind, value): ('result', v) | ('error', exc) | ('none', None) | ('raised', exc)"""
        P = self.protocol
        if seq is None:
            self.seq = seq = (self.seq + 1) & 0x7FFF
        data = self._payload(ser, object_id, method, vargs, kwargs or {})
        msg = P.SendingMessage(P.MSG_INVOKE, flags, seq, self.sers[ser].serializer_id, data)
        conn = FakeConn(msg.data, self.errors)
        raised = None
        try:
            self.daemon.handleRequest(conn)
        except Exception as x:      # handleRequest re-raises communication / security errors after replying
            raised = x
        for t in threading.enumerate():
            if t.name == "oneway-call":
                t.join()
        if not conn.sent:
            return ("raised", raised) if raised is not None else ("none", None)
        rconn = FakeConn(bytes(conn.sent), self.errors)
        reply = P.recv_stub(rconn, [P.MSG_RESULT])
        if reply.seq != seq or rconn.pos != len(rconn.inbuf):
            return ("garbled", None)
        if reply.flags & P.FLAGS_EXCEPTION:
            return ("error", self.sers[ser].loads(reply.data))
        if ser != "serpent":
            return ("result", None)
        import serpent
        value = serpent.loads(reply.data)      # plain literal: results may hold instances of classes unknown to the client side
        if reply.flags & P.FLAGS_BATCH:
            if any(isinstance(v, dict) and str(v.get("__class__", "")).endswith("_ExceptionWrapper") for v in value):
                return ("batchexc", value)
        return ("result", value)

    def request(self, req):
        """run one request against the registered shape; returns (reply token, effect list)"""
        P = self.protocol
        del self.log[:]
        flags = (P.FLAGS_BATCH if req["batch"] else 0) | (P.FLAGS_ONEWAY if req["oneway"] else 0)
        if req["batch"]:
            method = "<batch>"
            vargs = [(self._pyname(n), (), {}) for n in req["args"]]
        else:
            method = self._pyname(req["method"])
            vargs = [self._pyname(n) for n in req["args"]]
        kind, value = self.raw("c02target", flags, method, vargs, ser=req.get("ser", "serpent"))
        eff = list(self.log)
        del self.log[:]
        return self.reply_token(kind, value), eff

    def reply_token(self, kind, value):
        if kind != "error":
            return kind
        msg = str(value)
        if isinstance(value, AttributeError):
            if msg.startswith("attempt to access private attribute"):
                return "error:priv"
            if msg.startswith("attempt to access unexposed attribute"):
                return "error:unexposed"
            if msg.startswith("attempt to access unexposed or unknown remote attribute"):
                return "error:unprop"
            return "error:attr"
        if isinstance(value, TypeError):
            return "error:type"
        if isinstance(value, IndexError):
            return "error:index"
        return "error:other:" + type(value).__name__

    def first_metadata(self):
        """the first advertisement(s) of the freshly registered object.  If a class attribute of the shape is resolved lazily
        (`_Lazy`), the first computation(s) of the member list fail part-way (each failed request is repeated; `first_failed`
        counts them) or a second request is made while the first one is parked inside the computation (`first_other` = what the
        parked one was finally told).  Returns the member list of the first request that was answered with one."""
        self.first_failed, self.first_other = 0, None
        lazies = [lz for lz in self.lazies if lz.left > 0]
        if not lazies:
            return self.metadata()
        signal = threading.Event()
        for lz in lazies:
            lz.signal = signal
            lz.armed = True
        box = {}
        t = None
        try:
            if any(lz.mode == "conc" for lz in lazies):
                def first():
                    try:
                        box["md"] = self._first_loop(lazies, seq=0x8001)
                    except MetadataFailed as x:
                        box["err"] = x
                    finally:
                        signal.set()
                t = threading.Thread(target=first, name="c02-first-connect", daemon=True)
                t.start()
                signal.wait(120)        # the first request is parked inside the computation, or over
            md = self._first_loop(lazies)
        finally:
            for lz in lazies:
                lz.release.set()
            if t is not None:
                t.join(120)
            for lz in lazies:
                lz.armed = False
        if t is not None:
            if "err" in box:
                raise box["err"]
            self.first_other = box.get("md")
        return md

    def _first_loop(self, lazies, seq=None):
        budget = sum(int(lz.left) for lz in lazies) + 1
        last = None
        for _ in range(budget):
            try:
                return self.metadata(seq=seq)
            except MetadataFailed as x:
                self.first_failed += 1
                last = x
        raise last

    def metadata(self, oid="c02target", seq=None):
        """DaemonObject.get_metadata through a raw INVOKE on the daemon's own object"""
        from Pyro5 import core
        with warnings.catch_warnings():
            warnings.simplefilter("ignore")
            kind, value = self.raw(core.DAEMON_NAME, 0, "get_metadata", [oid], seq=seq)
        if kind != "result":
            raise MetadataFailed("get_metadata(%s) answered %s %r" % (oid, kind, value))
        return {k: sorted(value[k]) for k in ("methods", "oneway", "attrs")}
