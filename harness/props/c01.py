"""C01 — values cross the wire unchanged, identically for arguments and results."""
import json
import os

import common
from props import c01_extract
from props import c01_vals as V

ID = "C01"
LEAN_MODEL_TARGETS = ["drv_c01"]
LEAN_PROOF_TARGETS = ["PyroProps.C01Src", "PyroProps.C01"]     # C01Src imports C01
AUDIT_FILES = ["PyroModel/Bytes.lean", "PyroModel/Values.lean", "PyroModel/Gen/C01.lean", "PyroModel/Wire.lean",
               "PyroProofs/Values.lean", "PyroProofs/ValuesNF.lean", "PyroProofs/ValuesPaths.lean", "PyroProofs/Wire.lean",
               "PyroProofs/WireStages.lean", "PyroProps/C01.lean", "PyroProps/C06.lean",
               "PyroModel/Gen/C01Src.lean", "PyroProps/C01Src.lean"]
THEOREMS = ["Pyro.C01.C01_lossless", "Pyro.C01.C01_symmetric", "Pyro.C01.C01_delivers_normal_form", "Pyro.C01.C01_idempotent",
            "Pyro.C01.C01_fixed_point", "Pyro.C01.C01_batch_kwargs_none", "Pyro.C01.C01_compression_transparent",
            "Pyro.C01.C01_gen_facts", "Pyro.C01.C01_symmetric_needs_ext_hook", "Pyro.C01.C01_batch_needs_kwargs_guard",
            "Pyro.C01.C01_symmetric_needs_list_items_on_both_paths",
            # SerializerBase.recreate_classes transcribed from the source on every run (props/c01_tr.py -> Gen/C01Src.lean): equal to
            # the model's recreate for every serializer and value; the main theorems restated about the transcription
            "Pyro.C01.C01_recreate_classes_translated", "Pyro.C01.C01_source_resPath", "Pyro.C01.C01_source_lossless",
            "Pyro.C01.C01_source_symmetric", "Pyro.C01.C01_source_idempotent"]
SUITES = ["res", "ressrc", "call", "lib", "spec", "e2e"]
RULE = ("values generated recursively (depth <= 6) from the property's domain: None/bool, ints at every 32/53/63/64-bit boundary and up "
        "to 2^2000, all float classes (signed zero, subnormal, max, inf, nan), text incl. NUL / astral / reserved-key near misses, "
        "bytes/bytearray, complex, uuid, decimal, date, list/tuple/set/frozenset, dicts with str and non-str keys, class dicts, user "
        "class instances; per serializer the value is sent through dumps/loads, dumpsCall/loadsCall (plain and batch-shaped, kwargs "
        "dict / None) and the bare library, and end-to-end through a real Proxy and Daemon (positions arg, kwarg, nested, result, "
        "batch result, streamed item; compression on/off; payload sizes swept across the 100-byte threshold). A case is non-trivial "
        "when the real serializer delivered a value (no exception) that contains at least one container or non-core type, or when it "
        "failed after the dumps phase; distinct = distinct (serializer, path, canonical input). Histories: sequences of equal-but-"
        "differently-written values (Decimal exponent / trailing-zero / negative-zero forms, 0 / 0.0 / -0.0 / False, 1 / 1.0 / True, one "
        "uuid from several constructors, str / bytes / tuple and their subclasses), plain and inside containers, converted in one process "
        "and compared item by item with a pristine forked process; a history prefix is non-trivial once converted; distinct = distinct prefix. "
        "End-to-end histories: every set of rigs first serves an all-@oneway same-named twin class; result streams are also consumed after "
        "their proxy went out of scope; serpent is also run with SERPENT_BYTES_REPR=True")
ASSUMPTIONS = ["the type mapping of serpent / marshal / json / msgpack / struct / base64 / datetime.isoformat written down in "
               "PyroModel/Values.lean (enc/dec with hooks=false = libMap) is what the installed libraries do (validated by suite 'lib')",
               "int(str(n)) == n in CPython (proved for the model's decimal codec)",
               "zlib.decompress(zlib.compress(p)) == p (C06)",
               "no custom class<->dict converters are registered (SerializerBase registries empty); the Lean model is for SERPENT_BYTES_REPR=False "
               "(the setting True is covered by the real-code oracle only: symmetry, idempotence, element-wise containers, end-to-end positions)"]
TRUSTED = ["props/c01_vals.py: Python value <-> token encoding and the canonicaliser (sets and dict items sorted, NaN -> one token)",
           "props/c01_e2e.py: in-memory duplex socket standing for a connected socket pair",
           "props/c01_hist.py: the pristine helper process (imports Pyro5, forks one child per reference conversion)",
           "props/c01_extract.py: facts are probed on the imported module (tables of real calls), not read from the source text",
           "props/c01_conc.py: event-gated interleaving of two threads inside a default()/__getstate__ callback",
           "props/c01_tr.py: python ast -> Lean text for recreate_classes (refuses what it does not know; validated on every 'res' case by suite 'ressrc'); "
           "dict_to_class is a parameter of the transcription (the model's dictToClass)"]

SERS = ["serpent", "marshal", "json", "msgpack"]


def extract():
    from props import c01_tr
    common.repo_on_path()
    # recreate_classes, transcribed statement by statement (raises Untranslatable = broken tie when the source leaves the fragment)
    src = c01_tr.transcribe_recreate_classes()
    common.write_if_changed(os.path.join(common.VERIF, "lean", "PyroModel", "Gen", "C01Src.lean"), src)
    return c01_extract.extract()


# ------------------------------------------------------------------------------------------------
def err_kind(x):
    from Pyro5 import errors
    if isinstance(x, errors.SecurityError):
        return "security"
    if isinstance(x, errors.SerializeError):
        return "serialize"
    if isinstance(x, OverflowError):
        return "overflow"
    if isinstance(x, AttributeError):
        return "attribute"
    if isinstance(x, TypeError):
        return "type"
    if isinstance(x, ValueError):
        return "value"
    return "other:" + type(x).__name__


def outcome(fn, loose=False):
    """('ok', normalised tree) | ('err', kind); loose: the sign of a zero inside a complex is not compared
    (serpent re-evaluates "(-0.0+1j)" with float arithmetic; Python's == does not see the difference)"""
    try:
        r = fn()
    except RecursionError:
        raise
    except Exception as x:
        return ("err", err_kind(x)), None
    try:
        return ("ok", V.norm(V.tree(r), loose)), r
    except V.Unsupported as u:
        return ("ok", ("?", str(u))), r


def model_outcome(line, nvals=1):
    """driver reply -> ('ok', normalised tree[, tree]) | ('err', kind)"""
    toks = line.split(" ")
    if toks[0] == "err":
        return ("err", toks[1])
    if toks[0] != "ok":
        return ("bad", line[:80])
    i = 1
    out = []
    for _ in range(nvals):
        t, i = V.parse(toks, i)
        out.append(V.norm(t))
    if i != len(toks):
        return ("bad", line[:80])
    return ("ok", out[0]) if nvals == 1 else ("ok", tuple(out))


def real_res(ser, v):
    from Pyro5 import serializers
    s = serializers.serializers[ser]
    return outcome(lambda: s.loads(s.dumps(v)))


def real_call(ser, vargs, kwargs):
    from Pyro5 import serializers
    s = serializers.serializers[ser]

    def run():
        o, m, a, k = s.loadsCall(s.dumpsCall("o", "m", vargs, kwargs))
        assert (o, m) == ("o", "m")
        return (a, k)
    try:
        a, k = run()
    except RecursionError:
        raise
    except Exception as x:
        return ("err", err_kind(x)), None
    return ("ok", (V.norm(V.tree(a)), V.norm(V.tree(k)))), (a, k)


def real_lib(ser, v):
    import marshal
    import serpent
    import msgpack

    def run():
        if ser == "serpent":
            return serpent.loads(serpent.dumps(v, module_in_classname=True))
        if ser == "marshal":
            return marshal.loads(marshal.dumps(v))
        if ser == "json":
            return json.loads(json.dumps(v, ensure_ascii=False))
        return msgpack.unpackb(msgpack.packb(v, use_bin_type=True), raw=False)
    return outcome(run)


def classdict_oom(ser, tr):
    """class dicts the model leaves to C04/C07 (fixed Pyro classes, exceptions) or to float()"""
    def bad(t):
        if t[0] != "M":
            return False
        d = {a[1]: b for a, b in t[1] if a[0] == "S"}
        if "__class__" not in d:
            return False
        c = d["__class__"]
        if c[0] != "S":
            return True
        if "__exception__" in d or c[1].startswith("Pyro5.") or c[1] == "struct.error":
            return True
        if ser == "serpent" and c[1] == "float" and d.get("value") != ("S", "nan"):
            return True
        return False
    return V.contains(tr, bad)


def excused(ser, tr):
    return V.oom_expected(ser, tr) or classdict_oom(ser, tr)


def _nontrivial(ctx, ser, path, tr, real):
    if real[0] == "ok":
        if tr[0] not in ("N", "T", "F", "I", "D", "S"):
            ctx.nontriv((ser, path, repr(V.norm(tr))))
    elif real[1] in ("security", "serialize") or (real[1] in ("type", "value") and ser in ("serpent", "msgpack")):
        ctx.nontriv((ser, path, repr(V.norm(tr))))


def _corpus():
    d = os.path.join(common.VERIF, "corpus", "C01")
    out = []
    if os.path.isdir(d):
        for f in sorted(os.listdir(d)):
            if f.endswith(".json"):
                out.append(json.load(open(os.path.join(d, f))))
    return out


def _corpus_values():
    vals = []
    for c in _corpus():
        if "value_tokens" in c:
            t, _ = V.parse(c["value_tokens"].split(" "))
            vals.append(V.untree(t))
    return vals


def _gen_call(rng, depth):
    """(vargs, kwargs) as Proxy._pyroInvoke passes them: plain call, or batch-shaped, or attribute access"""
    r = rng.random()
    if r < 0.7:
        vargs = tuple(V.gen_value(rng, depth) for _ in range(rng.choice([0, 1, 1, 2, 3])))
        kwargs = {}
        for _ in range(rng.choice([0, 0, 1, 2])):
            kwargs[rng.choice(["k", "a", "b_1", "name", "x"])] = V.gen_value(rng, depth)
        return vargs, kwargs
    if r < 0.9:
        calls = []
        for _ in range(rng.choice([1, 1, 2, 3])):
            kw = {}
            if rng.random() < 0.4:
                kw[rng.choice(["k", "a"])] = V.gen_value(rng, depth - 1)
            calls.append((rng.choice(["echo", "ret", "m"]), tuple(V.gen_value(rng, depth - 1) for _ in range(rng.choice([0, 1, 2]))), kw))
        return calls, None         # BatchProxy: _pyroInvoke("<batch>", calls, None, FLAGS_BATCH)
    if r < 0.95:
        return ("attr",), None      # Proxy.__getattr__: _pyroInvoke("__getattr__", (name,), None)
    return ("attr", V.gen_value(rng, depth)), None   # __setattr__


def _run_lines(ctx, suite, lines, reals, cases, nvals=1):
    outs = common.run_driver("drv_c01", lines)
    ctx.corr_cases += len(lines)
    for l, r, o, (ser, tr) in zip(lines, reals, outs, cases):
        try:
            m = model_outcome(o, nvals)
        except Exception as x:      # unparsable driver reply
            m = ("bad", repr(x))
        if m == ("err", "oom"):
            if excused(ser, tr):
                ctx.count(suite + ":oom-excused")
                continue
            ctx.mismatch(suite, {"line": l[:1500]}, repr(r)[:300], "err oom (input inside the modelled domain)")
            continue
        if r != m:
            ctx.mismatch(suite, {"line": l[:1500]}, repr(r)[:400], repr(m)[:400])


def _values(ctx, name, n):
    rng = ctx.sub_rng(name)
    vals = list(_corpus_values())
    for i in range(n):
        r = rng.random()
        depth = rng.choice([0, 1, 2, 2, 3, 3, 4, 5, 6])
        vals.append(V.gen_lossless(rng, depth) if r < 0.25 else V.gen_value(rng, depth))
    return vals


def correspondence(ctx):
    common.repo_on_path()
    from props import c01_e2e
    # ---- loads(dumps(v)) and the bare library
    vals = _values(ctx, "res", ctx.n(4000, 30000))
    spec_lines, spec_expect = [], []
    for suite, real_fn in (("res", real_res), ("lib", real_lib)):
        lines, reals, cases = [], [], []
        for v in vals:
            tr = V.tree(v)
            toks = " ".join(V.tokens(tr))
            if suite == "res":
                spec_lines.append("spec json " + toks)       # the generator's notion of the lossless core = the theorem's
                spec_expect.append(("lossless=%d pyval=1" % V.is_lossless(tr), toks))
            for ser in SERS:
                real, raw = real_fn(ser, v)
                if suite == "res" and real[0] == "ok" and real[1][0] != "?" and not excused(ser, tr) \
                        and not excused(ser, V.tree(raw)):
                    spec_lines.append("spec %s %s" % (ser, " ".join(V.tokens(V.tree(raw)))))    # what is delivered is a normal form
                    spec_expect.append(("nf=1", toks))
                ctx.evaluations += 1
                ctx.count("%s:%s:%s" % (suite, ser, real[0] if real[0] == "ok" else real[1]))
                if suite == "res":
                    _nontrivial(ctx, ser, suite, tr, real)
                lines.append("%s %s %s" % (suite, ser, toks))
                reals.append(real)
                cases.append((ser, tr))
                if len(ctx.samples) < 4 and real[0] == "ok" and tr[0] in ("M", "E", "U") and len(toks) < 120 and suite == "res":
                    ctx.sample({"line": lines[-1], "real": repr(real)[:200]})
        _run_lines(ctx, suite, lines, reals, cases)
        if suite == "res":      # the same cases through the transcription of recreate_classes (validates the translator)
            _run_lines(ctx, "ressrc", ["ressrc" + l[3:] for l in lines], reals, cases)
    outs = common.run_driver("drv_c01", spec_lines)
    ctx.corr_cases += len(spec_lines)
    for l, o, (want, src) in zip(spec_lines, outs, spec_expect):
        if want not in o:
            ctx.mismatch("spec", {"line": l[:1200], "input": src[:600]}, want, o)
    # ---- loadsCall(dumpsCall(...)): plain calls, batch-shaped calls, kwargs=None
    rng = ctx.sub_rng("call")
    lines, reals, cases = [], [], []
    for i in range(ctx.n(3000, 20000)):
        vargs, kwargs = _gen_call(rng, rng.choice([0, 1, 2, 3, 4]))
        tv, tk = V.tree(vargs), V.tree(kwargs)
        toks = " ".join(V.tokens(tv) + V.tokens(tk))
        for ser in SERS:
            real, _ = real_call(ser, vargs, kwargs)
            ctx.evaluations += 1
            ctx.count("call:%s:%s:%s" % (ser, "kwNone" if kwargs is None else "kw", real[0] if real[0] == "ok" else real[1]))
            _nontrivial(ctx, ser, "call", ("U", [tv, tk]), real)
            lines.append("call %s %s" % (ser, toks))
            reals.append(real)
            cases.append((ser, ("U", [tv, tk])))
    _run_lines(ctx, "call", lines, reals, cases, nvals=2)
    # ---- the whole path: real Proxy <-> real Daemon over an in-memory connection vs argPath / resPath of the model
    c01_e2e.correspond(ctx)


def oracle(ctx):
    common.repo_on_path()
    from props import c01_e2e
    from props import c01_hist
    c01_hist.run(ctx)            # first: before this process has converted much else in oracle mode
    from props import c01_conc
    c01_conc.run(ctx)
    c01_e2e.serializer_oracle(ctx)
    c01_e2e.e2e_oracle(ctx)
    if not ctx.search_mode:
        from props import c01_tz
        c01_tz.run(ctx)


def replay(ctx, case):
    common.repo_on_path()
    from props import c01_e2e
    f = case.get("failing_input") or {}
    print(json.dumps(f, indent=1)[:3000])
    c = f.get("case") or {}
    if not c:
        return 0
    if "history" in c:
        from props import c01_hist
        return c01_hist.replay(c)
    if c.get("concurrent"):
        from props import c01_conc
        return c01_conc.replay(c)
    return c01_e2e.replay_case(c)
