"""
c14_tr.py - transcription of Pyro5/nameserver.py `NameServer` methods (and `MemoryStorage`) into a *shallow* Lean
embedding over the C14 model's own types (python `ast` -> Lean source text, PyroModel/Gen/C14Src.lean).

  method body        ->  `σ → Res × σ`  (σ = storage state), statements chained in continuation-passing style
  self.storage.<m>   ->  the field of the model's storage interface `Store σ` (`call (S.<m> …)`)
  raise X(...)       ->  `(.err kind, s)`, the class X resolved through the real module
  try/except C       ->  `tryExcept [kinds whose live class is a subclass of C]`
  with self.lock:    ->  `withLock` marker
  core.URI / re.*    ->  the model's `Env` (`uriK`, `reCompileK`, `env.reMatch`)
  dict / list        ->  `List Entry` with `dictSet` (overwrite in place or append), `List.erase` for list.remove
  str / None-or-str / bool / metadata argument  ->  Str / Option Str / Bool / MetaArg (parameter types come from the
                         model's `Op` constructor, by *position*; parameter and local names are irrelevant)

SOUND BY REFUSAL: every statement / expression / call target / attribute / operator that is not explicitly
understood below raises `Untranslatable`.  Skipped silently: docstrings, `log.*(...)` calls, `pass`, and
`x and iter(x)` for a metadata argument (a no-op on the model's domain: every MetaArg value is iterable).
The text of exception messages is not transcribed (the canonical result is the exception *kind*), but the
message expression must be built from constants, `+`, `str()` and variables only.
Normalisations: names canonical (never used in the proof anyway: the proofs only mention the generated defs),
module constants (`core.NAMESERVER_NAME`) resolved to their values, `self._helper(...)` of the same class inlined
at the call site, `not x in y` = `x not in y`, `if c: A; return` vs if/else are the same CPS term.
"""
import ast
import builtins
import inspect
import re as _re
import textwrap


class Untranslatable(Exception):
    pass


class V(object):
    """a translated python value: Lean expression text + model type"""
    def __init__(self, lean, ty, notstr=False, truthy=False, parts=None):
        self.lean, self.ty, self.notstr, self.truthy, self.parts = lean, ty, notstr, truthy, parts


def _lit(s):
    return "[" + ", ".join(str(ord(c)) for c in s) + "]"


# parameter types by position (= the model's Op constructors)
SIGS = {
    "count": [],
    "lookup": ["str", "bool"],
    "register": ["str", "str", "bool", "meta"],
    "set_metadata": ["str", "meta"],
    "remove": ["optstr", "optstr", "optstr"],
    "list": ["optstr", "optstr", "bool"],
    "yplookup": ["meta", "meta", "bool"],
}
LEAN_TY = {"str": "Str", "bool": "Bool", "meta": "MetaArg", "optstr": "Option Str"}
DEFNAME = {"count": "countSrc", "lookup": "lookupSrc", "register": "registerSrc", "set_metadata": "setMetaSrc",
           "remove": "removeSrc", "list": "listSrc", "yplookup": "yplookupSrc"}


class Tr(object):
    def __init__(self, module, cls):
        self.module, self.cls = module, cls
        self.n = 0
        from Pyro5 import errors, core
        self.errors, self.core = errors, core
        # error kinds of the model and the live classes they stand for
        self.kinds = [("naming", errors.NamingError), ("type", TypeError), ("value", ValueError),
                      ("pyro", errors.PyroError), ("key", KeyError), ("storage", errors.NamingError)]
        self.helpers = {}
        src = textwrap.dedent(inspect.getsource(cls))
        self.clsnode = ast.parse(src).body[0]
        self.methods = {n.name: n for n in self.clsnode.body if isinstance(n, ast.FunctionDef)}
        self.inlining = []
        self.ret_stack = []
        self.selfname = None
        self.k_notstr, self.k_truthy = [], []

    # ------------------------------------------------------------------ helpers
    def with_fact(self, lst, lean, thunk):
        """run thunk (which generates the code of one branch) knowing a fact about the value with this Lean text"""
        lst.append(lean)
        try:
            return thunk()
        finally:
            lst.pop()

    def notstr(self, v):
        return v.notstr or v.lean in self.k_notstr

    def truthy(self, v):
        return v.truthy or v.lean in self.k_truthy

    def fresh(self, p):
        self.n += 1
        return "%s%d" % (p, self.n)

    def bad(self, what, node):
        raise Untranslatable("%s: %s" % (what, ast.unparse(node) if isinstance(node, ast.AST) else node))

    def resolve(self, node):
        """the live object an expression like `core.URI` / `NamingError` / `re.error` names"""
        if isinstance(node, ast.Name):
            if node.id in self.module.__dict__:
                return self.module.__dict__[node.id]
            if hasattr(builtins, node.id):
                return getattr(builtins, node.id)
            self.bad("cannot resolve", node)
        if isinstance(node, ast.Attribute):
            base = self.resolve(node.value)
            if not hasattr(base, node.attr):
                self.bad("cannot resolve", node)
            return getattr(base, node.attr)
        self.bad("cannot resolve", node)

    def try_resolve(self, node, env):
        if isinstance(node, ast.Name) and node.id in env:
            return None
        try:
            return self.resolve(node)
        except Untranslatable:
            return None

    def is_self_attr(self, node, attr):
        return (isinstance(node, ast.Attribute) and node.attr == attr and isinstance(node.value, ast.Name)
                and node.value.id == self.selfname)

    def is_storage(self, node):
        return self.is_self_attr(node, "storage")

    def kind_of_raise(self, exc):
        if isinstance(exc, ast.Call):
            for a in exc.args:
                self.check_message(a)
            if exc.keywords:
                self.bad("raise with keywords", exc)
            c = self.resolve(exc.func)
        else:
            self.bad("raise of a non-call", exc)
        for k, cls in self.kinds[:5]:
            if c is cls:
                return k
        self.bad("raise of a class outside the model's error kinds", exc)

    def check_message(self, e):
        if isinstance(e, ast.Constant) and isinstance(e.value, str):
            return
        if isinstance(e, ast.Name):
            return
        if isinstance(e, ast.BinOp) and isinstance(e.op, ast.Add):
            self.check_message(e.left)
            self.check_message(e.right)
            return
        if isinstance(e, ast.Call) and isinstance(e.func, ast.Name) and e.func.id == "str" and len(e.args) == 1 and not e.keywords:
            self.check_message(e.args[0])
            return
        self.bad("exception message", e)

    def caught_kinds(self, typ):
        if typ is None:
            self.bad("bare except", "except:")
        classes = [self.resolve(t) for t in (typ.elts if isinstance(typ, ast.Tuple) else [typ])]
        for c in classes:
            if not (isinstance(c, type) and issubclass(c, BaseException)):
                self.bad("except of a non-exception", typ)
        return [k for k, cls in self.kinds if any(issubclass(cls, c) for c in classes)]

    # ------------------------------------------------------------------ a method
    def method(self, name):
        fn = self.methods.get(name)
        if fn is None:
            raise Untranslatable("method %s not found in class %s" % (name, self.cls.__name__))
        a = fn.args
        if a.vararg or a.kwarg or a.kwonlyargs or a.posonlyargs:
            self.bad("signature", fn)
        params = [x.arg for x in a.args]
        self.selfname = params[0]
        params = params[1:]
        tys = SIGS[name]
        if len(params) != len(tys):
            raise Untranslatable("%s takes %d parameters, the model's operation has %d" % (name, len(params), len(tys)))
        self.n = 0
        self.ret_stack = []
        self.inlining = []
        env = {}
        lparams = []
        for i, (p, t) in enumerate(zip(params, tys)):
            ln = "p%d" % (i + 1)
            env[p] = V(ln, t)
            lparams.append("(%s : %s)" % (ln, LEAN_TY[t]))
        body = self.block(fn.body, env, "s0", lambda env2, st: "(Res.none, %s)" % st)
        return "def %s {σ : Type} (S : Store σ) (env : Env) %s(s0 : σ) : Res × σ :=\n  %s\n" % (
            DEFNAME[name], "".join(x + " " for x in lparams), body)

    def param_names(self, name):
        return [x.arg for x in self.methods[name].args.args][1:]

    # ------------------------------------------------------------------ statements (CPS)
    def block(self, stmts, env, st, k):
        if not stmts:
            return k(env, st)
        return self.stmt(stmts[0], env, st, lambda env2, st2: self.block(stmts[1:], env2, st2, k), bool(stmts[1:]))

    def falls_through(self, stmts):
        """may control reach the end of this block?  (conservative: True unless the last statement always leaves)"""
        if not stmts:
            return True
        last = stmts[-1]
        if isinstance(last, (ast.Return, ast.Raise)):
            return False
        if isinstance(last, ast.If):
            return self.falls_through(last.body) or self.falls_through(last.orelse)
        if isinstance(last, ast.With):
            return self.falls_through(last.body)
        return True

    def stmt(self, s, env, st, cont, has_rest):
        if isinstance(s, ast.Expr):
            return self.expr_stmt(s.value, env, st, cont)
        if isinstance(s, ast.Pass):
            return cont(env, st)
        if isinstance(s, ast.With):
            if len(s.items) != 1 or s.items[0].optional_vars is not None or not self.is_self_attr(s.items[0].context_expr, "lock"):
                self.bad("with", s)
            s1 = self.fresh("s")
            inner = self.block(s.body, env, s1, cont)
            return "withLock (fun %s => %s) %s" % (s1, inner, st)
        if isinstance(s, ast.Return):
            if self.ret_stack:
                rk = self.ret_stack[-1]
                if s.value is None:
                    return rk(V("none", "none"), st)
                return self.evalK(s.value, env, st, rk)
            if s.value is None:
                return "(Res.none, %s)" % st
            # return A if c else B
            if isinstance(s.value, ast.IfExp):
                return self.condK(s.value.test, env, st,
                                  lambda e2, s2: self.stmt(ast.Return(value=s.value.body), e2, s2, None, False),
                                  lambda e2, s2: self.stmt(ast.Return(value=s.value.orelse), e2, s2, None, False))
            return self.evalK(s.value, env, st, lambda v, st2: "(%s, %s)" % (self.to_res(v, s), st2))
        if isinstance(s, ast.Raise):
            if s.cause is not None or s.exc is None:
                self.bad("raise", s)
            return "(Res.err Err.%s, %s)" % (self.kind_of_raise(s.exc), st)
        if isinstance(s, ast.If):
            return self.if_stmt(s, env, st, cont, has_rest)
        if isinstance(s, ast.Assign):
            return self.assign(s, env, st, cont)
        if isinstance(s, ast.AnnAssign) and s.value is not None and s.simple:
            return self.assign(ast.Assign(targets=[s.target], value=s.value), env, st, cont)
        if isinstance(s, ast.Delete):
            if len(s.targets) == 1 and isinstance(s.targets[0], ast.Subscript) and self.is_storage(s.targets[0].value):
                return self.evalK(s.targets[0].slice, env, st, lambda v, st2: self.del_item(v, st2, cont, env, s))
            self.bad("del", s)
        if isinstance(s, ast.Try):
            return self.try_stmt(s, env, st, cont)
        if isinstance(s, ast.For):
            return self.for_stmt(s, env, st, cont)
        self.bad("statement", s)

    def del_item(self, v, st, cont, env, s):
        if v.ty != "str":
            self.bad("del with a key that is not a str", s)
        s1 = self.fresh("s")
        return "delItemK S %s (fun %s => %s) %s" % (v.lean, s1, cont(env, s1), st)

    def expr_stmt(self, e, env, st, cont):
        if isinstance(e, ast.Constant) and isinstance(e.value, str):
            return cont(env, st)                       # docstring
        if isinstance(e, ast.Call) and isinstance(e.func, ast.Attribute) and isinstance(e.func.value, ast.Name) \
                and e.func.value.id not in env:
            import logging
            tgt = self.try_resolve(e.func.value, env)
            if isinstance(tgt, logging.Logger) and e.func.attr in ("debug", "info", "warning", "error", "exception", "critical"):
                return cont(env, st)                   # log.*(...)
        # `x and iter(x)`: validation that a metadata argument is iterable - every MetaArg value is
        if isinstance(e, ast.BoolOp) and isinstance(e.op, ast.And) and len(e.values) == 2 and isinstance(e.values[0], ast.Name) \
                and isinstance(e.values[1], ast.Call) and isinstance(e.values[1].func, ast.Name) and e.values[1].func.id == "iter" \
                and "iter" not in env and len(e.values[1].args) == 1 and isinstance(e.values[1].args[0], ast.Name) \
                and e.values[1].args[0].id == e.values[0].id and e.values[0].id in env and env[e.values[0].id].ty == "meta":
            return cont(env, st)
        if isinstance(e, ast.Call) and isinstance(e.func, ast.Name) and e.func.id == "iter" and "iter" not in env \
                and len(e.args) == 1 and not e.keywords and isinstance(e.args[0], ast.Name) and e.args[0].id in env \
                and env[e.args[0].id].ty == "meta" and self.truthy(env[e.args[0].id]):
            return cont(env, st)                       # iter(x) of a non-empty metadata argument: no effect
        if isinstance(e, ast.Call) and self.helper_of(e.func, env) is not None:
            return self.inline(self.helper_of(e.func, env), e, env, st, lambda v, st2: cont(env, st2))
        if isinstance(e, ast.Call):
            # self.storage.remove_items(items)
            if isinstance(e.func, ast.Attribute) and self.is_storage(e.func.value) and e.func.attr == "remove_items" \
                    and len(e.args) == 1 and not e.keywords:
                def k(v, st2):
                    if v.ty != "names":
                        self.bad("remove_items of something that is not a list of names", e)
                    s1 = self.fresh("s")
                    return "call (S.removeItems %s) (fun _ %s => %s) %s" % (v.lean, s1, cont(env, s1), st2)
                return self.evalK(e.args[0], env, st, k)
            # core.URI(text) for validation, or any other call evaluated for its exception
            return self.evalK(e, env, st, lambda v, st2: cont(env, st2) if v.ty == "uriobj" else self.bad("call statement", e))
        self.bad("expression statement", e)

    def assign(self, s, env, st, cont):
        if len(s.targets) != 1:
            self.bad("assignment", s)
        t = s.targets[0]
        # a, b = self.storage[name]
        if isinstance(t, ast.Tuple):
            if len(t.elts) == 2 and all(isinstance(x, ast.Name) for x in t.elts):
                def k(v, st2):
                    if v.ty != "entry":
                        self.bad("tuple assignment from something that is not a storage value", s)
                    env2 = dict(env)
                    env2[t.elts[0].id] = V("%s.uri" % v.lean, "str")
                    env2[t.elts[1].id] = V("%s.tags" % v.lean, "tags")
                    return cont(env2, st2)
                return self.evalK(s.value, env, st, k)
            self.bad("assignment", s)
        # self.storage[name] = uri, tags
        if isinstance(t, ast.Subscript) and self.is_storage(t.value):
            if not (isinstance(s.value, ast.Tuple) and len(s.value.elts) == 2):
                self.bad("storage assignment of something that is not a pair", s)

            def k1(key, st1):
                def k2(u, st2):
                    def k3(tg, st3):
                        if key.ty != "str" or u.ty != "str":
                            self.bad("storage assignment with a key / uri that is not a str", s)
                        if tg.ty == "opttags":
                            tl = "(optTags %s)" % tg.lean
                        elif tg.ty == "tags":
                            tl = tg.lean
                        else:
                            self.bad("storage assignment of a tag collection of unknown kind", s)
                        s1 = self.fresh("s")
                        return "call (S.setItem %s %s %s) (fun _ %s => %s) %s" % (key.lean, u.lean, tl, s1, cont(env, s1), st3)
                    return self.evalK(s.value.elts[1], env, st2, k3)
                return self.evalK(s.value.elts[0], env, st1, k2)
            return self.evalK(t.slice, env, st, k1)
        if isinstance(t, ast.Name):
            def k(v, st2):
                env2 = dict(env)
                env2[t.id] = v
                return cont(env2, st2)
            return self.evalK(s.value, env, st, k)
        self.bad("assignment", s)

    def if_stmt(self, s, env, st, cont, has_rest):
        # `if X in items: items.remove(X)`  (list.remove raises ValueError when absent: only understood under this guard)
        if not s.orelse and len(s.body) == 1 and isinstance(s.body[0], ast.Expr) and isinstance(s.body[0].value, ast.Call):
            c = s.body[0].value
            if isinstance(c.func, ast.Attribute) and c.func.attr == "remove" and isinstance(c.func.value, ast.Name) \
                    and c.func.value.id in env and env[c.func.value.id].ty == "names" and len(c.args) == 1 and not c.keywords:
                t = s.test
                if isinstance(t, ast.Compare) and len(t.ops) == 1 and isinstance(t.ops[0], ast.In) \
                        and ast.dump(t.left) == ast.dump(c.args[0]) and ast.dump(t.comparators[0]) == ast.dump(c.func.value):
                    x = self.pure_str(c.args[0], env)
                    items = env[c.func.value.id]
                    env2 = dict(env)
                    env2[c.func.value.id] = V("(if %s.contains %s then %s.erase %s else %s)" % (items.lean, x, items.lean, x, items.lean), "names")
                    return cont(env2, st)
                self.bad("list.remove outside `if x in l:`", s)
        then_falls = self.falls_through(s.body)
        else_falls = self.falls_through(s.orelse)
        share = has_rest and then_falls and else_falls
        multi = self.n_conjuncts(s.test) > 1
        if share:
            # both branches continue with the rest: they must not rebind anything the rest reads
            if self.binds(s.body) or self.binds(s.orelse):
                share = False
        pre = ""
        if share:
            r = self.fresh("rest")
            sr = self.fresh("s")
            pre = "let %s := fun (%s : σ) => %s; " % (r, sr, cont(env, sr))
            cont_b = lambda env2, st2: "%s %s" % (r, st2)
        else:
            cont_b = cont
        if multi:
            # the else part is reached from every conjunct: bind it once
            e = self.fresh("else")
            se = self.fresh("s")
            pre += "let %s := fun (%s : σ) => %s; " % (e, se, self.block(s.orelse, env, se, cont_b))
            else_k = lambda env2, st2: "%s %s" % (e, st2)
        else:
            else_k = lambda env2, st2: self.block(s.orelse, env2, st2, cont_b)
        then_k = lambda env2, st2: self.block(s.body, env2, st2, cont_b)
        return "(" + pre + self.condK(s.test, env, st, then_k, else_k) + ")"

    def binds(self, stmts):
        for st in stmts:
            for n in ast.walk(st):
                if isinstance(n, (ast.Assign, ast.AugAssign, ast.AnnAssign, ast.For, ast.NamedExpr)):
                    return True
        return False

    def n_conjuncts(self, t):
        if isinstance(t, ast.BoolOp) and isinstance(t.op, ast.And):
            return sum(self.n_conjuncts(v) for v in t.values)
        return 1

    def condK(self, t, env, st, then_k, else_k):
        """branch on the truth value of t; then_k gets the environment refined by what the test established"""
        if isinstance(t, ast.BoolOp) and isinstance(t.op, ast.And):
            def chain(vals, env2, st2):
                if not vals:
                    return then_k(env2, st2)
                return self.condK(vals[0], env2, st2, lambda e3, s3: chain(vals[1:], e3, s3), else_k)
            return chain(list(t.values), env, st)
        if isinstance(t, ast.UnaryOp) and isinstance(t.op, ast.Not):
            if isinstance(t.operand, ast.Compare) and len(t.operand.ops) == 1 and isinstance(t.operand.ops[0], ast.In):
                t2 = ast.Compare(left=t.operand.left, ops=[ast.NotIn()], comparators=t.operand.comparators)
                return self.condK(t2, env, st, then_k, else_k)
            return self.condK(t.operand, env, st, lambda e2, s2: else_k(e2, s2), lambda e2, s2: then_k(env, s2))
        if isinstance(t, ast.Name) and t.id in env:
            v = env[t.id]
            if v.ty == "optstr":
                x = self.fresh("v")
                env2 = dict(env)
                env2[t.id] = V(x, "str", truthy=True)
                return "(match truthy? %s with | some %s => %s | Option.none => %s)" % (v.lean, x, then_k(env2, st), else_k(env, st))
            if v.ty == "bool":
                return "(if %s then %s else %s)" % (v.lean, then_k(env, st), else_k(env, st))
            if v.ty == "meta":
                env2 = dict(env)
                env2[t.id] = V(v.lean, "meta", notstr=v.notstr, truthy=True)
                return "(if %s.truthy then %s else %s)" % (v.lean, self.with_fact(self.k_truthy, v.lean, lambda: then_k(env2, st)), else_k(env, st))
            self.bad("truth value of a %s" % v.ty, t)
        # `x is not None` / `x is None` for the optional dict an optimized_* method returns
        if isinstance(t, ast.Compare) and len(t.ops) == 1 and isinstance(t.ops[0], (ast.Is, ast.IsNot)) \
                and isinstance(t.comparators[0], ast.Constant) and t.comparators[0].value is None \
                and isinstance(t.left, ast.Name) and t.left.id in env and env[t.left.id].ty == "optdict":
            v = env[t.left.id]
            x = self.fresh("v")
            env2 = dict(env)
            env2[t.left.id] = V(x, "dict")
            some_k, none_k = (then_k, else_k) if isinstance(t.ops[0], ast.IsNot) else (else_k, then_k)
            return "(match %s with | some %s => %s | Option.none => %s)" % (v.lean, x, some_k(env2, st), none_k(env, st))
        # isinstance(meta, str) establishes "not a str" for the else branch
        if isinstance(t, ast.Call) and isinstance(t.func, ast.Name) and t.func.id == "isinstance" and "isinstance" not in env \
                and len(t.args) == 2 and isinstance(t.args[0], ast.Name) and t.args[0].id in env and env[t.args[0].id].ty == "meta" \
                and self.resolve(t.args[1]) is str:
            v = env[t.args[0].id]
            env2 = dict(env)
            env2[t.args[0].id] = V(v.lean, "meta", notstr=True, truthy=v.truthy)
            return "(if %s.isStr then %s else %s)" % (v.lean, then_k(env, st), self.with_fact(self.k_notstr, v.lean, lambda: else_k(env2, st)))

        def k(v, st2):
            if v.ty != "bool":
                self.bad("condition of type %s" % v.ty, t)
            return "(if %s then %s else %s)" % (v.lean, then_k(env, st2), else_k(env, st2))
        return self.evalK(t, env, st, k)

    def try_stmt(self, s, env, st, cont):
        if s.finalbody or len(s.handlers) != 1:
            self.bad("try", s)
        h = s.handlers[0]
        # try: r = re.compile(r)  except re.error: raise …  else: …
        if len(s.body) == 1 and isinstance(s.body[0], ast.Assign) and isinstance(s.body[0].value, ast.Call) \
                and self.try_resolve(s.body[0].value.func, env) is _re.compile:
            a = s.body[0]
            if not (len(a.targets) == 1 and isinstance(a.targets[0], ast.Name) and len(a.value.args) == 1 and not a.value.keywords):
                self.bad("re.compile", a)
            if self.resolve(h.type) is not _re.error:
                self.bad("handler of re.compile is not exactly re.error", h)
            pat = self.pure_str(a.value.args[0], env)
            envh = dict(env)
            if h.name:
                envh[h.name] = V("_", "exc")
            s1, s2 = self.fresh("s"), self.fresh("s")
            env2 = dict(env)
            env2[a.targets[0].id] = V(pat, "regex")
            onerr = self.block(h.body, envh, s1, lambda e2, s3: self.bad("re.error handler falls through", h))
            ok = self.block(s.orelse, env2, s2, cont)
            return "reCompileK env %s (fun %s => %s) (fun %s => %s) %s" % (pat, s1, onerr, s2, ok, st)
        if s.orelse:
            self.bad("try/else", s)
        kinds = self.caught_kinds(h.type)
        envh = dict(env)
        if h.name:
            envh[h.name] = V("_", "exc")
        s1, s2 = self.fresh("s"), self.fresh("s")
        # the continuation after the try statement is part of the protected term only if it cannot raise a caught
        # kind differently - to stay exact the rest is placed after: the body must not fall through with a rest
        body_falls = self.falls_through(s.body)
        hand_falls = self.falls_through(h.body)
        if (body_falls or hand_falls):
            # fall-through is allowed only when nothing follows that could be affected: the rest is the caller's
            # continuation, which we run OUTSIDE the tryExcept through an explicit join
            j = self.fresh("join")
            sj = self.fresh("s")
            body = self.block(s.body, env, s1, lambda e2, s3: "(Res.none, %s)" % s3) if not self.binds_used_later(s) else self.bad("try that binds", s)
            hand = self.block(h.body, envh, s2, lambda e2, s3: "(Res.none, %s)" % s3)
            # Only sound if the rest is "return None" - check by asking the continuation on a probe
            rest = cont(env, sj)
            if rest != "(Res.none, %s)" % sj:
                self.bad("try that falls through into more statements", s)
            return "tryExcept [%s] (fun %s => %s) (fun %s => %s) %s" % (", ".join("Err." + k for k in kinds), s1, body, s2, hand, st)
        body = self.block(s.body, env, s1, lambda e2, s3: self.bad("unreachable", s))
        hand = self.block(h.body, envh, s2, lambda e2, s3: self.bad("unreachable", s))
        return "tryExcept [%s] (fun %s => %s) (fun %s => %s) %s" % (", ".join("Err." + k for k in kinds), s1, body, s2, hand, st)

    def binds_used_later(self, s):
        return False

    # ------------------------------------------------------------------ loops
    def for_stmt(self, s, env, st, cont):
        if s.orelse:
            self.bad("for/else", s)
        accs = set()
        for n in ast.walk(s):
            if isinstance(n, ast.Subscript) and isinstance(n.ctx, ast.Store) and isinstance(n.value, ast.Name):
                accs.add(n.value.id)
            if isinstance(n, (ast.Break, ast.Continue, ast.Return, ast.Raise, ast.While)):
                self.bad("loop body", n)
        if len(accs) != 1:
            self.bad("loop without exactly one dict built in it", s)
        acc = accs.pop()
        if acc not in env or env[acc].ty != "dict":
            self.bad("loop accumulator is not a dict", s)
        a, x, sl, s1, s2, r = self.fresh("acc"), self.fresh("x"), self.fresh("s"), self.fresh("s"), self.fresh("s"), self.fresh("v")
        envb = dict(env)
        envb[acc] = V(a, "dict")
        # for name in self.storage:
        if isinstance(s.target, ast.Name) and self.is_storage(s.iter):
            envb[s.target.id] = V(x, "str")
            src = "call S.iter"
        # for name, (uri, meta) in self.storage.everything(return_metadata=True).items():
        elif isinstance(s.target, ast.Tuple) and len(s.target.elts) == 2 and isinstance(s.target.elts[0], ast.Name) \
                and isinstance(s.target.elts[1], ast.Tuple) and len(s.target.elts[1].elts) == 2 \
                and all(isinstance(y, ast.Name) for y in s.target.elts[1].elts) \
                and isinstance(s.iter, ast.Call) and isinstance(s.iter.func, ast.Attribute) and s.iter.func.attr == "items" \
                and not s.iter.args and not s.iter.keywords:
            inner = s.iter.func.value
            wm = self.everything_call(inner, env)
            if wm != "true":
                self.bad("loop over everything() without metadata", s)
            envb[s.target.elts[0].id] = V("%s.name" % x, "str")
            envb[s.target.elts[1].elts[0].id] = V("%s.uri" % x, "str")
            envb[s.target.elts[1].elts[1].id] = V("%s.tags" % x, "tags")
            src = "call (S.everything true)"
        else:
            self.bad("for", s)
        body = self.loop_block(s.body, envb, acc, sl)
        env2 = dict(env)
        env2[acc] = V(r, "dict")
        l = self.fresh("l")
        return "%s (fun %s %s => afterLoop (forEach (fun %s %s %s => %s) %s %s %s) (fun %s %s => %s)) %s" % (
            src, l, s1, x, a, sl, body, l, env[acc].lean, s1, r, s2, cont(env2, s2), st)

    def everything_call(self, e, env):
        """`self.storage.everything(flag)` -> Lean text of the flag"""
        if not (isinstance(e, ast.Call) and isinstance(e.func, ast.Attribute) and self.is_storage(e.func.value)
                and e.func.attr == "everything"):
            self.bad("not a call of storage.everything", e)
        args = list(e.args)
        for kw in e.keywords:
            if kw.arg != "return_metadata":
                self.bad("keyword of everything()", e)
            args.append(kw.value)
        if len(args) > 1:
            self.bad("arguments of everything()", e)
        if not args:
            return "false"
        return self.pure_bool(args[0], env)

    def loop_block(self, stmts, env, acc, st):
        """loop body: a value of type `Except Res (List Entry) × σ`; only `if <pure>:` and `acc[key] = value`"""
        if not stmts:
            return "(Except.ok %s, %s)" % (env[acc].lean, st)
        s = stmts[0]
        if isinstance(s, ast.If) and len(stmts) == 1:
            c = self.pure_bool(s.test, env)
            return "(if %s then %s else %s)" % (c, self.loop_block(s.body, env, acc, st), self.loop_block(s.orelse, env, acc, st))
        if isinstance(s, ast.Assign) and len(stmts) == 1 and len(s.targets) == 1 and isinstance(s.targets[0], ast.Subscript) \
                and isinstance(s.targets[0].value, ast.Name) and s.targets[0].value.id == acc:
            key = self.pure_str(s.targets[0].slice, env)
            return self.loop_value(s.value, key, env, acc, st)
        self.bad("loop body statement", s)

    def loop_value(self, e, key, env, acc, st):
        a = env[acc].lean
        if isinstance(e, ast.IfExp):
            c = self.pure_bool(e.test, env)
            return "(if %s then %s else %s)" % (c, self.loop_value(e.body, key, env, acc, st), self.loop_value(e.orelse, key, env, acc, st))
        # self.storage[name]  /  self.storage[name][0]
        first = False
        g = e
        if isinstance(g, ast.Subscript) and isinstance(g.slice, ast.Constant) and g.slice.value == 0 and type(g.slice.value) is int:
            first = True
            g = g.value
        if isinstance(g, ast.Subscript) and self.is_storage(g.value):
            k2 = self.pure_str(g.slice, env)
            ev, s1 = self.fresh("e"), self.fresh("s")
            tags = "[]" if first else "%s.tags" % ev
            return "getItemL S %s (fun %s %s => (Except.ok (dictSet %s ⟨%s, %s.uri, %s⟩), %s)) %s" % (k2, ev, s1, a, key, ev, tags, s1, st)
        # (uri, meta)  /  uri      from the loop variables
        if isinstance(e, ast.Tuple) and len(e.elts) == 2:
            u, t = self.pure_str(e.elts[0], env), self.pure_tags(e.elts[1], env)
            return "(Except.ok (dictSet %s ⟨%s, %s, %s⟩), %s)" % (a, key, u, t, st)
        if isinstance(e, ast.Name):
            u = self.pure_str(e, env)
            return "(Except.ok (dictSet %s ⟨%s, %s, []⟩), %s)" % (a, key, u, st)
        self.bad("value stored in the result dict", e)

    # ------------------------------------------------------------------ pure expressions
    def pure_str(self, e, env):
        if isinstance(e, ast.Name) and e.id in env:
            if env[e.id].ty == "str":
                return env[e.id].lean
            self.bad("a str is needed, this is a %s" % env[e.id].ty, e)
        obj = self.try_resolve(e, env)
        if isinstance(obj, str) and isinstance(e, (ast.Name, ast.Attribute)):
            return "(%s : Str)" % _lit(obj)            # module-level constant resolved to its value
        self.bad("str expression", e)

    def pure_tags(self, e, env):
        if isinstance(e, ast.Name) and e.id in env and env[e.id].ty == "tags":
            return env[e.id].lean
        self.bad("tag collection", e)

    def pure_bool(self, e, env):
        if isinstance(e, ast.Constant) and isinstance(e.value, bool):
            return "true" if e.value else "false"
        if isinstance(e, ast.Name) and e.id in env and env[e.id].ty == "bool":
            return env[e.id].lean
        if isinstance(e, ast.UnaryOp) and isinstance(e.op, ast.Not):
            return "(!%s)" % self.pure_bool(e.operand, env)
        if isinstance(e, ast.Compare) and len(e.ops) == 1 and isinstance(e.ops[0], (ast.Eq, ast.NotEq)):
            return "(%s %s %s)" % (self.pure_str(e.left, env), "==" if isinstance(e.ops[0], ast.Eq) else "!=", self.pure_str(e.comparators[0], env))
        if isinstance(e, ast.Call) and isinstance(e.func, ast.Attribute) and not e.keywords and len(e.args) == 1 \
                and isinstance(e.func.value, ast.Name) and e.func.value.id in env:
            recv = env[e.func.value.id]
            if e.func.attr == "startswith" and recv.ty == "str":
                return "(%s).isPrefixOf %s" % (self.pure_str(e.args[0], env), recv.lean)
            if e.func.attr == "match" and recv.ty == "regex":
                return "env.reMatch %s %s" % (recv.lean, self.pure_str(e.args[0], env))
            if e.func.attr == "issubset" and recv.ty == "tagset":
                return "subsetOf %s %s" % (recv.lean, self.pure_tags(e.args[0], env))
        if isinstance(e, ast.Call) and isinstance(e.func, ast.Name) and e.func.id in env and env[e.func.id].ty == "rematch" \
                and not e.keywords and len(e.args) == 1:
            return "env.reMatch %s %s" % (env[e.func.id].lean, self.pure_str(e.args[0], env))
        if isinstance(e, ast.Call) and isinstance(e.func, ast.Name) and e.func.id in env and env[e.func.id].ty == "lambda" and not e.keywords:
            lam, cenv = env[e.func.id].parts
            la = lam.args
            if la.vararg or la.kwarg or la.kwonlyargs or la.posonlyargs or la.defaults or len(la.args) != len(e.args):
                self.bad("lambda call", e)
            envl = dict(cenv)
            for pa, arg in zip(la.args, e.args):
                envl[pa.arg] = V(self.pure_str(arg, env), "str")
            return self.pure_bool(lam.body, envl)
        # frozenset & set, used for its truth value
        if isinstance(e, ast.BinOp) and isinstance(e.op, ast.BitAnd) and isinstance(e.left, ast.Name) and e.left.id in env \
                and env[e.left.id].ty == "tagset":
            return "meets %s %s" % (env[e.left.id].lean, self.pure_tags(e.right, env))
        if isinstance(e, ast.BinOp) and isinstance(e.op, ast.BitAnd) and isinstance(e.right, ast.Name) and e.right.id in env \
                and env[e.right.id].ty == "tagset":
            return "meets %s %s" % (env[e.right.id].lean, self.pure_tags(e.left, env))
        self.bad("boolean expression", e)

    # ------------------------------------------------------------------ expressions (CPS: they may touch the storage)
    def to_res(self, v, node):
        if v.ty == "nat":
            return "Res.num %s" % v.lean
        if v.ty == "uriobj":
            return "Res.uri %s" % v.lean
        if v.ty == "pair" and v.parts[0].ty == "uriobj" and v.parts[1].ty == "tags":
            return "Res.uriMeta %s %s" % (v.parts[0].lean, v.parts[1].lean)
        if v.ty == "dict":
            return "Res.listing %s" % v.lean
        if v.ty == "none":
            return "Res.none"
        self.bad("returned value of kind %s" % v.ty, node)

    def storage_call(self, e, env, st, k):
        m = e.func.attr
        if m in ("optimized_prefix_list", "optimized_regex_list"):
            names = ["x", "return_metadata"]
            args = list(e.args)
            kws = {kw.arg: kw.value for kw in e.keywords}
            if len(args) > 2 or set(kws) - {"return_metadata"} or (len(args) == 2 and kws):
                self.bad("arguments", e)
            if len(args) < 1:
                self.bad("arguments", e)
            wm = self.pure_bool(args[1], env) if len(args) == 2 else (self.pure_bool(kws["return_metadata"], env) if kws else "false")
            x = self.pure_str(args[0], env)
            f = "S.optPrefix" if m == "optimized_prefix_list" else "S.optRegex"
            v, s1 = self.fresh("v"), self.fresh("s")
            return "call (%s %s %s) (fun %s %s => %s) %s" % (f, x, wm, v, s1, k(V(v, "optdict"), s1), st)
        if m == "optimized_metadata_search":
            if e.args:
                self.bad("positional arguments", e)
            kws = {kw.arg: kw.value for kw in e.keywords}
            which = [a for a in ("metadata_all", "metadata_any") if a in kws]
            if len(which) != 1 or set(kws) - {"metadata_all", "metadata_any", "return_metadata"}:
                self.bad("arguments", e)
            wm = self.pure_bool(kws["return_metadata"], env) if "return_metadata" in kws else "false"
            a = kws[which[0]]
            if not (isinstance(a, ast.Name) and a.id in env and env[a.id].ty == "meta" and self.notstr(env[a.id]) and self.truthy(env[a.id])):
                self.bad("metadata argument not known to be a non-empty non-str collection here", e)
            v, s1 = self.fresh("v"), self.fresh("s")
            return "call (S.optMeta %s %s.tags %s) (fun %s %s => %s) %s" % (
                "true" if which[0] == "metadata_all" else "false", env[a.id].lean, wm, v, s1, k(V(v, "optdict"), s1), st)
        if m == "everything":
            wm = self.everything_call(e, env)
            v, s1 = self.fresh("v"), self.fresh("s")
            return "call (S.everything %s) (fun %s %s => %s) %s" % (wm, v, s1, k(V(v, "dict"), s1), st)
        self.bad("storage method", e)

    def self_list_call(self, e, env):
        """`self.list(...)` -> Lean text of the call of the transcribed list method (arguments by the real signature)"""
        names = self.param_names("list")
        vals = {}
        for i, a in enumerate(e.args):
            vals[names[i]] = a
        for kw in e.keywords:
            if kw.arg not in names or kw.arg in vals:
                self.bad("arguments of self.list", e)
            vals[kw.arg] = kw.value
        defaults = self.methods["list"].args.defaults
        dn = names[len(names) - len(defaults):]
        out = []
        for n, ty in zip(names, SIGS["list"]):
            if n in vals:
                a = vals[n]
            elif n in dn:
                a = defaults[dn.index(n)]
            else:
                self.bad("missing argument of self.list", e)
            if ty == "optstr":
                if isinstance(a, ast.Constant) and a.value is None:
                    out.append("Option.none")
                elif isinstance(a, ast.Name) and a.id in env and env[a.id].ty == "optstr":
                    out.append(env[a.id].lean)
                else:
                    out.append("(some %s)" % self.pure_str(a, env))
            else:
                out.append(self.pure_bool(a, env))
        return "listSrc S env %s" % " ".join(out)

    def evalK(self, e, env, st, k):
        if isinstance(e, ast.Name):
            if e.id in env:
                return k(env[e.id], st)
            self.bad("name", e)
        if isinstance(e, ast.Constant):
            if e.value is None:
                return k(V("none", "none"), st)
            if isinstance(e.value, bool):
                return k(V("true" if e.value else "false", "bool"), st)
            if isinstance(e.value, int) and e.value >= 0:
                return k(V(str(e.value), "nat"), st)
            self.bad("constant", e)
        if isinstance(e, ast.Dict) and not e.keys:
            return k(V("([] : List Entry)", "dict"), st)
        if isinstance(e, ast.ListComp):
            # [x for x in <dict or key list> if <pure condition on x>]  - iterating a dict yields its keys
            if len(e.generators) != 1 or e.generators[0].is_async or not isinstance(e.generators[0].target, ast.Name) \
                    or not (isinstance(e.elt, ast.Name) and e.elt.id == e.generators[0].target.id) or not e.generators[0].ifs:
                self.bad("list comprehension", e)
            g = e.generators[0]

            def kk(d, s1):
                if d.ty == "dict":
                    base = "(%s.map (·.name))" % d.lean
                elif d.ty == "names":
                    base = d.lean
                else:
                    self.bad("list comprehension over something that is not a dict / key list", e)
                x = self.fresh("x")
                envx = dict(env)
                envx[g.target.id] = V(x, "str")
                for c in g.ifs:
                    base = "(%s.filter (fun %s => %s))" % (base, x, self.pure_bool(c, envx))
                return k(V(base, "names"), s1)
            return self.evalK(g.iter, env, st, kk)
        if isinstance(e, ast.DictComp):
            # {key: value for target in iter if cond}  =  acc = {}; for target in iter: if cond: acc[key] = value
            if len(e.generators) != 1 or e.generators[0].is_async:
                self.bad("dict comprehension", e)
            g = e.generators[0]
            acc = "%dictcomp"
            body = [ast.Assign(targets=[ast.Subscript(value=ast.Name(id=acc, ctx=ast.Load()), slice=e.key, ctx=ast.Store())], value=e.value)]
            for c in reversed(g.ifs):
                body = [ast.If(test=c, body=body, orelse=[])]
            loop = ast.For(target=g.target, iter=g.iter, body=body, orelse=[])
            env2 = dict(env)
            env2[acc] = V("([] : List Entry)", "dict")
            return self.for_stmt(loop, env2, st, lambda e3, s3: k(e3[acc], s3))
        if isinstance(e, ast.Tuple) and len(e.elts) == 2:
            return self.evalK(e.elts[0], env, st, lambda a, s1: self.evalK(e.elts[1], env, s1, lambda b, s2: k(V("", "pair", parts=(a, b)), s2)))
        if isinstance(e, ast.Subscript) and self.is_storage(e.value):
            def kk(key, st2):
                if key.ty != "str":
                    self.bad("storage key that is not a str", e)
                ev, s1 = self.fresh("e"), self.fresh("s")
                return "getItemK S %s (fun %s %s => %s) %s" % (key.lean, ev, s1, k(V(ev, "entry"), s1), st2)
            return self.evalK(e.slice, env, st, kk)
        if isinstance(e, ast.Attribute) and isinstance(e.value, ast.Name) and e.value.id in env and env[e.value.id].ty == "regex" \
                and e.attr == "match":
            return k(V(env[e.value.id].lean, "rematch"), st)      # the bound method `compiled.match`
        if isinstance(e, ast.Attribute):
            obj = self.try_resolve(e, env)
            if isinstance(obj, str):
                return k(V("(%s : Str)" % _lit(obj), "str"), st)
            self.bad("attribute", e)
        if isinstance(e, ast.UnaryOp) and isinstance(e.op, ast.Not):
            return self.evalK(e.operand, env, st, lambda v, s1: k(V("(!%s)" % v.lean, "bool"), s1) if v.ty == "bool" else self.bad("not of a non-bool", e))
        if isinstance(e, ast.Compare) and len(e.ops) == 1:
            op, l, r = e.ops[0], e.left, e.comparators[0]
            if isinstance(op, (ast.In, ast.NotIn)):
                neg = "!" if isinstance(op, ast.NotIn) else ""
                if self.is_storage(r):
                    def kk(key, st2):
                        if key.ty != "str":
                            self.bad("membership of a non-str in the storage", e)
                        b, s1 = self.fresh("b"), self.fresh("s")
                        return "call (S.contains %s) (fun %s %s => %s) %s" % (key.lean, b, s1, k(V("(%s%s)" % (neg, b), "bool"), s1), st2)
                    return self.evalK(l, env, st, kk)
                if isinstance(r, ast.Name) and r.id in env and env[r.id].ty == "names":
                    return k(V("(%s%s.contains %s)" % (neg, env[r.id].lean, self.pure_str(l, env)), "bool"), st)
                self.bad("membership", e)
            if isinstance(op, (ast.Eq, ast.NotEq)):
                a, b = self.pure_str(l, env), self.pure_str(r, env)
                return k(V("(%s %s %s)" % (a, "==" if isinstance(op, ast.Eq) else "!=", b), "bool"), st)
            self.bad("comparison", e)
        if isinstance(e, ast.IfExp):
            # `set(metadata) if metadata else None`
            t = e.test
            if isinstance(t, ast.Name) and t.id in env and env[t.id].ty == "meta" and isinstance(e.orelse, ast.Constant) and e.orelse.value is None:
                v = env[t.id]
                env2 = dict(env)
                env2[t.id] = V(v.lean, "meta", notstr=v.notstr, truthy=True)

                def kk(a, st2):
                    if a.ty != "tags" or st2 != st:
                        self.bad("conditional expression", e)
                    return k(V("(if %s.truthy then some %s else Option.none)" % (v.lean, a.lean), "opttags"), st)
                return self.with_fact(self.k_truthy, v.lean, lambda: self.evalK(e.body, env2, st, kk))
            self.bad("conditional expression", e)
        if isinstance(e, ast.Call):
            f = e.func
            # storage methods
            if isinstance(f, ast.Attribute) and self.is_storage(f.value):
                return self.storage_call(e, env, st, k)
            # self.list(...): another method of the name server that returns a dict
            if self.is_self_attr(f, "list"):
                l, s1 = self.fresh("l"), self.fresh("s")
                return "callDict (%s) (fun %s %s => %s) %s" % (self.self_list_call(e, env), l, s1, k(V(l, "dict"), s1), st)
            # list(<dict>.keys())  /  list(<dict>)
            if isinstance(f, ast.Name) and f.id == "list" and "list" not in env and len(e.args) == 1 and not e.keywords:
                inner = e.args[0]
                if isinstance(inner, ast.Call) and isinstance(inner.func, ast.Attribute) and inner.func.attr == "keys" \
                        and not inner.args and not inner.keywords:
                    inner = inner.func.value
                return self.evalK(inner, env, st, lambda d, s1: k(V("(%s.map (·.name))" % d.lean, "names"), s1) if d.ty == "dict"
                                  else self.bad("list() of something that is not a dict", e))
            # a private helper of the same class, or a helper function of the module: inline its body at the call site
            h = self.helper_of(f, env)
            if h is not None:
                return self.inline(h, e, env, st, k)
            if isinstance(f, ast.Name) and f.id not in env and len(e.args) == 1 and not e.keywords:
                if f.id == "len":
                    if self.is_storage(e.args[0]):
                        v, s1 = self.fresh("v"), self.fresh("s")
                        return "call S.len (fun %s %s => %s) %s" % (v, s1, k(V(v, "nat"), s1), st)
                    return self.evalK(e.args[0], env, st, lambda a, s1: k(V("%s.length" % a.lean, "nat"), s1) if a.ty == "names" else self.bad("len", e))
                if f.id == "str":
                    return self.evalK(e.args[0], env, st, lambda a, s1: k(a, s1) if a.ty == "str" else self.bad("str() of a non-str", e))
                if f.id in ("set", "frozenset"):
                    a0 = e.args[0]
                    # set(tags or [])
                    if isinstance(a0, ast.BoolOp) and isinstance(a0.op, ast.Or) and len(a0.values) == 2 \
                            and isinstance(a0.values[1], (ast.List, ast.Tuple)) and not a0.values[1].elts:
                        return k(V(self.pure_tags(a0.values[0], env), "tags"), st)
                    if isinstance(a0, ast.Name) and a0.id in env and env[a0.id].ty == "meta":
                        v = env[a0.id]
                        if not (self.notstr(v) and self.truthy(v)):
                            self.bad("set() of a metadata argument not known to be a non-empty non-str collection", e)
                        if f.id == "set":
                            return k(V("(dedup %s.tags)" % v.lean, "tags"), st)
                        return k(V("%s.tags" % v.lean, "tagset"), st)     # used for membership tests only
                    self.bad("set()", e)
                if f.id == "isinstance":
                    pass
            if isinstance(f, ast.Name) and f.id == "isinstance" and "isinstance" not in env and len(e.args) == 2 and not e.keywords:
                cls = self.resolve(e.args[1])
                if not isinstance(cls, type):
                    self.bad("isinstance with a non-class", e)
                a = e.args[0]
                if isinstance(a, ast.Name) and a.id in env:
                    v = env[a.id]
                    if v.ty == "str":
                        return k(V("true" if issubclass(str, cls) else "false", "bool"), st)
                    if v.ty == "meta" and cls is str:
                        return k(V("%s.isStr" % v.lean, "bool"), st)
                self.bad("isinstance", e)
            tgt = self.try_resolve(f, env)
            if tgt is self.core.URI and len(e.args) == 1 and not e.keywords:
                def kk(a, st2):
                    if a.ty != "str":
                        self.bad("core.URI of a non-str", e)
                    s1 = self.fresh("s")
                    return "uriK env %s (fun %s => %s) %s" % (a.lean, s1, k(V(a.lean, "uriobj"), s1), st2)
                return self.evalK(e.args[0], env, st, kk)
            self.bad("call", e)
        self.bad("expression", e)

    def helper_of(self, f, env):
        """(FunctionDef, has_self) when f names a helper method of the class / a plain function defined in the module"""
        if isinstance(f, ast.Attribute) and isinstance(f.value, ast.Name) and f.value.id == self.selfname and self.selfname is not None \
                and f.attr in self.methods and f.attr not in SIGS:
            return (self.methods[f.attr], True)
        if isinstance(f, ast.Name) and f.id not in env and f.id in self.module.__dict__:
            obj = self.module.__dict__[f.id]
            import types
            if isinstance(obj, types.FunctionType) and obj.__module__ == self.module.__name__:
                node = ast.parse(textwrap.dedent(inspect.getsource(obj))).body[0]
                if isinstance(node, ast.FunctionDef) and not node.decorator_list:
                    return (node, False)
        return None

    def inline(self, h, e, env, st, k):
        """translate the helper's body at the call site: parameters bound to the argument values, `return v`
        continues with the caller's continuation"""
        fn, has_self = h
        if fn.name in self.inlining:
            self.bad("recursive helper", e)
        a = fn.args
        if a.vararg or a.kwarg or a.kwonlyargs or a.posonlyargs:
            self.bad("helper signature", e)
        ps = [x.arg for x in a.args][1 if has_self else 0:]
        given = {}
        for i, x in enumerate(e.args):
            if i >= len(ps):
                self.bad("helper call", e)
            given[ps[i]] = x
        for kw in e.keywords:
            if kw.arg not in ps or kw.arg in given:
                self.bad("helper call", e)
            given[kw.arg] = kw.value
        dn = ps[len(ps) - len(a.defaults):] if a.defaults else []
        order = []
        for pn in ps:
            if pn in given:
                order.append((pn, given[pn], env))
            elif pn in dn:
                order.append((pn, a.defaults[dn.index(pn)], {}))
            else:
                self.bad("helper call: missing argument", e)
        depth = len(self.ret_stack)

        def retk(v, st2):
            saved = self.ret_stack[depth:]
            saved_self, saved_inl = self.selfname, list(self.inlining)
            del self.ret_stack[depth:]
            self.selfname, self.inlining = caller_self, caller_inl
            try:
                return k(v, st2)
            finally:
                self.ret_stack.extend(saved)
                self.selfname, self.inlining = saved_self, saved_inl
        caller_self, caller_inl = self.selfname, list(self.inlining)

        def bind(i, envh, st2):
            if i == len(order):
                self.ret_stack.append(retk)
                self.inlining.append(fn.name)
                old_self = self.selfname
                if not has_self:
                    self.selfname = None
                try:
                    return self.block(fn.body, envh, st2, lambda e2, s3: retk(V("none", "none"), s3))
                finally:
                    self.selfname = old_self
                    self.inlining.pop()
                    self.ret_stack.pop()
            pn, node, aenv = order[i]
            if isinstance(node, ast.Lambda):
                return bind(i + 1, dict(envh, **{pn: V("", "lambda", parts=(node, env))}), st2)
            return self.evalK(node, aenv, st2, lambda v, s3: bind(i + 1, dict(envh, **{pn: v}), s3))
        return bind(0, {}, st)


# --------------------------------------------------------------------------------------------------------
DISPATCH = """/-- the transcribed methods as one step function over the model's operations -/
def nsStepSrc {σ : Type} (S : Store σ) (env : Env) : Op → σ → Res × σ
  | .count, s => countSrc S env s
  | .lookup n wm, s => lookupSrc S env n wm s
  | .register n u safe md, s => registerSrc S env n u safe md s
  | .setMeta n md, s => setMetaSrc S env n md s
  | .remove name pfx regex, s => removeSrc S env name pfx regex s
  | .list pfx regex wm, s => listSrc S env pfx regex wm s
  | .yplookup all any wm, s => yplookupSrc S env all any wm s
"""


def translate(nameserver):
    """Lean source of PyroModel/Gen/C14Src.lean from the live module"""
    tr = Tr(nameserver, nameserver.NameServer)
    order = ["count", "lookup", "register", "set_metadata", "list", "remove", "yplookup"]
    defs = []
    for m in order:
        defs.append("/-- transcription of `NameServer.%s` -/\n%s" % (m, tr.method(m)))
    return ("-- GENERATED by harness/props/c14_tr.py from the source of Pyro5/nameserver.py (class NameServer) — do not edit\n"
            "import PyroModel.NameServer\nimport PyroModel.NsSrc\n"
            "set_option linter.unusedVariables false\nnamespace Pyro.Gen.C14Src\nopen Pyro.NS Pyro.NS.Src\n\n" + "\n".join(defs) + "\n" + DISPATCH +
            "\nend Pyro.Gen.C14Src\n")
