"""C20 — the HTTP gateway forwards only authorised requests, and forwards them faithfully.

Real side: Pyro5.utils.httpgateway.pyro_app(environ, start_response), in-process, with
  * httpgateway.get_nameserver replaced by a logging stub name server,
  * httpgateway.client replaced by a pass-through shim whose `Proxy` is a logging SUBCLASS of the real
    client.Proxy (network methods overridden, everything else — including Python attribute lookup on
    the proxy object — is the real class),
so every name-server lookup and every invocation is logged and nothing touches the network.
All requests of a run are one history against the one gateway app object; between requests the harness writes
Pyro5.config the way an embedding application would.  A second suite ("history") runs short histories against a
real Pyro daemon on loopback with the real client.Proxy (only logging added) and checks the reply bodies as JSON.
Model side: lean/PyroModel/Gateway.lean through the drv_c20 driver.
"""
import contextlib
import io
import json
import os
import re
import urllib.parse
import uuid

import common

ID = "C20"
LEAN_MODEL_TARGETS = ["drv_c20"]
LEAN_PROOF_TARGETS = ["PyroProps.C20Src", "PyroProps.C20"]
AUDIT_FILES = ["PyroModel/Bytes.lean", "PyroModel/Gateway.lean", "PyroModel/Gen/C20.lean", "PyroProofs/Gateway.lean",
               "PyroProps/C20.lean", "PyroModel/GatewaySrc.lean", "PyroModel/Gen/C20Src.lean", "PyroProps/C20Src.lean"]
THEOREMS = ["Pyro.C20.C20_no_traffic", "Pyro.C20.C20_refused", "Pyro.C20.C20_no_escape", "Pyro.C20.C20_dupkey_refused",
            "Pyro.C20.C20_actions_shape", "Pyro.C20.C20_at_most_one_invocation",
            "Pyro.C20.C20_faithful_call", "Pyro.C20.C20_faithful_attr", "Pyro.C20.C20_faithful_meta",
            "Pyro.C20.C20_unknown_member", "Pyro.C20.C20_self_param", "Pyro.C20.C20_params_exact",
            "Pyro.C20.C20_status", "Pyro.C20.C20_homepage_only_keyless",
            "Pyro.C20.C20_split_sound", "Pyro.C20.C20_split_greedy", "Pyro.C20.C20_split_complete",
            "Pyro.C20.C20_history", "Pyro.C20.C20_history_json",
            "Pyro.C20.C20_gen_facts",
            # singlyfy_parameters, process_pyro_request (up to its try block) and pyro_app transcribed from the source on every
            # run (c20_tr.py -> Gen/C20Src.lean): equal to the model for all inputs; the property restated about the transcription
            "Pyro.C20.C20_singlyfy_translated", "Pyro.C20.C20_configWrite_translated", "Pyro.C20.C20_process_translated",
            "Pyro.C20.C20_app_translated", "Pyro.C20.C20_source_no_traffic", "Pyro.C20.C20_source_refused",
            "Pyro.C20.C20_source_forwarded", "Pyro.C20.C20_source_faithful_call",
            # exactly once per request, and for every request of every history
            "Pyro.C20.C20_exactly_once", "Pyro.C20.C20_source_exactly_once", "Pyro.C20.C20_history_exactly_once"]
SUITES = ["gateway", "history"]
RULE = ("requests generated from VERIF_SEED: method x path shape (0-4 segments, doubled/encoded slashes, newline, names "
        "differing from a registered one by prefix/suffix/case, proxy-local member names) x raw query string (repeated keys, "
        "percent-encoding, $key absent/wrong/right/duplicated/encoded, 'self') x key header x options x correlation id x "
        "gateway key (none/empty/ascii/non-ascii/invalid utf-8) x expose pattern (none/empty/7 regexes) x backend script "
        "(name server down, unknown name, proxy/metadata/call failures, oneway, exception replies).  All requests of a run "
        "form ONE history against the one pyro_app object of the process: before each request other code may write "
        "Pyro5.config (SERIALIZER serpent/marshal/msgpack/json, COMMTIMEOUT, config.reset()), nothing is restored in "
        "between; the serializer in force at each invocation is observed.  Second suite: histories of 2-6 requests against "
        "a real daemon on loopback (real client.Proxy, real wire), same config writes in between plus COMPRESSION / "
        "ITER_STREAMING, incompressible payloads around the 100-byte compression threshold, iterator-valued members, two "
        "objects of same-named classes with different members; every reply must be the call's JSON value (200) or its "
        "error (500), the remote objects must have seen exactly the one expected call.  A case is non-trivial "
        "when the real gateway produced Pyro traffic (>= 1 logged action); distinct = distinct (config, request, backend)")
ASSUMPTIONS = ["environ carries REQUEST_METHOD, QUERY_STRING and wsgi.errors (PEP 3333 / wsgiref always set them) and its strings hold no lone surrogates",
               "urllib.parse.parse_qs and uuid.UUID are externals: the model receives their results",
               "re.match(pattern, name) is a deterministic function (table supplied per request); the expose pattern is a valid regex",
               "config.MAX_RETRIES = 0 (the retry loop of _RemoteMethod is C03's subject)",
               "the remote object's metadata does not list names that are attributes of client.Proxy itself"]
TRUSTED = ["the logging stubs (name server, Proxy subclass) stand for the name server, the network and the remote objects",
           "canonicalisation of HTTP replies (table of the gateway's fixed texts observed by probing, JSON bodies parsed)"]

ERR_CLASSES = ["Pyro5.errors.NamingError", "Pyro5.errors.CommunicationError", "Pyro5.errors.ConnectionClosedError",
               "Pyro5.errors.TimeoutError", "Pyro5.errors.PyroError", "builtins.RuntimeError", "builtins.KeyError",
               "builtins.ZeroDivisionError"]
BUILTIN_CLS = {"builtins.AssertionError": "assertion", "builtins.AttributeError": "attribute",
               "builtins.ValueError": "value", "builtins.TypeError": "type"}


# ----------------------------------------------------------------------------------------------
# extractor
# ----------------------------------------------------------------------------------------------
# The facts are obtained by PROBING the real pyro_app (behind the logging stubs of this module), not by reading its
# source: a fact is what the code does on a fixed table of requests, so renaming, extracting helpers, hoisting constants
# or rewriting the control flow cannot change it, while a change of behaviour does.
def _pworld(**kw):
    w = {"nsget": ["ok"], "nslist": [], "lookup": {}, "connect": {}, "bind": {}, "meta": {"methods": [], "attrs": [], "oneway": []},
         "result": ["ret", "0152"]}
    w.update(kw)
    return w


def _pcase(path, world=None, **kw):
    c = {"key": None, "pattern": None, "method": "GET", "path": path, "qs": "", "keyhdr": None, "options": None, "corr": None,
         "apptmo": 0.0, "world": world or _pworld()}
    c.update(kw)
    return c


def _body(rep):
    return b"".join(rep.get("chunks", [])) if rep.get("kind") == "http" else None


def _status(rep):
    return rep["status"] if rep.get("kind") == "http" else -1


METHOD_CANDIDATES = ["GET", "POST", "OPTIONS", "PUT", "DELETE", "HEAD", "PATCH", "get", "PTIO", ""]
SPLIT_PROBES = ["a/b", "a/b/c", "ab/cd/ef/gh", "a//b", "a/b/", "/b", "a/", "a", "//", "a/b\nc/d", "a\n/b", "a/\nb", "a/b/c\n/d/e"]
URI = "PYRO:probe@h:1"


def _substrings(line):
    return sorted({line[i:j] for i in range(len(line)) for j in range(i + 1, len(line) + 1)})


def _facts():
    """facts of the current code, by probing; raises when a probe does not give an interpretable answer"""
    f = {}
    lits = {}

    def target(rep, events):
        """(object looked up, member invoked) of one probe"""
        lk = [e[1] for e in events if e[0] == "lookup"]
        iv = [e for e in events if e[0] == "invoke"]
        if not lk:
            return None
        if len(lk) != 1 or len(iv) != 1:
            raise ValueError("probe: %d lookups / %d invocations" % (len(lk), len(iv)))
        e = iv[0]
        return lk[0], (e[4][0] if e[3] == "__getattr__" else e[3])

    def routed(path, **kw):
        line = path.split("\n", 1)[0]
        names = rmatch_names(path)
        w = _pworld(lookup={n: ["u", URI] for n in names}, meta={"methods": _substrings(line), "attrs": [], "oneway": []})
        return run_real(_pcase(path, w, **kw))

    # ---- routing: which prefix is cut off, how many characters
    cut = []
    for path in ("/pyro/AAA/BBB", "/pyro/pyro/AAA/BBB", "///pyro/AAA/BBB"):
        t = target(*routed(path))
        if t is None:
            raise ValueError("probe: %r is not forwarded" % path)
        stripped = path.lstrip("/")
        tail = t[0] + "/" + t[1]
        if not stripped.endswith(tail):
            raise ValueError("probe: %r forwarded as %r" % (path, t))
        cut.append(stripped[:len(stripped) - len(tail)])
    if len(set(cut)) != 1:
        raise ValueError("probe: inconsistent route prefix %r" % cut)
    f["routePrefix"], f["routeSlice"] = cut[0], len(cut[1])
    # ---- methods
    allowed, options = [], []
    for m in METHOD_CANDIDATES:
        rep, ev = routed("/pyro/AAA/BBB", method=m)
        if _status(rep) != 405:
            allowed.append(m)
            if not ev and _status(rep) == 200:
                options.append(m)
                lits[_body(rep)] = "optionsOk"
                st_options = _status(rep)
        else:
            lits[_body(rep)] = "notAllowed"
    if len(options) != 1:
        raise ValueError("probe: no single preflight method: %r" % options)
    f["allowedMethods"], f["optionsLiteral"] = allowed, options[0]
    rep, ev = run_real(_pcase(""))
    f["redirectTarget"] = dict(rep.get("headers", [])).get("Location", "?")
    statuses = [("notAllowed", 405), ("optionsOk", st_options)]
    rep, ev = run_real(_pcase("/nowhere/a/b"))
    lits[_body(rep)] = "notFound"
    statuses += [("notFound", _status(rep)), ("redirect", _status(run_real(_pcase("/"))[0]))]
    # ---- the split of object and member, on a table of paths
    f["splitProbes"] = [(p, target(*routed("/pyro/" + p))) for p in SPLIT_PROBES]
    # ---- key: header, parameter, removal; the two refusals cause no traffic
    w = _pworld(lookup={"AAA": ["u", URI]}, meta={"methods": ["BBB"], "attrs": ["VVV"], "oneway": []})
    K = b"K".hex()
    rep, ev = run_real(_pcase("/pyro/AAA/BBB", w, key=K, keyhdr="K"))
    hdr_key = target(rep, ev) == ("AAA", "BBB")
    rep, ev = run_real(_pcase("/pyro/AAA/BBB", w, key=K, qs="$key=K&x=1"))
    iv = [e for e in ev if e[0] == "invoke"]
    f["keyParam"] = "$key" if (len(iv) == 1 and iv[0][5] == {"x": "1"}) else "?"
    rep, ev = run_real(_pcase("/pyro/AAA/BBB", w, key=K, qs="x=1"))
    lits[_body(rep)] = "badKey"
    statuses.append(("badKey", _status(rep)))
    refusal = [("badKey", len(ev))]
    rep, ev = run_real(_pcase("/pyro/AAA/BBB", w, pattern="ZZZ"))
    lits[_body(rep)] = "denied"
    statuses.append(("denied", _status(rep)))
    refusal.append(("denied", len(ev)))
    f["refusalEvents"] = refusal
    # ---- $meta, oneway option, correlation id header
    rep, ev = run_real(_pcase("/pyro/AAA/$meta", w))
    try:
        j = json.loads(_body(rep))
    except (TypeError, ValueError):
        j = None
    f["metaMember"] = "$meta" if (j == {"methods": ["BBB"], "attributes": ["VVV"]} and not [e for e in ev if e[0] == "invoke"]) else "?"
    rep, ev = run_real(_pcase("/pyro/AAA/BBB", w, options="x,oneway"))
    iv = [e for e in ev if e[0] == "invoke"]
    hdr_ow = len(iv) == 1 and iv[0][7] is True and _status(rep) == 200 and _body(rep) == b""
    f["onewayOption"] = "oneway" if hdr_ow else "?"
    cid = "11112222-1111-2222-3333-222244449999"
    rep, ev = run_real(_pcase("/pyro/AAA/BBB", w, corr=cid))
    hdr_corr = dict(rep.get("headers", [])).get("X-Pyro-Correlation-Id") == cid
    f["headerProbes"] = [("HTTP_X_PYRO_GATEWAY_KEY", hdr_key), ("HTTP_X_PYRO_OPTIONS", hdr_ow), ("HTTP_X_PYRO_CORRELATION_ID", hdr_corr)]
    # ---- status of a forwarded call: result / exception reply
    other = []
    for res in (["ret", "0152"], ["exc", "0153"]):
        rep, ev = run_real(_pcase("/pyro/AAA/BBB", dict(w, result=res)))
        other.append(_status(rep))
    f["otherStatuses"] = sorted(set(other))
    rep, ev = run_real(_pcase("/pyro/", _pworld(nsget=["n", "o0"])))
    lits[_body(rep)] = "nsDown"
    statuses.append(("nsDown", _status(rep)))
    f["statuses"] = statuses
    f["lits"] = {k: v for k, v in lits.items() if k is not None}
    # ---- Pyro's global config at the moment pyro_app first reads the request, over a short history with foreign writes
    seen = []

    class ProbeEnviron(dict):
        def _note(self):
            E = _env()
            if not self.__dict__.get("noted"):
                self.__dict__["noted"] = True
                seen.append((str(E["config"].SERIALIZER), ms(E["config"].COMMTIMEOUT)))

        def get(self, *a):
            self._note()
            return dict.get(self, *a)

        def __getitem__(self, k):
            self._note()
            return dict.__getitem__(self, k)

        def __contains__(self, k):
            self._note()
            return dict.__contains__(self, k)

    E = _env()
    config = E["config"]
    cfg0 = (config.SERIALIZER, config.COMMTIMEOUT)
    try:
        for pert in (None, {"serializer": "serpent", "commtimeout": 0.0}, {"serializer": "msgpack", "commtimeout": 1.5},
                     {"serializer": "marshal", "commtimeout": 0.0}):
            run_real(_pcase("/pyro/AAA/BBB", w, apptmo=5.0, perturb=pert), keep_config=True, environ_cls=ProbeEnviron)
    finally:
        config.SERIALIZER, config.COMMTIMEOUT = cfg0
    f["configAtFirstRead"], f["configProbeTimeout"] = seen, 5000
    # ---- defaults of the app object (extraction is the first thing a run does; run_real always restores them)
    gw = E["gw"]
    f["defaultPattern"] = gw.pyro_app.ns_regex if isinstance(gw.pyro_app.ns_regex, str) else "?"
    f["defaultKeyIsNone"] = gw.pyro_app.gateway_key is None
    f["path"] = os.path.relpath(gw.__file__, common.REPO)
    return f


def _cpl(s):
    return "[" + ", ".join(str(ord(c)) for c in s) + "]"


def _pairs(items):
    return "[" + ", ".join("(%s, %s)" % (json.dumps(t), (str(n).lower() if isinstance(n, bool) else n)) for t, n in items) + "]"


def extract():
    f = _facts()
    # the deciding functions of the source, transcribed (c20_tr.py: sound by refusal -> Untranslatable = broken tie)
    from props import c20_tr
    common.repo_on_path()
    from Pyro5.utils import httpgateway as gw
    common.write_if_changed(os.path.join(common.LEAN, "PyroModel", "Gen", "C20Src.lean"), c20_tr.transcribe(gw, f["path"]))
    b = "true" if f["defaultKeyIsNone"] else "false"
    sp = ", ".join("(%s, %s)" % (_cpl(p), "none" if t is None else "some (%s, %s)" % (_cpl(t[0]), _cpl(t[1]))) for p, t in f["splitProbes"])
    return f"""-- GENERATED by harness/props/c20.py by probing the real pyro_app of {f["path"]} — do not edit
namespace Pyro.Gen.C20
/-- the prefix pyro_app cuts off a forwarded path (after the leading slashes), and how many characters that is -/
def routePrefix : List Nat := {_cpl(f["routePrefix"])}
def routeSlice : Nat := {f["routeSlice"]}
/-- of the candidate methods {METHOD_CANDIDATES}: those not answered 405; the one answered 200 without traffic -/
def allowedMethods : List (List Nat) := [{", ".join(_cpl(m) for m in f["allowedMethods"])}]
def optionsLiteral : List Nat := {_cpl(f["optionsLiteral"])}
/-- Location of the reply to the empty path -/
def redirectTarget : String := {json.dumps(f["redirectTarget"])}
/-- path after the prefix ↦ (object looked up, member invoked) as observed, `none` = not forwarded -/
def splitProbes : List (List Nat × Option (List Nat × List Nat)) := [{sp}]
/-- the request header is honoured (key accepted / call sent oneway / correlation id echoed) -/
def headerProbes : List (String × Bool) := {_pairs(f["headerProbes"])}
/-- the query parameter that carries the key and is not passed on; the metadata pseudo-member; the oneway option ("?" = probe failed) -/
def keyParam : List Nat := {_cpl(f["keyParam"])}
def metaMember : List Nat := {_cpl(f["metaMember"])}
def onewayOption : List Nat := {_cpl(f["onewayOption"])}
/-- status code of every fixed reply -/
def statuses : List (String × Nat) := {_pairs(f["statuses"])}
/-- status codes of a forwarded call that returned / answered with an exception -/
def otherStatuses : List Nat := {f["otherStatuses"]}
/-- number of Pyro actions caused by a request refused for its key / for the expose pattern -/
def refusalEvents : List (String × Nat) := {_pairs(f["refusalEvents"])}
def defaultPattern : String := {json.dumps(f["defaultPattern"])}
def defaultKeyIsNone : Bool := {b}
/-- (config.SERIALIZER, config.COMMTIMEOUT ms) at the moment pyro_app first reads `environ`, for four consecutive requests
    with pyro_app.comm_timeout = configProbeTimeout ms, other code writing serpent / msgpack / marshal in between -/
def configAtFirstRead : List (String × Nat) := {_pairs(f["configAtFirstRead"])}
def configProbeTimeout : Nat := {f["configProbeTimeout"]}
end Pyro.Gen.C20
"""


# ----------------------------------------------------------------------------------------------
# token encodings shared with lean/Driver/C20.lean
# ----------------------------------------------------------------------------------------------
def t_str(s):
    return ",".join(str(ord(c)) for c in s) if s else "-"


def t_strlist(l):
    return ";".join(t_str(s) for s in l) if l else "~"


def t_pval(v):
    return "s" + t_str(v) if isinstance(v, str) else "l" + t_strlist(v)


def t_params(d):
    return "&".join("%s=%s" % (t_str(k), t_pval(v)) for k, v in d.items()) if d else "~"


def t_table(items):
    items = list(items)
    return "|".join(items) if items else "~"


def cls_token(qualname):
    if qualname in BUILTIN_CLS:
        return BUILTIN_CLS[qualname]
    if qualname in ERR_CLASSES:
        return "o%d" % ERR_CLASSES.index(qualname)
    return "unknown<%s>" % qualname


def cls_of_token(tok):
    import importlib
    names = {v: k for k, v in BUILTIN_CLS.items()}
    q = names[tok] if tok in names else ERR_CLASSES[int(tok[1:])]
    mod, name = q.rsplit(".", 1)
    return getattr(importlib.import_module(mod), name)


def qual(x):
    t = x if isinstance(x, type) else type(x)
    return t.__module__ + "." + t.__name__


def rmatch_names(path):
    """every string the gateway could take for the object name: path[s:e] with s after a '/' (or 0), e at a '/' (or end)"""
    starts = [0] + [i + 1 for i, c in enumerate(path) if c == "/"]
    ends = [i for i, c in enumerate(path) if c == "/"] + [len(path)]
    out = []
    for s in starts:
        for e in ends:
            if e > s:
                n = path[s:e]
                for cand in (n, n.split("\n", 1)[0]):
                    if cand and cand not in out:
                        out.append(cand)
    return out


def model_line(case, pre=("serpent", 0.0), world=None):
    w = world if world is not None else case["world"]
    key = "none" if case["key"] is None else (case["key"] or "-")
    pat = "none" if case["pattern"] is None else t_str(case["pattern"])
    q = urllib.parse.parse_qs(case["qs"])
    query = t_table("%s:%s" % (t_str(k), t_strlist(v)) for k, v in q.items())
    corr = case["corr"]
    if not corr:
        ctok = "a"
    else:
        try:
            uuid.UUID(corr)
            ctok = "v"
        except ValueError:
            ctok = "i"
    rm = "~"
    if case["pattern"]:
        rm = t_table("%s:%d" % (t_str(n), 1 if re.match(case["pattern"], n) else 0) for n in rmatch_names(case["path"]))
    nsget = "ok" if w["nsget"][0] == "ok" else w["nsget"][0] + w["nsget"][1]
    nslist = "e" + w["nslist"]["err"] if isinstance(w["nslist"], dict) else t_strlist(w["nslist"])
    lookup = "o0/" + t_table("%s:%s" % (t_str(n), ("u" + t_str(r[1])) if r[0] == "u" else ("e" + r[1])) for n, r in w["lookup"].items())
    connect = t_table("%s:%s" % (t_str(u), c) for u, c in w["connect"].items())
    bind = t_table("%s:%s" % (t_str(u), c) for u, c in w["bind"].items())
    pyroerrs = ";".join("o%d" % i for i, q_ in enumerate(ERR_CLASSES) if q_.startswith("Pyro5.errors."))
    m = w["meta"]
    meta = "e" + m["err"] if "err" in m else "/".join(t_strlist(m[k]) for k in ("methods", "attrs", "oneway"))
    r = w["result"]
    result = "none" if r[0] == "none" else "%s:%s" % (r[0], r[1] if r[0] == "raised" else (r[1] or "-"))
    return " ".join(["req", key, pat, t_str(case["method"]), t_str(case["path"]), query, t_str(case["keyhdr"] or ""),
                     t_str(case["options"] or ""), ctok, rm, nsget, nslist, lookup, connect, pyroerrs, bind, meta, result,
                     str(pre[0]), str(ms(pre[1])), str(ms(case.get("apptmo", 0.0)))])


# ----------------------------------------------------------------------------------------------
# the real gateway behind logging stubs
# ----------------------------------------------------------------------------------------------
class _Msg:
    def __init__(self, flags, data):
        self.flags = flags
        self.data = data


class World:
    def __init__(self, spec):
        self.spec = spec
        self.events = []

    def log(self, *ev):
        self.events.append(ev)

    def maybe_raise(self, tok):
        if tok:
            raise cls_of_token(tok)("scripted failure")


_W = None
_ENV = None


def _env():
    """import the real modules once, build the stub classes"""
    global _ENV
    if _ENV is not None:
        return _ENV
    common.repo_on_path()
    from Pyro5 import client, core, config, callcontext, protocol
    from Pyro5.utils import httpgateway as gw

    class LogNS:
        def __init__(self):
            self._pyroUri = core.URI("PYRO:Pyro.NameServer@nshost:9090")

        def list(self, prefix=None, regex=None, metadata_all=None, metadata_any=None, return_metadata=False):
            _W.log("nslist", regex)
            nl = _W.spec["nslist"]
            if isinstance(nl, dict):
                _W.maybe_raise(nl["err"])
            return {n: "PYRO:listed@h:1" for n in nl}

        def _one(self, name):
            r = _W.spec["lookup"].get(name, ["e", "o0"])
            if r[0] == "e":
                raise cls_of_token(r[1])("unknown name: " + name)
            return r[1]

        def lookup(self, name):
            _W.log("lookup", name)
            return self._one(name)

        def ping(self):
            pass

        def _pyroClaimOwnership(self):
            pass

        def _pyroInvokeBatch(self, calls, oneway=False):
            _W.log("batch", [c[1][0] if (c[0] == "lookup" and len(c[1]) == 1 and not c[2]) else repr(c) for c in calls])
            out = []
            for c in calls:
                try:
                    out.append(self._one(c[1][0]))
                except Exception as x:
                    out.append(core._ExceptionWrapper(x))
                    break
            return out

    def get_nameserver():
        _W.log("gns")
        g = _W.spec["nsget"]
        if g[0] != "ok":
            _W.maybe_raise(g[1])
        return LogNS()

    class LogProxy(client.Proxy):
        """the real Proxy class with the methods that would use the network replaced by logging scripts"""

        def __init__(self, uri):
            _W.log("connect", str(uri))
            _W.maybe_raise(_W.spec["connect"].get(str(uri)))
            super().__init__(uri)

        def __del__(self):
            pass

        def _set_meta(self):
            m = _W.spec["meta"]
            self._pyroMethods = set(m.get("methods", []))
            self._pyroAttrs = set(m.get("attrs", []))
            self._pyroOneway = set(m.get("oneway", []))

        def _pyroGetMetadata(self, objectId=None, known_metadata=None):
            _W.log("getmeta", str(self._pyroUri))
            _W.maybe_raise(_W.spec["meta"].get("err"))
            self._set_meta()

        def _pyroBind(self):
            _W.log("bind", str(self._pyroUri))
            _W.maybe_raise(_W.spec["bind"].get(str(self._pyroUri)))
            if "err" not in _W.spec["meta"]:
                self._set_meta()
            return True

        def _pyroRelease(self):
            _W.log("release", str(self._pyroUri))

        def _pyroInvoke(self, methodname, vargs, kwargs, flags=0, objectId=None):
            oneway = methodname in self._pyroOneway
            # the serializer the real Proxy._pyroInvoke would use for this call (client.py: `self._pyroSerializer or config.SERIALIZER`)
            _W.log("invoke", str(self._pyroUri), objectId, methodname, vargs, kwargs, flags, oneway,
                   self._pyroSerializer or config.SERIALIZER)
            if oneway:
                return None
            r = _W.spec["result"]
            if r[0] == "raised":
                _W.maybe_raise(r[1])
            if r[0] == "none":
                return None
            return _Msg(protocol.FLAGS_EXCEPTION if r[0] == "exc" else 0, bytes.fromhex(r[1]))

        # only reachable when the gateway resolves the member name on the proxy object itself
        def _pyroReconnect(self, tries=100000000):
            _W.log("local", "_pyroReconnect")

        def _pyroInvokeBatch(self, calls, oneway=False):
            _W.log("local", "_pyroInvokeBatch")

        def _pyroClaimOwnership(self):
            _W.log("local", "_pyroClaimOwnership")

        def _pyroValidateHandshake(self, response):
            _W.log("local", "_pyroValidateHandshake")

        def _Proxy__pyroCreateConnection(self, *a, **kw):
            _W.log("local", "__pyroCreateConnection")
            return False

    class ClientShim:
        Proxy = LogProxy

        def __getattr__(self, name):
            return getattr(client, name)

    _ENV = dict(gw=gw, client=client, core=core, config=config, callcontext=callcontext, shim=ClientShim(),
                get_nameserver=get_nameserver,
                proxy_names=sorted(set(dir(client.Proxy)) | set(vars(client.Proxy("PYRO:x@h:1")))))
    return _ENV


def ms(t):
    return int(round(float(t or 0.0) * 1000))


PRIME = {"key": None, "pattern": None, "method": "GET", "path": "/", "qs": "", "keyhdr": None, "options": None, "corr": None,
         "world": {"nsget": ["ok"], "nslist": [], "lookup": {}, "connect": {}, "bind": {}, "meta": {"methods": [], "attrs": [], "oneway": []},
                   "result": ["none"]}}


def apply_perturb(config, p):
    """other code in the process writes Pyro5.config (p = {"serializer":.., "commtimeout":..} or {"reset": true})"""
    if not p:
        return
    if p.get("reset"):
        config.reset()
    else:
        config.SERIALIZER = p["serializer"]
        config.COMMTIMEOUT = float(p["commtimeout"])     # (replay files carry floats as text)
    # deployment settings of the Pyro wire (histories against the real daemon only)
    if "compression" in p:
        config.COMPRESSION = bool(p["compression"])
    if "iter_streaming" in p:
        config.ITER_STREAMING = bool(p["iter_streaming"])


def run_real(case, keep_config=False, prime=False, shim=None, world=None, environ_cls=dict):
    """-> (reply dict, events).  One request against THE gateway app object of this process.
    keep_config: leave Pyro5.config as the request left it (the caller runs a history and restores at its end);
    prime: handle one unrelated request first (replay of a failure that needs a history);
    case["perturb"]: what other code writes into Pyro5.config just before this request."""
    global _W
    E = _env()
    gw, config, cc = E["gw"], E["config"], E["callcontext"]
    cfg0 = (config.SERIALIZER, config.COMMTIMEOUT)
    if prime:
        run_real(PRIME, keep_config=True)
    apply_perturb(config, case.get("perturb"))
    saved = (gw.get_nameserver, gw.client, gw.pyro_app.gateway_key, gw.pyro_app.ns_regex, gw.pyro_app.cors,
             gw.pyro_app.comm_timeout, cc.current_context.correlation_id, gw._nameserver)
    pre = (config.SERIALIZER, config.COMMTIMEOUT)
    _W = World(world if world is not None else case["world"])
    environ = environ_cls({"REQUEST_METHOD": case["method"], "PATH_INFO": case["path"], "QUERY_STRING": case["qs"],
                           "wsgi.errors": io.StringIO(), "SERVER_NAME": "gw", "SERVER_PORT": "8080"})
    if case["keyhdr"] is not None:
        environ["HTTP_X_PYRO_GATEWAY_KEY"] = case["keyhdr"]
    if case["options"] is not None:
        environ["HTTP_X_PYRO_OPTIONS"] = case["options"]
    if case["corr"] is not None:
        environ["HTTP_X_PYRO_CORRELATION_ID"] = case["corr"]
    started = []
    rep = {}
    try:
        gw.get_nameserver = E["get_nameserver"]
        gw.client = shim or E["shim"]
        gw.pyro_app.comm_timeout = float(case.get("apptmo", 0.0))
        gw.pyro_app.gateway_key = None if case["key"] is None else bytes.fromhex(case["key"])
        gw.pyro_app.ns_regex = case["pattern"]
        gw.pyro_app.cors = ""
        try:
            with contextlib.redirect_stdout(io.StringIO()):     # the gateway print()s name server errors
                chunks = gw.pyro_app(environ, lambda s, h: started.append((s, h)))
                chunks = list(chunks)
            rep = {"kind": "http", "status": int(started[-1][0].split()[0]) if started else -1,
                   "headers": started[-1][1] if started else [], "chunks": chunks, "nstart": len(started)}
        except Exception as x:
            rep = {"kind": "escaped", "cls": qual(x), "msg": str(x)[:200], "nstart": len(started)}
    finally:
        (gw.get_nameserver, gw.client, gw.pyro_app.gateway_key, gw.pyro_app.ns_regex, gw.pyro_app.cors,
         gw.pyro_app.comm_timeout, cc.current_context.correlation_id, gw._nameserver) = saved
        rep["pre"], rep["post"] = pre, (config.SERIALIZER, config.COMMTIMEOUT)
        if not keep_config:
            config.SERIALIZER, config.COMMTIMEOUT = cfg0
    ev = _W.events
    _W = None
    return rep, ev


def canon_action(ev):
    k = ev[0]
    if k == "gns":
        return "gns"
    if k == "nslist":
        return "nslist:" + ("none" if ev[1] is None else t_str(ev[1]))
    if k == "lookup":
        return "lookup:" + t_str(ev[1])
    if k == "batch":
        return "batch:" + t_strlist(ev[1])
    if k in ("connect", "bind", "getmeta", "release"):
        return "%s:%s" % (k, t_str(ev[1]))
    if k == "invoke":
        _, uri, oid, name, vargs, kwargs, flags, ow = ev[:8]
        if oid is None and flags == 0 and name == "__getattr__" and isinstance(vargs, tuple) and len(vargs) == 1 \
                and isinstance(vargs[0], str) and not kwargs:
            return "getattr:%s:%s" % (t_str(uri), t_str(vargs[0]))
        if oid is None and flags == 0 and isinstance(vargs, tuple) and not vargs and isinstance(kwargs, dict) and \
                all(isinstance(v, str) or (isinstance(v, list) and all(isinstance(i, str) for i in v)) for v in kwargs.values()):
            return "call:%s:%s:%d:%s" % (t_str(uri), t_str(name), ow, t_params(kwargs))
        return "foreign-invoke<%r>" % (ev[1:],)
    return "local<%s>" % ev[1]


_LITS = None


def _lits():
    """the gateway's fixed reply texts, as observed by the probes (today's texts if the probes fail: step A reports that)"""
    global _LITS
    if _LITS is None:
        try:
            _LITS = _facts()["lits"]
        except Exception:
            _LITS = {b"Error 405: Method Not Allowed": "notAllowed", b"200 OK": "optionsOk", b"Error 404: Not Found": "notFound",
                     b"403 Forbidden - incorrect gateway api key": "badKey",
                     b"403 Forbidden - access to the requested object has been denied": "denied",
                     b"Cannot connect to the Pyro name server. Is it running? Refresh page to retry.": "nsDown"}
    return _LITS


def canon_reply(case, rep):
    if rep["kind"] == "escaped":
        return "escaped " + cls_token(rep["cls"])
    hd = dict(rep["headers"])
    ct = hd.get("Content-Type")
    ctype = {None: "none", "text/plain": "plain", "text/html": "html", "application/json; charset=utf-8": "json"}.get(ct, "ctype<%s>" % ct)
    corr = 1 if "X-Pyro-Correlation-Id" in hd else 0
    chunks = rep["chunks"]
    if not chunks:
        body = "empty"
    else:
        data = b"".join(chunks)
        r = case["world"]["result"]
        if ctype == "plain":
            body = "lit:" + _lits().get(data, "?" + data.hex())
        elif ctype == "html":
            rows = []
            for row in data.decode("utf-8").split("<tr><td>")[1:]:
                m = re.match(r"<a href=\"javascript:void\(\);\" onclick=\"pyro_call\('(.*?)','\$meta'\); return false;\">", row, re.S)
                cells = row.split("</td><td>")
                rows.append("%s+%d" % (t_str(m.group(1)) if m else "?", 0 if cells[1].startswith("??error:") else 1))
            body = "home:" + (";".join(rows) if rows else "~")
        elif r[0] in ("ret", "exc") and data == bytes.fromhex(r[1]) and len(chunks) == 1:
            body = "raw:" + (data.hex() or "-")
        else:
            try:
                j = json.loads(data.decode("utf-8"))
            except ValueError:
                j = None
            if isinstance(j, dict) and set(j) == {"methods", "attributes"}:
                body = "meta:%s/%s" % (t_strlist(sorted(j["methods"])), t_strlist(sorted(j["attributes"])))
            elif isinstance(j, dict) and j.get("__exception__"):
                body = "error:" + cls_token(j["__class__"])
            else:
                body = "body?" + data.hex()
    return "%d %s %d %s" % (rep["status"], ctype, corr, body)


def canon(case, rep, events):
    acts = " ".join(canon_action(e) for e in events)
    return canon_reply(case, rep) + (" # " + acts if acts else " #") + " cfg:%s:%d" % (rep["post"][0], ms(rep["post"][1]))


# ----------------------------------------------------------------------------------------------
# generator
# ----------------------------------------------------------------------------------------------
KEYS = [None, None, None, "", b"secret".hex(), b"secret".hex(), b"K".hex(), "clé".encode().hex(), b"\xff\xfe".hex(), b"a b".hex()]
PATTERNS = [r"http\.", r"http\.", r"http\.", None, "", r"http\.[a-z]+$", r"(?i)pub", r".*", r"x", r"[^/]+$", r"http\.a|secret"]
NAMES = ["http.a", "http.b", "http.ab", "http.a/b", "Http.a", "xhttp.a", "http.", "secret.obj", "Pyro.NameServer", "pub", "PUB2", "x", "http.a b"]
SAFE_LIST_NAMES = ["http.a", "http.b", "http.ab", "Http.a", "xhttp.a", "http.zz", "secret.obj", "Pyro.NameServer", "pub", "PUB2",
                   "x", "http.c1", "http.c2", "http.c3", "http.c4", "http.c5", "http.c6"]
METHODS = ["echo", "list", "lookup", "error", "m", "hello_world", "Echo2", "oneway_m"]
ATTRS = ["value", "count", "a"]
PARAM_KEYS = ["a", "b", "name", "x y", "$key", "self", "é", "message", "objectId", "methodname", "vargs", "kwargs"]
VALUES = ["1", "hello", "", "a b", "x&y", "é€", "%", "secret", "K", "wrong", "a/b", "$meta"]
HTTP_METHODS = ["GET"] * 40 + ["POST"] * 14 + ["OPTIONS", "PUT", "DELETE", "HEAD", "get", "", "OPTION", "PTIO", "GETX", "PATCH"]


def _pick_result(rng):
    r = rng.random()
    data = (b"\x01R" + rng.randbytes(rng.choice([0, 1, 4, 9]))).hex()
    if r < 0.55:
        return ["ret", data]
    if r < 0.8:
        return ["exc", data]
    if r < 0.92:
        return ["raised", rng.choice(["o1", "o2", "o3", "o5", "value", "type", "o6"])]
    return ["none"]


def _variant(rng, name):
    r = rng.random()
    if r < 0.25:
        return name[:-1] or "q"
    if r < 0.5:
        return name + rng.choice(["x", ".", "/", " "])
    if r < 0.75:
        return name.swapcase()
    return rng.choice(["x", "z"]) + name


def _enc(rng, s, safe=""):
    """percent-encode a string the way a client might (sometimes fully, sometimes not at all)"""
    mode = rng.random()
    if mode < 0.5:
        return urllib.parse.quote(s, safe=safe)
    if mode < 0.7:
        return "".join("%%%02X" % b for b in s.encode("utf-8"))
    if mode < 0.85:
        return urllib.parse.quote_plus(s)
    return s.replace("&", "%26").replace("=", "%3D").replace("#", "%23")


def gen_case(rng, proxy_names):
    key = rng.choice(KEYS)
    pattern = rng.choice(PATTERNS)
    # ---- backend script
    registered = rng.sample(NAMES, rng.randint(3, len(NAMES)))
    if "http.a" not in registered:
        registered.append("http.a")
    lookup = {}
    for i, n in enumerate(registered):
        lookup[n] = ["u", "PYRO:obj%d@h%d:%d" % (i, i, 4000 + i)] if rng.random() < 0.93 else ["e", rng.choice(["o0", "o1", "o5"])]
    methods = sorted(rng.sample(METHODS, rng.choice([0, 2, 3, 5, len(METHODS)])))
    attrs = sorted(rng.sample(ATTRS, rng.randint(0, len(ATTRS))))
    oneway = sorted(m for m in methods if m == "oneway_m" or rng.random() < 0.1)
    meta = {"methods": methods, "attrs": attrs, "oneway": oneway} if rng.random() < 0.95 else {"err": rng.choice(["o1", "o3", "o5"])}
    uris = [r[1] for r in lookup.values() if r[0] == "u"]
    world = {
        "nsget": ["ok"] if rng.random() < 0.94 else [rng.choice(["n", "n", "e"]), None],
        "nslist": rng.sample(SAFE_LIST_NAMES, rng.choice([0, 1, 3, 9, 10, 11, 14])) if rng.random() < 0.95 else {"err": rng.choice(["o1", "o5"])},
        "lookup": lookup,
        "connect": {u: rng.choice(["o4", "o1", "value"]) for u in uris if rng.random() < 0.04},
        "bind": {},
        "meta": meta,
        "result": _pick_result(rng),
    }
    if world["nsget"][0] == "n":
        world["nsget"][1] = "o0"
    elif world["nsget"][0] == "e":
        world["nsget"][1] = rng.choice(["o1", "o5"])
    # ---- path
    shape = rng.random()
    exposed = [n for n in registered if not pattern or re.match(pattern, n)]
    r = rng.random()
    if r < 0.6 and exposed:
        obj = rng.choice(exposed)
    elif r < 0.8:
        obj = rng.choice(registered)
    else:
        obj = _variant(rng, rng.choice(exposed or registered))
    r = rng.random()
    if r < 0.48 and methods:
        member = rng.choice(methods)
    elif r < 0.62 and attrs:
        member = rng.choice(attrs)
    elif r < 0.70:
        member = "$meta"
    elif r < 0.82:
        member = rng.choice(proxy_names + ["_pyroInvoke", "_pyroRelease", "_pyroBind", "_pyroReconnect", "_pyroUri", "__class__"])
    elif r < 0.92:
        member = _variant(rng, rng.choice(METHODS + ATTRS + ["$meta"]))
    else:
        member = rng.choice(["nosuch", "__getattr__", "a.b", "$key", "self", "echo/"])
    if shape < 0.66:
        path = "/pyro/%s/%s" % (obj, member)
    elif shape < 0.72:
        path = rng.choice(["", "/", "//", "/pyro", "/pyro/", "//pyro/", "/pyro//", "///pyro/", "pyro/", "/index.html", "/pyro/\n"])
    elif shape < 0.76:
        path = rng.choice(["/pyro/%s", "/pyro/%s/", "/pyro//%s", "/pyro/%s//", "/pyro/\n%s/m", "/pyro/%s\n/m"]) % obj
    elif shape < 0.82:
        path = rng.choice(["/pyrox/%s/%s", "/Pyro/%s/%s", "/x/pyro/%s/%s", "/pyro%s/%s", "pyro/%s/%s", "//pyro/%s/%s"]) % (obj, member)
    elif shape < 0.90:
        path = rng.choice(["/pyro/%s/%s/", "/pyro/%s/%s/extra", "/pyro/%s//%s", "/pyro/%s/%s\nrest/x", "/pyro/%s/%s\n", "/pyro/a/%s/%s",
                           "/pyro/%s/\n%s", "/pyro/%s/x/%s"]) % (obj, member)
    else:
        segs = [rng.choice(["a", "b", "", "http.a", "pyro", "\n", "x y", obj, member]) for _ in range(rng.randint(0, 4))]
        path = rng.choice(["/", "", "/pyro/", "//pyro/"]) + "/".join(segs)
    # homepage variants get bind failures now and then
    if path.lstrip("/") == "pyro/":
        for n in world["nslist"] if isinstance(world["nslist"], list) else []:
            if rng.random() < 0.6:
                world["lookup"].setdefault(n, ["u", "PYRO:l%d@lh:%d" % (len(world["lookup"]), 5000 + len(world["lookup"]))]
                                           if rng.random() < 0.95 else ["e", rng.choice(["o0", "o1"])])
        for r_ in list(world["lookup"].values()):
            if r_[0] == "u" and rng.random() < 0.12:
                world["bind"][r_[1]] = rng.choice(["o1", "o4", "o2", "o5"])
            if r_[0] == "u" and rng.random() < 0.05:
                world["connect"][r_[1]] = rng.choice(["o4", "o5"])
    # ---- query string
    parts = []
    for _ in range(rng.choice([0, 0, 0, 1, 1, 2, 3, 5])):
        k = rng.choice(PARAM_KEYS[:4] + PARAM_KEYS[6:8]) if rng.random() < 0.85 else rng.choice(PARAM_KEYS)
        v = rng.choice(VALUES)
        parts.append((k, v))
        if rng.random() < 0.2:
            parts.append((k, rng.choice(VALUES)))
    keytext = None
    if key:
        try:
            keytext = bytes.fromhex(key).decode("utf-8")
        except UnicodeDecodeError:
            keytext = None
    right = keytext if keytext is not None else "secret"
    dupkey = False
    if rng.random() < 0.62:
        # present the right key: header, $key, or both
        where = rng.choice(["hdr", "hdr", "qs", "qs", "both", "hdr+wrongqs"])
        keyhdr = right if where in ("hdr", "both", "hdr+wrongqs") else rng.choice([None, None, ""])
        if where in ("qs", "both"):
            parts.insert(rng.randint(0, len(parts)), ("$key", right))
        if where == "hdr+wrongqs":
            parts.insert(rng.randint(0, len(parts)), ("$key", "wrong"))
            if rng.random() < 0.4:
                parts.insert(rng.randint(0, len(parts)), ("$key", "other"))
    else:
        kmode = rng.random()
        keyhdr = rng.choice([None, None, None, "", "wrong", right + " ", right.swapcase(), right[:-1]])
        if kmode < 0.25:
            pass
        elif kmode < 0.5:
            parts.insert(rng.randint(0, len(parts)), ("$key", rng.choice(["wrong", right + "x", right[:-1], right.upper(), "", right])))
        elif kmode < 0.9:
            dupkey = True
            a, b = rng.choice([(right, right), (right, "wrong"), ("wrong", right), ("a", "b")])
            parts.insert(rng.randint(0, len(parts)), ("$key", a))
            parts.insert(rng.randint(0, len(parts)), ("$key", b))
            if rng.random() < 0.7:
                keyhdr = rng.choice([None, ""])
        else:
            keyhdr = right if rng.random() < 0.5 else None
    qs_items = []
    for k, v in parts:
        ek = _enc(rng, k, safe="$") if rng.random() < 0.8 else _enc(rng, k)
        qs_items.append(ek if (v == "" and rng.random() < 0.3) else ek + "=" + _enc(rng, v))
    qs = "&".join(qs_items)
    if rng.random() < 0.03:
        qs += rng.choice(["&", "&&a", "&=5", "&%zz=1", "&a=%ff"])
    options = rng.choice([None] * 8 + ["oneway", "oneway", "oneway,x", " oneway", "x,oneway", "ONEWAY", "onewayx", "", ",", "a,,oneway"])
    corr = rng.choice([None] * 14 + ["", "11112222-1111-2222-3333-222244449999", "11112222-1111-2222-3333-222244449999", "zzz", "{11112222-1111-2222-3333-222244449999}",
                                    "urn:uuid:11112222111122223333222244449999", "1111"])
    return {"key": key, "pattern": pattern, "method": rng.choice(HTTP_METHODS), "path": path, "qs": qs, "keyhdr": keyhdr,
            "options": options, "corr": corr, "world": world}


# ----------------------------------------------------------------------------------------------
# the property itself, on the real outcome (independent of the model)
# ----------------------------------------------------------------------------------------------
def check_property(ctx, case, rep, events):
    E = _env()
    key = None if case["key"] is None else bytes.fromhex(case["key"])
    pattern = case["pattern"]
    stripped = case["path"].lstrip("/")
    under = stripped.startswith("pyro/")
    rest = stripped[5:] if under else None
    homepage = under and rest == "" and case["method"] in ("GET", "POST")
    q = urllib.parse.parse_qs(case["qs"])
    kv = q.get("$key", [])
    presented = case["keyhdr"] or (kv[0] if len(kv) == 1 else (None if kv else ""))
    key_ok = (not key) or (isinstance(presented, str) and presented.encode("utf-8") == key)
    line = (rest or "").split("\n", 1)[0]
    splits = [(line[:i], line[i + 1:]) for i, c in enumerate(line) if c == "/" and 0 < i < len(line) - 1]
    pat_ok = [s for s in splits if not pattern or re.match(pattern, s[0])]
    authorised = under and case["method"] in ("GET", "POST") and key_ok and bool(pat_ok)
    dup = len(kv) >= 2 and not case["keyhdr"]

    def fail(sig, desc):
        ctx.fail(sig, desc + " | %s %r ?%s key=%r pattern=%r" % (case["method"], case["path"], case["qs"], key, pattern), case)

    if homepage:
        # the one keyless exception: it may list names, it never invokes anything
        bad = [e for e in events if e[0] in ("invoke", "local", "lookup")]
        if bad:
            fail("homepage-invokes", "the index page caused %r" % (bad[0],))
        return
    locals_ = [e for e in events if e[0] == "local" or (e[0] == "invoke" and canon_action(e).startswith("foreign"))]
    if locals_:
        fail("proxy-local-member", "the member name was resolved on the gateway's own proxy object: %r" % (locals_[0],))
        return
    if rep["kind"] == "escaped":
        if dup and key:
            fail("duplicate-key-uncaught", "a repeated $key parameter escapes pyro_app as %s instead of a 403" % rep["cls"])
        else:
            fail("exception-escapes", "%s(%s) escapes pyro_app" % (rep["cls"], rep["msg"]))
        return
    status = rep["status"]
    if not authorised:
        if events:
            why = ("is not under /pyro/" if not under else "is not a GET or POST" if case["method"] not in ("GET", "POST") else
                   "does not present the gateway key" if not key_ok else "names no object matching the expose pattern")
            fail("traffic-unauthorised", "Pyro traffic %r for a request that %s" % (events[0], why))
        if under and rest and not (status in (403, 404, 405) or (case["method"] == "OPTIONS" and status == 200)):
            fail("unauthorised-not-refused", "status %d for an unauthorised call request" % status)
        return
    # authorised from here on: whatever happens must concern the named object / member only
    lookups = [e[1] for e in events if e[0] == "lookup"]
    invokes = [e for e in events if e[0] == "invoke"]
    if len(lookups) > 1 or len(invokes) > 1:
        fail("more-than-once", "%d lookups, %d invocations for one request" % (len(lookups), len(invokes)))
        return
    if not lookups:
        if invokes:
            fail("invoke-without-lookup", "invocation without a name lookup")
        return
    name = lookups[0]
    if not line.startswith(name + "/") or (pattern and not re.match(pattern, name)) or len(line) <= len(name) + 1:
        fail("wrong-object", "looked up %r" % name)
        return
    member = line[len(name) + 1:]
    target = case["world"]["lookup"].get(name, ["e"])
    exp_params = {k: (v[0] if len(v) == 1 else v) for k, v in q.items() if not (key and k == "$key")}
    m = case["world"]["meta"]
    if invokes:
        _, uri, oid, mname, vargs, kwargs, flags, ow = invokes[0][:8]
        if target[0] != "u" or uri != target[1]:
            fail("wrong-object", "invocation sent to %r, the name %r resolves to %r" % (uri, name, target))
            return
        if mname == "__getattr__":
            if vargs != (member,) or member not in m.get("attrs", []) or exp_params:
                fail("wrong-member", "attribute read %r for member %r (params %r)" % (vargs, member, exp_params))
                return
        else:
            if mname != member or member not in m.get("methods", []) or vargs != ():
                fail("wrong-member", "invoked %r%r for member %r" % (mname, vargs, member))
                return
            if kwargs != exp_params:
                fail("wrong-parameters", "invoked with %r, the query parameters are %r" % (kwargs, exp_params))
                return
        if invokes[0][8] != "json":
            fail("call-not-json", "the forwarded call was made with serializer %r (after an earlier request, other code in the process "
                 "had left Pyro5.config.SERIALIZER = %r): the HTTP client would not receive the call's JSON result"
                 % (invokes[0][8], rep.get("pre", ("?",))[0]))
            return
        # the HTTP client receives that call's answer
        r = case["world"]["result"]
        body = b"".join(rep["chunks"])
        ow_opt = "oneway" in (case["options"] or "").split(",")
        if ow:                                   # sent oneway: there is no answer
            ok = status == 200 and body == b""
        elif r[0] == "raised":                   # the invocation itself failed: its error, as a 500
            ok = status == 500 and cls_token(json.loads(body).get("__class__", "?")) == r[1]
        elif ow_opt or r[0] == "none":
            ok = status == 200 and body == b""
        elif r[0] == "ret":
            ok = status == 200 and body == bytes.fromhex(r[1])
        else:
            ok = status == 500 and body == bytes.fromhex(r[1])
        if not ok:
            fail("wrong-answer", "call answered %s, HTTP client received %d %r" % (r, status, body[:60]))
        if status == 200 and case["corr"]:
            try:
                want = str(uuid.UUID(case["corr"]))
            except ValueError:
                want = None
            if dict(rep["headers"]).get("X-Pyro-Correlation-Id") != want:
                fail("wrong-correlation-id", "correlation id of the request not echoed")
        return
    # no invocation although authorised
    if status not in (200, 500):
        fail("authorised-not-forwarded", "status %d for an authorised call request" % status)
        return
    if member == "$meta":
        if status == 200:
            j = json.loads(b"".join(rep["chunks"]))
            if sorted(j["methods"]) != sorted(m.get("methods", [])) or sorted(j["attributes"]) != sorted(m.get("attrs", [])):
                fail("wrong-meta", "$meta reported %r" % j)
        return
    if status == 200:
        sig = "proxy-local-member" if member in E["proxy_names"] else "ok-without-call"
        fail(sig, "200 answered for member %r although nothing was invoked on the remote object" % member)
        return
    # 500 without invocation: must be explained by the backend script or by the request itself
    plain = (case["world"]["nsget"][0] == "ok" and target[0] == "u" and target[1] not in case["world"]["connect"] and "err" not in m)
    corr_bad = False
    if case["corr"]:
        try:
            uuid.UUID(case["corr"])
        except ValueError:
            corr_bad = True
    if plain and not corr_bad:
        if member in m["methods"] and member not in m["attrs"] and "self" not in exp_params:
            fail("call-not-forwarded", "authorised call of existing method %r was not forwarded (status 500)" % member)
        elif member in m["attrs"] and not exp_params:
            fail("call-not-forwarded", "authorised read of existing attribute %r was not forwarded (status 500)" % member)


# ----------------------------------------------------------------------------------------------
def _corpus(kind="case"):
    d = os.path.join(common.VERIF, "corpus", "C20")
    out = []
    if os.path.isdir(d):
        for fn in sorted(os.listdir(d)):
            if fn.endswith(".json"):
                j = json.load(open(os.path.join(d, fn)))
                if kind in j:
                    out.append(j[kind])
    return out


SERIALIZERS = ["serpent", "marshal", "msgpack", "json"]


def gen_perturb(rng, timeouts=(0.0, 1.5, 30.0)):
    """what other code in the process does to Pyro5.config before the next request (None = nothing)"""
    r = rng.random()
    if r < 0.45:
        return None
    if r < 0.52:
        return {"reset": True}
    return {"serializer": rng.choice(SERIALIZERS), "commtimeout": rng.choice(timeouts)}


def _account(ctx, c, rep, events, real):
    ctx.evaluations += 1
    toks = real.split(" #")[0].split()
    ctx.count("reply:escaped" if toks[0] == "escaped" else "reply:%s:%s" % (
        toks[0], toks[3] if toks[3].startswith(("error:", "lit:")) else "body?" if toks[3].startswith("body?") else toks[3].split(":")[0]))
    for e in events:
        ctx.count("action:" + e[0])
    ctx.count("config-before:%s" % (rep["pre"][0],))
    if events:
        ctx.nontriv((c["key"], c["pattern"], c["method"], c["path"], c["qs"], c["keyhdr"], c["options"], c["corr"], real))


def _run(ctx, name, n, do_model):
    """ONE history against the one gateway app object of this process: the corpus, then n generated requests; before each
    request other code may write Pyro5.config (seeded), nothing is restored until the end."""
    E = _env()
    config = E["config"]
    rng = ctx.sub_rng(name)
    prng = ctx.sub_rng(name + "/perturb")
    cases = _corpus() + [gen_case(rng, E["proxy_names"]) for _ in range(n)]
    lines, reals = [], []
    cfg0 = (config.SERIALIZER, config.COMMTIMEOUT)
    try:
        for c in cases:
            if "perturb" not in c:
                c["perturb"] = gen_perturb(prng)
                c["apptmo"] = prng.choice([0.0, 2.5, 5.0])
            rep, events = run_real(c, keep_config=True)
            # for replay: the configuration this request found (whoever wrote it, however long ago)
            c["perturb"] = {"serializer": rep["pre"][0], "commtimeout": rep["pre"][1]}
            real = canon(c, rep, events)
            reals.append(real)
            _account(ctx, c, rep, events, real)
            if len(ctx.samples) < 6 and any(e[0] == "invoke" for e in events) and len(c["path"]) < 30:
                ctx.sample({"request": "%s %s?%s" % (c["method"], c["path"], c["qs"]), "key": c["key"], "pattern": c["pattern"],
                            "config written by other code before": c["perturb"], "real": real})
            check_property(ctx, c, rep, events)
            if do_model:
                lines.append(model_line(c, rep["pre"]))
    finally:
        config.SERIALIZER, config.COMMTIMEOUT = cfg0
    if do_model:
        outs = common.run_driver("drv_c20", lines)
        ctx.corr_cases += len(lines)
        for c, l, r, m in zip(cases, lines, reals, outs):
            if r != m:
                ctx.mismatch("gateway", {"case": c, "line": l[:800]}, r[:600], m[:600])


# ----------------------------------------------------------------------------------------------
# histories against a REAL daemon on loopback: real client.Proxy, real wire, real serializers
# ----------------------------------------------------------------------------------------------
_HIST = None

# the objects behind the real daemon: name in the name server -> object id, exposed methods, exposed attributes.
# svcA / svcB are instances of two DIFFERENT classes made by one factory (same __module__ and __qualname__,
# different members), thing has members whose value is an iterator and a member returning text zlib cannot shrink.
REAL_OBJECTS = {
    "http.thing": {"id": "thing", "methods": ["describe", "echo", "fail", "numbers", "token"], "attrs": ["feed", "value"]},
    "http.svcA": {"id": "svcA", "methods": ["alpha", "ping"], "attrs": ["va"]},
    "http.svcB": {"id": "svcB", "methods": ["beta", "ping"], "attrs": ["vb"]},
}


def token(n):
    """deterministic high-entropy text of n characters (base64 of a hash chain): deflate does not make it smaller"""
    import base64
    import hashlib
    out, h = "", b"c20"
    while len(out) < n:
        h = hashlib.sha256(h).digest()
        out += base64.b64encode(h).decode("ascii").rstrip("=")
    return out[:n]


def _hist_env():
    """a real Pyro daemon (127.0.0.1, own thread) with the REAL_OBJECTS, and a logging subclass of the real Proxy
    that changes nothing (every method calls the real one)"""
    global _HIST
    if _HIST is not None:
        return _HIST
    import threading
    E = _env()
    client, config = E["client"], E["config"]
    from Pyro5 import server

    calls = []

    @server.expose
    class Thing(object):
        def echo(self, **kw):
            calls.append(("thing", "echo", kw))
            return kw

        def describe(self, name):
            calls.append(("thing", "describe", {"name": name}))
            return {"name": name, "tags": ["a", "b"], "size": 3}

        def fail(self, **kw):
            calls.append(("thing", "fail", kw))
            raise ValueError("scripted failure")

        def token(self, n):
            calls.append(("thing", "token", {"n": n}))
            return token(int(n))

        def numbers(self, n):
            calls.append(("thing", "numbers", {"n": n}))
            return (i for i in range(int(n)))

        @property
        def value(self):
            calls.append(("thing", "value", None))
            return 42

        @property
        def feed(self):
            calls.append(("thing", "feed", None))
            return iter(["a", "b"])

    def make_service(kind):
        @server.expose
        class Service(object):
            def ping(self):
                calls.append(("svc" + kind, "ping", {}))
                return "pong-" + kind

            if kind == "A":
                def alpha(self, **kw):
                    calls.append(("svcA", "alpha", kw))
                    return ["alpha", kw]

                @property
                def va(self):
                    calls.append(("svcA", "va", None))
                    return "va"
            else:
                def beta(self, **kw):
                    calls.append(("svcB", "beta", kw))
                    return ["beta", kw]

                @property
                def vb(self):
                    calls.append(("svcB", "vb", None))
                    return "vb"
        return Service

    daemon = server.Daemon(host="127.0.0.1", port=0)
    uris = {"http.thing": str(daemon.register(Thing(), "thing")),
            "http.svcA": str(daemon.register(make_service("A")(), "svcA")),
            "http.svcB": str(daemon.register(make_service("B")(), "svcB"))}
    th = threading.Thread(target=daemon.requestLoop, daemon=True)
    th.start()

    class RealLogProxy(client.Proxy):
        def __init__(self, uri):
            _W.log("connect", str(uri))
            super().__init__(uri)

        def _pyroGetMetadata(self, objectId=None, known_metadata=None):
            _W.log("getmeta", str(self._pyroUri))
            return super()._pyroGetMetadata(objectId, known_metadata)

        def _pyroInvoke(self, methodname, vargs, kwargs, flags=0, objectId=None):
            if methodname != "get_metadata":
                _W.log("invoke", str(self._pyroUri), objectId, methodname, vargs, kwargs, flags, methodname in self._pyroOneway,
                       self._pyroSerializer or config.SERIALIZER)
            return super()._pyroInvoke(methodname, vargs, kwargs, flags, objectId)

        def __exit__(self, exc_type, exc_value, traceback):
            _W.log("release", str(self._pyroUri))
            return super().__exit__(exc_type, exc_value, traceback)

    class Shim:
        Proxy = RealLogProxy

        def __getattr__(self, name):
            return getattr(client, name)

    _HIST = dict(daemon=daemon, thread=th, uris=uris, calls=calls, shim=Shim())
    return _HIST


def _hist_close():
    global _HIST
    if _HIST is not None:
        _HIST["daemon"].shutdown()
        _HIST["thread"].join(5)
        _HIST["daemon"].close()
        _HIST = None


def gen_history(rng):
    key = rng.choice([None, None, b"secret".hex()])
    steps = []
    for _ in range(rng.randint(2, 6)):
        r = rng.random()
        qs_parts = []
        obj = "http.thing"
        if r < 0.20:
            member = "echo"
            for k in rng.sample(["a", "b", "name", "x y"], rng.randint(0, 3)):
                qs_parts.append((k, rng.choice(VALUES[:2] + VALUES[3:])))
                if rng.random() < 0.25:
                    qs_parts.append((k, rng.choice(["2", "zz"])))
            if rng.random() < 0.3:      # a request payload deflate cannot shrink
                qs_parts.append(("blob", token(rng.choice([90, 101, 110, 128, 160]))))
        elif r < 0.28:
            member = "describe"
            qs_parts.append(("name", rng.choice(["first", "second", "é€"])))
        elif r < 0.34:
            member = "value"
        elif r < 0.40:
            member = "fail"
        elif r < 0.45:
            member = "$meta"
        elif r < 0.57:                  # results around the 100-byte threshold of wire compression, incompressible
            member = "token"
            qs_parts.append(("n", str(rng.choice([20, 97, 98, 99, 100, 101, 105, 110, 120, 128, 140, 400]))))
        elif r < 0.64:                  # members whose value is an iterator
            member = "numbers"
            qs_parts.append(("n", str(rng.randint(0, 4))))
        elif r < 0.69:
            member = "feed"
        elif r < 0.89:                  # two objects of same-named classes: own members, the other's members, $meta
            obj = rng.choice(["http.svcA", "http.svcB"])
            member = rng.choice(["ping", "alpha", "beta", "va", "vb", "$meta", "alpha" if obj.endswith("A") else "beta",
                                 "va" if obj.endswith("A") else "vb"])
            if member in ("alpha", "beta") and rng.random() < 0.5:
                qs_parts.append(("k", rng.choice(["1", "two"])))
        elif r < 0.95:
            member, obj = "echo", rng.choice(["secret.thing", "xhttp.thing"])
        else:
            member = "nosuch"
        present = rng.random() < 0.85
        keyhdr = None
        if key and present:
            if rng.random() < 0.5:
                keyhdr = "secret"
            else:
                qs_parts.insert(rng.randint(0, len(qs_parts)), ("$key", "secret"))
        qs = "&".join("%s=%s" % (urllib.parse.quote(k, safe="$"), urllib.parse.quote(v)) for k, v in qs_parts)
        pert = gen_perturb(rng, timeouts=(0.0, 3.0, 8.0))
        if pert is not None and rng.random() < 0.8:
            pert["compression"] = rng.random() < 0.6
            pert["iter_streaming"] = rng.random() < 0.7
        steps.append({"key": key, "pattern": r"http\.", "method": rng.choice(["GET", "GET", "POST"]), "path": "/pyro/%s/%s" % (obj, member),
                      "qs": qs, "keyhdr": keyhdr, "options": None, "corr": rng.choice([None, None, "11112222-1111-2222-3333-222244449999"]),
                      "apptmo": 5.0, "perturb": pert})
    return steps


def _hist_target(st):
    """(name, member) the step's path names (the history generator only makes /pyro/<name>/<member>)"""
    rest = st["path"][len("/pyro/"):]
    name, _, member = rest.rpartition("/")
    return name, member


def _hist_world(step, result):
    H = _hist_env()
    name, _ = _hist_target(step)
    o = REAL_OBJECTS.get(name, REAL_OBJECTS["http.thing"])
    lookup = {n: ["u", u] for n, u in H["uris"].items()}
    lookup["secret.thing"] = ["u", H["uris"]["http.thing"]]
    return {"nsget": ["ok"], "nslist": [], "lookup": lookup, "connect": {}, "bind": {},
            "meta": {"methods": o["methods"], "attrs": o["attrs"], "oneway": []}, "result": result}


def _hist_expect(st, params):
    """what the call the step asks for gives: ("ret", value) | ("exc", exception class) | None (nothing may be invoked)"""
    name, member = _hist_target(st)
    q = urllib.parse.parse_qs(st["qs"])
    kv = q.get("$key", [])
    key_ok = (not st["key"]) or st["keyhdr"] == "secret" or (not st["keyhdr"] and kv == ["secret"])
    o = REAL_OBJECTS.get(name)
    if not key_ok or o is None or st["method"] not in ("GET", "POST"):
        return None
    if member in o["attrs"]:
        if params:
            return None
        return {"value": ("ret", 42), "feed": ("exc", "Pyro5.errors.ProtocolError"), "va": ("ret", "va"), "vb": ("ret", "vb")}[member]
    if member not in o["methods"]:
        return None
    if member == "echo":
        return ("ret", params)
    if member == "describe":
        return ("ret", {"name": params.get("name"), "tags": ["a", "b"], "size": 3})
    if member == "fail":
        return ("exc", "builtins.ValueError")
    if member == "token":
        return ("ret", token(int(params["n"])))
    if member == "numbers":
        return ("exc", "Pyro5.errors.ProtocolError")
    if member == "ping":
        return ("ret", "pong-" + name[-1]) if not params else ("exc", "builtins.TypeError")
    return ("ret", [member, params])        # alpha / beta


def run_history(ctx, steps, do_model, lines=None, reals=None, items=None):
    """all steps against the real daemon, Pyro5.config left alone between them except for the scripted writes"""
    H = _hist_env()
    E = _env()
    config = E["config"]
    from Pyro5 import serializers
    jser = serializers.serializers["json"]
    cfg0 = (config.SERIALIZER, config.COMMTIMEOUT, config.COMPRESSION, config.ITER_STREAMING)
    try:
        for i, st in enumerate(steps):
            ncalls = len(H["calls"])
            rep, events = run_real(st, keep_config=True, shim=H["shim"], world=_hist_world(st, ["none"]))
            new_calls = H["calls"][ncalls:]
            hist = {"history": steps[:i + 1]}
            name, member = _hist_target(st)
            q = urllib.parse.parse_qs(st["qs"])
            params = {k: (v[0] if len(v) == 1 else v) for k, v in q.items() if not (st["key"] and k == "$key")}
            body = b"".join(rep.get("chunks", [])) if rep["kind"] == "http" else b""
            desc = "request %d of the history (%s %s?%s; Pyro5.config written before it: %r; COMPRESSION=%s ITER_STREAMING=%s)" % (
                i + 1, st["method"], st["path"], st["qs"][:80], st["perturb"], config.COMPRESSION, config.ITER_STREAMING)
            expect = _hist_expect(st, params)
            try:
                got = json.loads(body.decode("utf-8"))
                is_json = True
            except ValueError:
                got, is_json = None, False
            is_err = isinstance(got, dict) and bool(got.get("__exception__"))
            # ---- the property on the real outcome: the HTTP client receives the call's JSON result (200) or its error (500)
            result = ["none"]
            if rep["kind"] == "http" and rep["status"] == 200 and is_err:
                ctx.fail("error-as-200", "%s: the reply is the error %s %r, sent to the HTTP client as 200 OK"
                         % (desc, got.get("__class__"), got.get("args")), hist)
            if expect is not None:
                objid = REAL_OBJECTS[name]["id"]
                want_call = (objid, member, None if member in REAL_OBJECTS[name]["attrs"] else params)
                if rep["kind"] != "http":
                    pass        # check_property reports escapes
                elif not is_json:
                    ctx.fail("reply-not-json", "%s: the HTTP client did not receive JSON but %r" % (desc, body[:80]), hist)
                elif expect[0] == "exc":
                    if rep["status"] != 500 or not (is_err and got.get("__class__") == expect[1]):
                        ctx.fail("wrong-answer", "%s: the call ends in %s, the HTTP client received %d %r" % (desc, expect[1], rep["status"], body[:120]), hist)
                elif rep["status"] != 200 or got != expect[1]:
                    ctx.fail("wrong-answer", "%s: the call returns %r, the HTTP client received %d %r" % (desc, expect[1], rep["status"], body[:160]), hist)
                if new_calls != [want_call] and not (expect == ("exc", "builtins.TypeError") and not new_calls):
                    ctx.fail("call-not-forwarded" if not new_calls else "wrong-parameters",
                             "%s: the remote objects saw %r, expected exactly %r" % (desc, new_calls, want_call), hist)
                if expect[0] == "exc":
                    result = ["exc", body.hex() if (rep["kind"] == "http" and rep["status"] == 500 and is_err) else "00"]
                else:
                    result = ["ret", bytes(jser.dumps(expect[1])).hex()]
            elif new_calls:
                ctx.fail("traffic-unauthorised", "%s: remote objects were invoked: %r" % (desc, new_calls), hist)
            world = _hist_world(st, result)
            real = canon(dict(st, world=world), rep, events)
            _account(ctx, st, rep, events, real)
            ctx.count("real-stack:%s" % ("none" if expect is None else expect[0] if expect[0] == "ret" else expect[1].rsplit(".", 1)[-1]))
            before = len(ctx.failures)
            check_property(ctx, dict(st, world=world), rep, events)
            for f in ctx.failures[before:]:
                f["case"] = hist
            if do_model:
                lines.append(model_line(st, rep["pre"], world=world))
                reals.append(real)
                items.append(hist)
    finally:
        config.SERIALIZER, config.COMMTIMEOUT, config.COMPRESSION, config.ITER_STREAMING = cfg0


def _run_histories(ctx, name, n, do_model):
    rng = ctx.sub_rng(name)
    hs = _corpus("history") + [gen_history(rng) for _ in range(n)]
    lines, reals, items = [], [], []
    try:
        for steps in hs:
            run_history(ctx, steps, do_model, lines, reals, items)
            ctx.count("histories")
    finally:
        _hist_close()
    if do_model and lines:
        outs = common.run_driver("drv_c20", lines)
        ctx.corr_cases += len(lines)
        for it, l, r, m in zip(items, lines, reals, outs):
            if r != m:
                ctx.mismatch("history", {"case": it, "line": l[:800]}, r[:600], m[:600])


def correspondence(ctx):
    _run(ctx, "corr", ctx.n(9000, 250000), True)
    _run_histories(ctx, "hist", ctx.n(150, 4000), True)


def oracle(ctx):
    # step D runs inside _run / run_history on the same cases (check_property and the history oracle look at the real
    # outcome only); in search mode it runs again on fresh cases with a larger budget
    if ctx.search_mode:
        _run(ctx, "search", ctx.n(30000, 100000), False)
        _run_histories(ctx, "hist-search", ctx.n(400, 4000), False)


def replay(ctx, case):
    f = case.get("failing_input") or {}
    c = f.get("case")
    if not c:
        print("replay file names no failing input:", case.get("no_longer_checks"))
        return 1
    before = len(ctx.failures)
    if "history" in c:
        for i, st in enumerate(c["history"]):
            print("  %d. config written by other code: %r ; then %s %r ?%s  key=%r keyhdr=%r" % (
                i + 1, st.get("perturb"), st["method"], st["path"], st["qs"], st["key"], st["keyhdr"]))
        try:
            run_history(ctx, c["history"], False)
        finally:
            _hist_close()
    else:
        rep, events = run_real(c, prime=bool(c.get("perturb")))
        print("%s %r ?%s  key=%r pattern=%r keyhdr=%r options=%r ; Pyro5.config written by other code before it (after one earlier request): %r" % (
            c["method"], c["path"], c["qs"], c["key"], c["pattern"], c["keyhdr"], c["options"], c.get("perturb")))
        print("  reply :", canon_reply(c, rep), rep.get("msg", ""))
        print("  events:", events)
        check_property(ctx, c, rep, events)
    new = ctx.failures[before:]
    for x in new:
        print("  [%s] %s" % (x["signature"], x["desc"][:400]))
    print("VIOLATION reproduced" if new else "not reproduced")
    return 1 if new else 0
