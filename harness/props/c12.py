"""C12 — per-call context never leaks between calls or clients."""
import ast
import json
import os

import common
import srvkit
from props import c12_tr, c12_wire

ID = "C12"
LEAN_MODEL_TARGETS = ["drv_c12"]
LEAN_PROOF_TARGETS = ["PyroProps.C12", "PyroProps.C12Src"]
AUDIT_FILES = ["PyroModel/Context.lean", "PyroModel/Gen/C12.lean", "PyroModel/Gen/C12Src.lean", "PyroProofs/Context.lean",
               "PyroProps/C12.lean", "PyroProps/C12Src.lean"]
THEOREMS = ["Pyro.C12.C12_no_leak", "Pyro.C12.C12_no_method_no_annotation", "Pyro.C12.C12_read", "Pyro.C12.C12_client",
            "Pyro.C12.C12_client_run", "Pyro.C12.C12_gen_facts",
            "Pyro.C12.C12_handler_translated", "Pyro.C12.C12_pyroInvoke_translated", "Pyro.C12.C12_wrun_translated",
            "Pyro.C12.C12_client_wire", "Pyro.C12.C12_source_client_wire", "Pyro.C12.C12_client_wire_fresh",
            "Pyro.C12.C12_client_own_reply", "Pyro.C12.wcall_old", "Pyro.C12.C12_client_history",
            "Pyro.C12.C12_source_client_history"]
SUITES = ["context", "client", "wire"]
RULE = ("histories of 1-3 clients on the real multiplex server (one thread for all clients), the real thread-pool server, and the "
        "thread-pool server with ONE worker and successive connections (worker reuse): handshakes, pings, calls whose methods set "
        "distinct response annotations by assignment or by mutation and then return or raise, oneway calls whose method writes "
        "immediately or after a later release point, refused calls; every reply's annotation keys and every context snapshot "
        "compared with the model and checked directly; non-trivial = history with a raising or oneway annotating method followed by "
        "a reply to another request; distinct = distinct model line x transport.  Suite wire: a real Proxy on an in-memory scripted "
        "peer, 2-8 calls: accepted replies, replies with wrong sequence number / serializer id / message type, no reply, oneway, "
        "releases with CONNECTOK / CONNECTFAIL answers carrying annotations, waits interrupted by an application exception so that "
        "the reply stays unread and meets the next call; non-trivial = a call read a message that was not its own honest reply")
ASSUMPTIONS = ["threading.local isolates threads", "oneway writes happen at the release points the harness chooses (the model allows any point)"]
TRUSTED = ["harness/srvkit.py (in-memory sockets, real Daemon / transports / oneway threads)",
           "harness/props/c12_wire.py (scripted in-memory peer of a real Proxy)",
           "harness/props/c12_tr.py (transcription of Proxy._pyroInvoke; refuses what it does not understand)",
           "model operations connectOp / sendOp / recvOp stand for __pyroCreateConnection / connection.send / protocol.recv_stub"]


def extract():
    common.repo_on_path()
    import threading
    from Pyro5 import server, callcontext, client
    tree = ast.parse(open(server.__file__).read())
    cls = [n for n in tree.body if isinstance(n, ast.ClassDef) and n.name == "Daemon"][0]

    def fn(name):
        return [n for n in cls.body if isinstance(n, ast.FunctionDef) and n.name == name][0]

    def is_reset(node):
        return isinstance(node, ast.Assign) and len(node.targets) == 1 and ast.unparse(node.targets[0]) == "current_context.response_annotations" \
            and isinstance(node.value, ast.Dict) and not node.value.keys

    def resets_before_dispatch(f, marker):
        """a reset statement occurs (in source order) before the first occurrence of `marker` text"""
        src_lines = ast.unparse(f).splitlines()
        first_marker = next((i for i, l in enumerate(src_lines) if marker in l), None)
        first_reset = next((i for i, l in enumerate(src_lines) if l.strip() == "current_context.response_annotations = {}"), None)
        return first_marker is not None and first_reset is not None and first_reset < first_marker

    hr = fn("handleRequest")
    hs = fn("_handshake")
    hr_first = resets_before_dispatch(hr, "serializers.serializers_by_id[msg.serializer_id]") and \
        resets_before_dispatch(hr, "msg.type == protocol.MSG_PING")
    hs_first = resets_before_dispatch(hs, "validateHandshake")
    # normal reply: SendingMessage(MSG_RESULT ...) followed by a reset
    src = ast.unparse(hr).splitlines()
    i_send = next((i for i, l in enumerate(src) if "SendingMessage(protocol.MSG_RESULT" in l), None)
    after = i_send is not None and any(l.strip() == "current_context.response_annotations = {}" for l in src[i_send:i_send + 3])
    ctree = ast.parse(open(client.__file__).read())
    pcls = [n for n in ctree.body if isinstance(n, ast.ClassDef) and n.name == "Proxy"][0]
    inv = [n for n in pcls.body if isinstance(n, ast.FunctionDef) and n.name == "_pyroInvoke"][0]
    body = [n for n in inv.body if not (isinstance(n, ast.Expr) and isinstance(n.value, ast.Constant))]      # skip the docstring
    client_reset = any(is_reset(n) for n in body[:3])
    cc = ast.parse(open(callcontext.__file__).read())
    ccls = [n for n in cc.body if isinstance(n, ast.ClassDef) and n.name == "_CallContext"][0]
    tg = [n for n in ccls.body if isinstance(n, ast.FunctionDef) and n.name == "to_global"][0]
    # probed on the real objects (robust against docstrings, renames and restructuring):
    # to_global() hands out a NEW dict holding the context's fields ...
    probe = callcontext._CallContext()
    probe.seq = 4711
    g = probe.to_global()
    copies = isinstance(g, dict) and g is not probe.__dict__ and g.get("seq") == 4711
    g["seq"] = 1
    copies = copies and probe.seq == 4711
    # ... and a oneway thread runs its method under the context that was current when the thread object was CREATED
    seen = []
    ctx0 = callcontext.current_context
    saved = ctx0.to_global()
    try:
        ctx0.seq = 111
        th = server._OnewayCallThread(lambda: seen.append(callcontext.current_context.seq), (), {}, None, None)
        ctx0.seq = 222
        th.start()
        th.join(10)
    finally:
        ctx0.from_global(saved)
    captured = seen == [111]
    b = lambda x: "true" if x else "false"
    # the transcription of the current source of Proxy._pyroInvoke (harness/props/c12_tr.py -> Gen/C12Src.lean)
    common.write_if_changed(os.path.join(common.LEAN, "PyroModel", "Gen", "C12Src.lean"), c12_tr.render(client))
    return f"""-- GENERATED by harness/props/c12.py from Pyro5/server.py, callcontext.py, client.py — do not edit
namespace Pyro.Gen.C12
def contextIsThreadLocal : Bool := {b(isinstance(callcontext.current_context, threading.local))}
/-- handleRequest assigns a fresh response_annotations dict before it dispatches (also before the ping answer) -/
def handleRequestResetsFirst : Bool := {b(hr_first)}
/-- _handshake assigns a fresh response_annotations dict before it builds its answer -/
def handshakeResetsFirst : Bool := {b(hs_first)}
def normalReplyResetsAfter : Bool := {b(after)}
def clientResetsPerCall : Bool := {b(client_reset)}
/-- to_global() hands out a copy of the context's fields, taken by the oneway thread's constructor on the serving thread -/
def onewayContextIsSnapshot : Bool := {b(copies and captured)}
end Pyro.Gen.C12
"""


# ---- histories ------------------------------------------------------------------------------------
def gen_history(rng, sequential):
    nconn = rng.choice([1, 2, 2, 3])
    rid = 0
    key = 0
    gate = 0
    evs = []          # ("req", conn, rid, msgdict, kind-for-model) | ("release", gate, rid) | ("end", conn)
    pend_gates = []
    order = []
    per = {c: rng.choice([2, 3, 5, 7]) for c in range(nconn)}
    if sequential:
        for c in range(nconn):
            order += [c] * (per[c] + 1) + [("end", c)]
    else:
        left = {c: per[c] + 1 for c in range(nconn)}
        while any(left.values()):
            c = rng.choice([c for c in left if left[c]])
            order.append(c)
            left[c] -= 1
    started = set()
    dead = set()
    for o in order:
        if isinstance(o, tuple):
            evs.append(("end", o[1]))
            continue
        c = o
        if c in dead:
            continue
        rid += 1
        ser = rng.choice([1, 2, 3, 4])
        seq = rng.randint(0, 65535)
        # a quarter of the requests carry no correlation id: the daemon then makes up a NEW one for that request
        corr = rng.randint(1, 2 ** 60) if rng.random() < 0.75 else None
        anns = rng.sample([1, 2, 3], rng.choice([0, 0, 1, 2]))
        base = {"ser": ser, "seq": seq, "corr": corr, "ann": ["R%03d" % a for a in anns], "oneway": False}
        if c not in started:
            started.add(c)
            v = rng.random()
            if v < 0.7 or not any(e[0] == "req" for e in evs):
                m = dict(base, type=1, body=("handshake", True, True, "accept"))
                evs.append(("req", c, rid, m, ("H", 1), CF(m), anns))
            else:
                # a first message the daemon refuses: its CONNECTFAIL answer is a reply like any other
                dead.add(c)
                if v < 0.8:
                    m = dict(base, type=1, body=("handshake", True, True, "raises"))
                elif v < 0.9:
                    m = dict(base, type=4, body=("call", ("method", {"token": rid})))       # not a CONNECT
                else:
                    m = dict(base, raw=rng.randrange(len(srvkit.GARBAGE)), type=0)
                evs.append(("req", c, rid, m, ("H", 0), CF(m), anns))
            continue
        x = rng.random()
        if x < 0.12:
            m = dict(base, type=6, body=("undecodable",))
            evs.append(("req", c, rid, m, ("P",), CF(m), anns))
        elif x < 0.22:
            m = dict(base, type=4, body=("call", rng.choice([("unknown",), ("refused", "_hidden")])))
            evs.append(("req", c, rid, m, ("R",), CF(m), anns))
        else:
            nk = rng.choice([0, 1, 1, 2])
            keys = list(range(key + 1, key + 1 + nk))
            key += nk
            mode = rng.choice(["set", "mutate"])
            spec = {"token": rid, "ann": keys, "annmode": mode}
            if rng.random() < 0.25:
                spec["mutreq"] = [rid]            # the method scribbles on the request-annotation dict it was handed
            base["gpfail"] = rng.random() < 0.15     # getpeername() fails for this request (peer half gone)
            if x < 0.45:
                # oneway, sometimes gated: the write happens at a later release point
                if rng.random() < 0.5:
                    gate += 1
                    # the oneway method is held back either inside the method (after it has seen its context)
                    # or before the thread even starts (before it takes over the context copy)
                    spec[rng.choice(["gate", "startgate"])] = gate
                    pend_gates.append((gate, rid))
                m = dict(base, type=4, oneway=True, body=("call", ("method", spec)))
                evs.append(("req", c, rid, m, ("O", keys, "m" if mode == "mutate" else "a"), CF(m) | 4, anns))
                if "gate" not in spec and "startgate" not in spec:
                    evs.append(("ran", rid))
            else:
                raises = rng.random() < 0.4
                during = None
                if pend_gates and rng.random() < 0.4:
                    # a held-back oneway method of an earlier request writes WHILE this request is being handled
                    during = pend_gates.pop(rng.randrange(len(pend_gates)))
                    spec["release_during"] = during[0]
                if raises:
                    spec["out"] = "raise"
                    spec["exc"] = "generic"
                    spec["ser"] = rng.random() < 0.8
                m = dict(base, type=4, body=("call", ("method", spec)))
                evs.append(("req", c, rid, m, ("C", keys, "m" if mode == "mutate" else "a", 1 if raises else 0), CF(m), anns))
                if during:
                    evs.append(("ran", during[1]))
        if pend_gates and rng.random() < 0.35:
            g, r = pend_gates.pop(rng.randrange(len(pend_gates)))
            evs.append(("release", g, r))
    for g, r in pend_gates:
        evs.append(("release", g, r))
    return nconn, evs


def CF(m):
    """the correlation-id flag the encoder sets iff the request carries one"""
    return 64 if m.get("corr") else 0


def model_line(evs, worker_of):
    toks = []
    n = 0
    for e in evs:
        if e[0] == "req":
            _, c, rid, m, kind, flags, anns = e
            lst = lambda l: ",".join(map(str, l)) if l else "-"
            toks += ["Q", str(worker_of(c)), str(rid), str(c), str(m["seq"]), str(flags), str(m["ser"]), lst(sorted(anns)), str(m["corr"] or 0)]
            if kind[0] == "H":
                toks += ["H", str(kind[1])]
            elif kind[0] in "PR":
                toks += [kind[0]]
            elif kind[0] == "C":
                toks += ["C", lst(kind[1]), kind[2], str(kind[3])]
            else:
                toks += ["O", lst(kind[1]), kind[2]]
            n += 1
        elif e[0] in ("release", "ran"):
            toks += ["W", str(e[-1])]
            n += 1
    return "hist %d %s" % (n, " ".join(toks))


def run_real(servertype, poolsize, nconn, evs, daemon_ann, persistent=False):
    rig = srvkit.Rig(servertype, poolsize=poolsize)
    rig.daemon_annotations = dict(daemon_ann)
    rig.persistent_annotations = persistent      # Daemon.annotations() hands out the same dict object on every call
    try:
        for e in evs:
            if e[0] == "req":
                rig.deliver(e[1], srvkit.GARBAGE[e[3]["raw"]] if "raw" in e[3] else srvkit.render_msg(e[3]),
                            peername_fails=bool(e[3].get("gpfail")))
            elif e[0] == "release":
                rig.release(e[1])
            elif e[0] == "end":
                rig.deliver(e[1], b"", "eof")
        replies = {c: rig.replies(c) for c in range(nconn)}
        ctxs = list(rig.contexts)
        return replies, ctxs
    finally:
        rig.close()


def canon_real(nconn, evs, replies, ctxs, daemon_keys):
    """replies in request order (rid:conn:method-set keys) and snapshots, as the model prints them"""
    it = {c: iter(replies[c]) for c in range(nconn)}
    rep = []
    for e in evs:
        if e[0] != "req":
            continue
        _, c, rid, m, kind, flags, anns = e
        if kind[0] == "O":
            continue
        r = next(it[c], None)
        if r is None:
            rep.append("%d:%d:MISSING" % (rid, c))
            continue
        keys = sorted(int(k[1:]) for k in r[4] if k.startswith("A"))
        rep.append("%d:%d:%s" % (rid, c, ",".join(map(str, keys)) or "-"))
    extra = sum(1 for c in range(nconn) for _ in it[c])
    if extra:
        rep.append("EXTRA%d" % extra)
    info = {e[2]: e for e in evs if e[0] == "req"}
    # the model lists snapshots in the order the methods ran (calls at their request, oneway at their run point)
    order = []
    for e in evs:
        if e[0] == "req" and e[4][0] == "C":
            order.append(e[2])
        elif e[0] in ("release", "ran"):
            order.append(e[-1])
    by = {t: (idx, snap) for idx, t, snap in ctxs}
    snaps = []
    for rid in order:
        if rid not in by:
            snaps.append("%d:NOTRUN" % rid)
            continue
        idx, sn = by[rid]
        ann = sorted((int(k[1:]) if k.startswith("R") else 5000 + int(k[1:]) if k[1:].isdigit() else 9999) for k in sn["ann"])
        given = info[rid][3].get("corr") if rid in info else 1
        snaps.append("%d:%d:%d:%d:%d:%s:%s" % (rid, idx, sn["seq"], sn["flags"], sn["ser"], ",".join(map(str, ann)) or "-",
                                                sn["corr"] if given else 0))
    return ";".join(rep) + " | " + ";".join(snaps)


def _oracle(ctx, tag, nconn, evs, replies, ctxs, case):
    """direct statement of the property on the real observations"""
    it = {c: iter(replies[c]) for c in range(nconn)}
    for e in evs:
        if e[0] != "req" or e[4][0] == "O":
            continue
        _, c, rid, m, kind, flags, anns = e
        r = next(it[c], None)
        if r is None:
            continue
        allowed = set("A%03d" % k for k in kind[1]) if kind[0] == "C" and not kind[3] else set()
        stray = [k for k in r[4] if k.startswith("A") and k not in allowed]
        if stray:
            what = {"H": "handshake answer", "P": "ping answer", "R": "error reply", "C": "reply"}[kind[0]]
            ctx.fail("annotation-leak:%s" % what.split()[0], "%s: the %s to request %d of client %d carries response annotations %r "
                     "set by a different call" % (tag, what, rid, c, stray), case)
    info = {e[2]: e for e in evs if e[0] == "req"}
    # correlation ids that belong to some OTHER request: every id a peer sent, and every id a method has seen so far
    foreign = {e[3]["corr"]: e[2] for e in evs if e[0] == "req" and e[3].get("corr")}
    for idx, tok, sn in ctxs:
        e = info.get(tok)
        if e is None:
            continue
        _, c, rid, m, kind, flags, anns = e
        if not m.get("corr"):
            # no id given: the one the method sees must have been made up for this very request
            if sn["corr"] is None or (sn["corr"] in foreign and foreign[sn["corr"]] != rid):
                ctx.fail("context-stale-correlation-id", "%s: request %d of client %d carried no correlation id; its method saw %r, "
                         "which is the id of request %r" % (tag, rid, c, sn["corr"], foreign.get(sn["corr"])), case)
            foreign.setdefault(sn["corr"], rid)
        want = (c, m["seq"], flags, m["ser"], sorted("R%03d" % a for a in anns), m["corr"] or sn["corr"])
        got = (idx, sn["seq"], sn["flags"], sn["ser"], sorted(sn["ann"]), sn["corr"])
        if want != got:
            ctx.fail("context-mismatch", "%s: method of request %d saw context %r, the request was %r" % (tag, rid, got, want), case)
        peer = sn.get("peer")
        ok_peer = (peer is None) if m.get("gpfail") else (peer is None or tuple(peer) == ("fake", c))
        if not ok_peer:
            ctx.fail("context-peer-address", "%s: method of request %d (client %d%s) saw peer address %r"
                     % (tag, rid, c, ", getpeername failing" if m.get("gpfail") else "", peer), case)


def _corpus():
    d = os.path.join(common.VERIF, "corpus", "C12")
    out = []
    if os.path.isdir(d):
        for f in sorted(os.listdir(d)):
            out.append(json.load(open(os.path.join(d, f))))
    return out


def _fix(evs):
    out = []
    for e in evs:
        e = list(e)
        if e[0] == "req":
            m = dict(e[3])
            if "body" in m:
                b = list(m["body"])
                if b[0] == "call":
                    b[1] = tuple(b[1])
                m["body"] = tuple(b)
            e[3] = m
            e[4] = tuple(e[4])
        out.append(tuple(e))
    return out


def _run(ctx, name, n, do_model):
    rng = ctx.sub_rng(name)
    lines, reals, cases = [], [], []
    hists = [(c["mode"], c["nconn"], _fix(c["evs"])) for c in _corpus()]
    for i in range(n):
        mode = rng.choice(["multiplex", "multiplex", "thread", "thread1"])
        nconn, evs = gen_history(rng, sequential=(mode == "thread1"))
        hists.append((mode, nconn, evs))
    for mode, nconn, evs in hists:
        st, pool = {"multiplex": ("multiplex", 8), "thread": ("thread", 8), "thread1": ("thread", 1)}[mode]
        case = {"mode": mode, "nconn": nconn, "evs": evs, "persistent": len(lines) % 2 == 1}
        try:
            replies, ctxs = run_real(st, pool, nconn, evs, {"DDDD": b"x"}, persistent=case["persistent"])
        except srvkit.Stuck as x:
            ctx.fail("stuck:" + mode, "server got stuck: %r" % x, case)
            continue
        ctx.evaluations += 1
        worker_of = (lambda c: 0) if mode != "thread" else (lambda c: c)
        lines.append(model_line(evs, worker_of))
        reals.append(canon_real(nconn, evs, replies, ctxs, {"DDDD"}))
        cases.append(case)
        _oracle(ctx, mode, nconn, evs, replies, ctxs, case)
        kinds = [e[4][0] + (str(e[4][3]) if e[4][0] == "C" else "") for e in evs if e[0] == "req"]
        if any(k in ("C1", "O") for k in kinds[:-1]):
            ctx.nontriv(lines[-1] + mode)
        ctx.count("mode:" + mode)
        if len(ctx.samples) < 4 and len(evs) > 5:
            ctx.sample({"mode": mode, "history": lines[-1], "observed": reals[-1]})
    if do_model and lines:
        outs = common.run_driver("drv_c12", lines)
        ctx.corr_cases += len(lines)
        for l, r, o, c in zip(lines, reals, outs, cases):
            if r != o:
                ctx.mismatch("context", {"line": l, "mode": c["mode"], "case": c}, r, o)


def _client_suite(ctx, n):
    """a real Proxy against a real daemon (loopback, daemon thread): what the client finds in
    current_context.response_annotations after every call, vs the model and vs the statement"""
    import threading
    from Pyro5 import server, client, config, errors
    from Pyro5.callcontext import current_context
    rng = ctx.sub_rng("client")
    state = {"daemon_ann": {}}

    class D(server.Daemon):
        def annotations(self):
            return dict(state["daemon_ann"])

    @server.expose
    class T(object):
        def run(self, keys, raises):
            for k in keys:
                current_context.response_annotations["A%03d" % k] = b"v"
            if raises:
                raise ValueError("boom")
            return 1

        @server.oneway
        def ow(self, keys):
            for k in keys:
                current_context.response_annotations["A%03d" % k] = b"v"

    saved = (config.SERVERTYPE, config.COMMTIMEOUT, config.MAX_RETRIES)
    config.SERVERTYPE = "thread"
    config.MAX_RETRIES = 0
    d = D(host="127.0.0.1", port=0)
    uri = d.register(T(), "t")
    th = threading.Thread(target=d.requestLoop, daemon=True)
    th.start()
    lines, reals = [], []
    try:
        for i in range(n):
            proxy = client.Proxy(uri)
            calls, obs = [], []
            key = 0
            current_context.response_annotations = {"STAL": b"x"}      # whatever an earlier call left behind
            for _ in range(rng.choice([2, 4, 7])):
                if rng.random() < 0.2:
                    proxy._pyroRelease()
                # a handshake happens INSIDE _pyroInvoke only when the proxy is unconnected but already knows the
                # metadata (reconnect); a fresh proxy connects earlier, in __getattr__, before the per-call reset
                connects = proxy._pyroConnection is None and bool(proxy._pyroMethods)
                state["daemon_ann"] = {"D%03d" % rng.randint(1, 3): b"d"} if rng.random() < 0.4 else {}
                dkeys = sorted(int(k[1:]) + 1000 for k in state["daemon_ann"])
                nk = rng.choice([0, 0, 1, 2])
                keys = list(range(key + 1, key + 1 + nk))
                key += nk
                x = rng.random()
                try:
                    if x < 0.2:
                        proxy.ow(keys)
                        reply = None
                    elif x < 0.45:
                        try:
                            proxy.run(keys, True)
                        except ValueError:
                            pass
                        reply = dkeys
                    else:
                        proxy.run(keys, False)
                        reply = sorted(keys + dkeys)
                except errors.CommunicationError as e:
                    ctx.fail("client-call-failed", "client suite: call failed: %r" % e, {})
                    break
                seen = sorted((int(k[1:]) if k.startswith("A") else int(k[1:]) + 1000 if k.startswith("D") else 9999)
                              for k in current_context.response_annotations)
                obs.append(seen)
                calls.append((connects, dkeys, reply))
                ctx.evaluations += 1
                # ---- D: only annotations of this call's own reply (or of its own handshake answer)
                allowed = set(dkeys) | set(keys)
                if not set(seen) <= allowed:
                    ctx.fail("client-annotation-leak", "after a call the client still sees response annotations %r that are neither on "
                             "this call's reply nor on its handshake answer (allowed %r)" % (seen, sorted(allowed)),
                             {"calls": calls, "observed": obs})
                if reply and seen != reply:
                    ctx.fail("client-annotation-wrong", "reply carried %r, client observes %r" % (reply, seen),
                             {"calls": calls, "observed": obs})
            proxy._pyroRelease()
            lst = lambda l: ",".join(map(str, l)) if l else "-"
            toks = ["client", str(len(calls))]
            for c, h, r in calls:
                toks += ["1" if c else "0", lst(h), "none" if r is None else lst(r)]
            lines.append(" ".join(toks))
            reals.append(";".join(lst(o) for o in obs))
            if len(calls) >= 4:
                ctx.nontriv(lines[-1])
    finally:
        d.shutdown()
        current_context.response_annotations = {}
        config.SERVERTYPE, config.COMMTIMEOUT, config.MAX_RETRIES = saved
    outs = common.run_driver("drv_c12", lines)
    ctx.corr_cases += len(lines)
    for l, r, o in zip(lines, reals, outs):
        if r != o:
            ctx.mismatch("client", {"line": l}, r, o)


def correspondence(ctx):
    _run(ctx, "hist", ctx.n(150, 2500), True)
    _client_suite(ctx, ctx.n(40, 800))
    c12_wire.run(ctx, ctx.n(250, 4000))


def oracle(ctx):
    if ctx.search_mode:
        c12_wire.run(ctx, ctx.n(600, 6000), do_model=False, name="wire-search")
        _run(ctx, "search", ctx.n(250, 3000), False)


def replay(ctx, case):
    f = case.get("failing_input") or {}
    c = f.get("case") or {}
    w = f.get("wire_steps") or c.get("wire_steps")
    if w:
        obs = c12_wire.run_steps(w)
        print(";".join("%d:%s:%s" % (o["connected"], ",".join(map(str, o["seen"])) or "-", o["outcome"]) for o in obs))
        before = len(ctx.failures)
        c12_wire.check(ctx, w, obs, {"wire_steps": w})
        for fl in ctx.failures[before:]:
            print("  ", fl["desc"])
        bad = len(ctx.failures) > before
        print("VIOLATION reproduced" if bad else "not reproduced")
        return 1 if bad else 0
    if "evs" not in c:
        print(json.dumps(case.get("no_longer_checks")))
        return 1
    evs = _fix(c["evs"])
    st, pool = {"multiplex": ("multiplex", 8), "thread": ("thread", 8), "thread1": ("thread", 1)}[c["mode"]]
    replies, ctxs = run_real(st, pool, c["nconn"], evs, {"DDDD": b"x"}, persistent=bool(c.get("persistent")))
    print(canon_real(c["nconn"], evs, replies, ctxs, {"DDDD"}))
    before = len(ctx.failures)
    _oracle(ctx, c["mode"], c["nconn"], evs, replies, ctxs, c)
    for fl in ctx.failures[before:]:
        print("  ", fl["desc"])
    bad = len(ctx.failures) > before
    print("VIOLATION reproduced" if bad else "not reproduced")
    return 1 if bad else 0
