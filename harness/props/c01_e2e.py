"""C01: real Proxy <-> real Daemon over an in-memory connection; the property oracles on the real code."""
import datetime
import queue
import socket
import threading

import common
from props import c01_vals as V

SERS = ["serpent", "marshal", "json", "msgpack"]
POSITIONS = ["arg", "kwarg", "nested-arg", "result", "nested-result", "batch-result", "stream-item"]


class MemSock:
    """one end of an in-memory connected stream socket pair (no OS socket, no timing)"""
    family = socket.AF_UNIX

    def __init__(self, name):
        self.name = name
        self.buf = bytearray()
        self.peer = None
        self.on_empty = None      # called when recv finds nothing: lets the other side run
        self.timeout = None
        self.sent = []            # (msgtype, flags, data_size) of every message written

    def getpeername(self):
        return "mem-peer-of-" + self.name

    def getsockname(self):
        return "mem-" + self.name

    def gettimeout(self):
        return self.timeout

    def settimeout(self, t):
        self.timeout = t

    def setblocking(self, b):
        pass

    def fileno(self):
        return -1

    def sendall(self, data):
        data = bytes(data)
        if len(data) >= 20 and data[:4] == b"PYRO":
            self.sent.append((data[6], int.from_bytes(data[8:10], "big"), int.from_bytes(data[12:16], "big")))
        self.peer.buf += data

    def send(self, data):
        self.sendall(data)
        return len(data)

    def recv(self, n, flags=0):
        if not self.buf and self.on_empty is not None:
            self.on_empty()
        chunk = bytes(self.buf[:n])
        del self.buf[:n]
        return chunk

    def shutdown(self, how):
        pass

    def close(self):
        pass


def _echo_class(oneway=False):
    """a NEW class object on every call, always with the same module and qualified name (as a class factory, a reloaded
    module or a redefined local class gives).  oneway=True: the twin whose methods are all @oneway (their calls return None)."""
    from Pyro5 import server
    mark = server.oneway if oneway else (lambda f: f)

    @server.expose
    class Echo(object):
        def __init__(self):
            self.seen = None
            self.store = None

        @mark
        def recv(self, *args, **kwargs):
            self.seen = (args, kwargs)

        @mark
        def ret(self):
            return self.store

        @mark
        def stream(self):
            for x in self.store:
                yield x
    return Echo


class Rig:
    """a Daemon serving one Echo object and a Proxy connected to it through a MemSock pair.
    The daemon side runs in its own thread (own thread-local call context), strictly alternating
    with the client: it handles exactly one request each time the client waits for a reply."""

    def __init__(self, ser, oneway_twin=False, annotated=False):
        from Pyro5 import server, client
        self.ser = ser
        self.annotated = annotated
        self.csock, self.ssock = MemSock("client"), MemSock("server")
        self.csock.peer, self.ssock.peer = self.ssock, self.csock
        if annotated:
            class AnnotatingDaemon(server.Daemon):      # the documented way to add annotations to every response
                def annotations(self):
                    return {"RIGS": b"from-the-daemon"}
            self.daemon = AnnotatingDaemon(connected_socket=self.ssock)
        else:
            self.daemon = server.Daemon(connected_socket=self.ssock)
        self.echo = _echo_class(oneway_twin)()
        self.daemon.register(self.echo, "echo")
        self.conn = self.daemon.transportServer.conn
        self.server_errors = []
        self.req, self.done = queue.Queue(), queue.Queue()
        self.thread = threading.Thread(target=self._serve, daemon=True)
        self.thread.start()
        self.csock.on_empty = self._pump
        self.proxy = client.Proxy("echo", connected_socket=self.csock)
        self.proxy._pyroSerializer = ser

    def _serve(self):
        while True:
            if self.req.get() is None:
                return
            try:
                if self.ssock.buf:
                    self.daemon.handleRequest(self.conn)
            except Exception as x:     # what the transport servers do: log, drop the connection
                self.server_errors.append(x)
            self.done.put(1)

    def _pump(self):
        self.req.put(1)
        self.done.get()

    def client_annotations(self):
        """context: the calling thread's current_context.annotations as an annotating client sets them"""
        return _ClientAnnotations({"RIGC": b"from-the-client"} if self.annotated else None)

    def lose_connection(self):
        """the connection goes away between two messages and the client makes a new one to the same daemon: the daemon is told
        what its transport servers tell it when a connection closes (_clientDisconnect), then both ends get a fresh socket pair
        (this transport has no handshake).  Nothing is in flight: every earlier reply has been received completely."""
        from Pyro5 import socketutil
        assert not self.csock.buf and not self.ssock.buf
        self.daemon._clientDisconnect(self.conn)
        self.csock.on_empty = None
        self.csock, self.ssock = MemSock("client"), MemSock("server")
        self.csock.peer, self.ssock.peer = self.ssock, self.csock
        self.conn = socketutil.SocketConnection(self.ssock)
        self.csock.on_empty = self._pump
        self.proxy._pyroConnection = socketutil.SocketConnection(self.csock, "echo", True)

    def close(self):
        self.req.put(None)
        self.thread.join()
        self.csock.on_empty = None
        try:
            if self.proxy is not None:
                self.proxy._pyroConnection = None
        except Exception:
            pass


class _ClientAnnotations:
    def __init__(self, ann):
        self.ann = ann

    def __enter__(self):
        from Pyro5 import callcontext
        self.old = callcontext.current_context.annotations
        if self.ann is not None:
            callcontext.current_context.annotations = dict(self.ann)

    def __exit__(self, *a):
        from Pyro5 import callcontext
        callcontext.current_context.annotations = self.old


class Rigs:
    """History of every set of rigs: first a daemon serves (and a proxy connects to) the all-@oneway twin of the Echo class —
    another class with the same qualified name — and goes away; then the normal Echo classes are served.  What a call on
    the normal object returns must not depend on that (or any) earlier class."""

    def __init__(self, annotated=False):
        self.rigs = {}
        self.annotated = annotated
        twin = Rig("serpent", oneway_twin=True)      # connecting fetches the twin's metadata
        twin.close()

    def get(self, ser):
        r = self.rigs.get(ser)
        if r is None:
            r = self.rigs[ser] = Rig(ser, annotated=self.annotated)
        return r

    def drop(self, ser):
        r = self.rigs.pop(ser, None)
        if r is not None:
            r.close()

    def close(self):
        for s in list(self.rigs):
            self.drop(s)


def _kind(x):
    from props import c01
    return c01.err_kind(x)


def _deliver_raw(rig, pos, v):
    from Pyro5 import client
    e, p = rig.echo, rig.proxy
    if pos in ("arg", "kwarg", "nested-arg"):
        if pos == "arg":
            p.recv(v)
        elif pos == "kwarg":
            p.recv(k=v)
        else:
            p.recv([v])
        if e.seen is None:
            raise LookupError("the proxy call returned before the server method had run (treated as a oneway call)")
        return e.seen[0][0] if pos == "arg" else (e.seen[1]["k"] if pos == "kwarg" else e.seen[0][0][0])
    if pos == "result":
        e.store = v
        return p.ret()
    if pos == "nested-result":
        e.store = [v]
        return p.ret()[0]
    if pos == "batch-result":
        e.store = v
        b = client.BatchProxy(p)
        b.ret()
        return list(b())[0]
    if pos == "stream-item":
        e.store = [v]
        return list(p.stream())[0]
    raise AssertionError(pos)


def deliver(rigs, ser, pos, v, loose=False):
    """send `v` through position `pos`; -> (('ok', normalised tree) | ('err', kind), raw value, exception)"""
    rig = rigs.get(ser)
    rig.echo.seen, rig.echo.store = None, None
    try:
        with rig.client_annotations():
            got = _deliver_raw(rig, pos, v)
    except RecursionError:
        rigs.drop(ser)
        raise
    except Exception as x:
        rigs.drop(ser)             # the proxy may have released its connection
        return ("err", _kind(x)), None, x
    try:
        return ("ok", V.norm(V.tree(got), loose)), got, None
    except V.Unsupported as u:
        return ("ok", ("?", str(u))), got, None


class _Config:
    """set Pyro5.config attributes, restore on exit"""

    def __init__(self, **kw):
        self.kw = kw

    def __enter__(self):
        from Pyro5 import config
        self.old = {k: getattr(config, k) for k in self.kw}
        for k, v in self.kw.items():
            setattr(config, k, v)

    def __exit__(self, *a):
        from Pyro5 import config
        for k, v in self.old.items():
            setattr(config, k, v)


def _sized_values(ser):
    """lossless values whose serialized call / reply payloads sweep 94..107 bytes (threshold: > 100)"""
    from Pyro5 import serializers
    s = serializers.serializers[ser]
    out = []
    base_call = len(s.dumpsCall("echo", "recv", ("",), {}))
    base_res = len(s.dumps(""))
    for target in range(94, 108):
        for base in (base_call, base_res):
            n = target - base
            if n >= 0:
                out.append("x" * n)
    return out


def _count_payloads(ctx, rig_sent, tag):
    for mtype, flags, size in rig_sent:
        if mtype not in (4, 5):
            continue
        comp = bool(flags & 2)
        if comp:
            ctx.count("e2e:%s:compressed" % tag)
        else:
            ctx.count("e2e:%s:plain:%s" % (tag, "<=100" if size <= 100 else ">100"))
            if size in (99, 100, 101):
                ctx.count("e2e:%s:plain-size=%d" % (tag, size))
    del rig_sent[:]


def _e2e_values(ctx, name, n):
    rng = ctx.sub_rng(name)
    vals = []
    for i in range(n):
        depth = rng.choice([0, 1, 2, 3, 4])
        vals.append(V.gen_lossless(rng, depth) if rng.random() < 0.4 else V.gen_value(rng, depth))
    return vals


def correspond(ctx):
    """suite e2e: what a real method receives / a real proxy call returns, vs argPath / kwPath / resPath of the model
    (nested positions: the element of the model's result for the enclosing list)"""
    from props import c01
    vals = _e2e_values(ctx, "e2e-corr", ctx.n(150, 700))
    lines, reals, cases = [], [], []
    rigs = Rigs()
    try:
        for comp in (False, True):
            with _Config(COMPRESSION=comp, ITER_STREAMING=True, SERIALIZER="serpent"):
                for ser in SERS:
                    for v in vals + _sized_values(ser):
                        tr = V.tree(v)
                        toks = " ".join(V.tokens(tr))
                        ntoks = " ".join(V.tokens(("L", [tr])))
                        for pos in POSITIONS:
                            if pos == "batch-result" and ser == "marshal" and not _marshal_kw_safe():
                                continue      # F11: reported by the oracle; the model has no batch envelope here
                            real, _, _ = deliver(rigs, ser, pos, v)
                            ctx.evaluations += 1
                            ctx.count("e2e:%s:%s:%s" % (ser, pos, real[0]))
                            if real[0] == "ok":
                                ctx.nontriv(("e2e", ser, pos, comp, repr(V.norm(tr))))
                            op, arg, nested = {"arg": ("arg", toks, False), "kwarg": ("kw", toks, False),
                                               "nested-arg": ("arg", ntoks, True), "result": ("res", toks, False),
                                               "nested-result": ("res", ntoks, True), "batch-result": ("res", ntoks, True),
                                               "stream-item": ("res", toks, False)}[pos]
                            lines.append("%s %s %s" % (op, ser, arg))
                            reals.append(real)
                            cases.append((ser, tr, pos, comp, nested))
                    if ser in rigs.rigs:
                        _count_payloads(ctx, rigs.rigs[ser].csock.sent, "comp-on" if comp else "comp-off")
                        _count_payloads(ctx, rigs.rigs[ser].ssock.sent, "comp-on" if comp else "comp-off")
    finally:
        rigs.close()
    outs = common.run_driver("drv_c01", lines)
    ctx.corr_cases += len(lines)
    for l, r, o, (ser, tr, pos, comp, nested) in zip(lines, reals, outs, cases):
        m = c01.model_outcome(o)
        if m == ("err", "oom"):
            if c01.excused(ser, tr):
                continue
            ctx.mismatch("e2e", {"line": l[:1200], "pos": pos, "compression": comp}, repr(r)[:300], "err oom")
            continue
        if m[0] == "ok" and nested:
            m = ("ok", m[1][1][0]) if (m[1][0] == "L" and len(m[1][1]) == 1) else ("bad", "not a 1-list")
        # through the whole stack an error is an exception of some class on the client; compare ok-ness and values
        if (r[0], r[1] if r[0] == "ok" else None) != (m[0], m[1] if m[0] == "ok" else None):
            ctx.mismatch("e2e", {"line": l[:1200], "pos": pos, "compression": comp}, repr(r)[:300], repr(m)[:300])


def _marshal_kw_safe():
    from Pyro5 import serializers
    try:
        serializers.serializers["marshal"].dumpsCall("o", "m", [], None)
        return True
    except AttributeError:
        return False


# ------------------------------------------------------------------------------------------------
# property oracles on the real code (independent of the model)
# ------------------------------------------------------------------------------------------------
def _has_ext(nt):
    return "('X'," in repr(nt) or nt[0] == "X"


def _case(ser, tr, **kw):
    d = {"serializer": ser, "value_tokens": " ".join(V.tokens(tr))}
    d.update(kw)
    return d


def check_value(ctx, ser, v, tr=None, cfg=None):
    """serializer-level oracle for one value: lossless / symmetric / idempotent (cfg: the non-default Pyro5.config items in force)"""
    from Pyro5 import serializers
    from props import c01
    s = serializers.serializers[ser]
    python_only = tr is None
    res, res_raw = c01.outcome(lambda: s.loads(s.dumps(v)), True)
    arg, _ = c01.outcome(lambda: s.loadsCall(s.dumpsCall("o", "m", (v,), {}))[2][0], True)
    kw, _ = c01.outcome(lambda: s.loadsCall(s.dumpsCall("o", "m", (), {"k": v}))[3]["k"], True)
    ctx.evaluations += 1
    case = _case(ser, tr) if not python_only else {"serializer": ser, "python_value": repr(v)}
    if cfg:
        case["config"] = cfg
    # the protocol layer hands the serializer bytes, a bytearray, or (messages with annotations) a memoryview of the same payload:
    # what arrives must not depend on which
    arg1, _ = c01.outcome(lambda: s.loadsCall(s.dumpsCall("o", "m", (v,), {"k": v}))[2:], True)
    for wrap in (bytearray, memoryview):
        res2, _ = c01.outcome(lambda: s.loads(wrap(s.dumps(v))), True)
        arg2, _ = c01.outcome(lambda: s.loadsCall(wrap(s.dumpsCall("o", "m", (v,), {"k": v})))[2:], True)
        if res2 != res or arg2 != arg1:
            ctx.fail("payload-type-dependent-%s" % ser,
                     "%s: the same payload decodes differently when it is handed over as %s instead of bytes: result %s vs %s, "
                     "arguments %s vs %s" % (ser, wrap.__name__, repr(res2)[:160], repr(res)[:160], repr(arg2)[:160], repr(arg1)[:160]),
                     dict(case, payload_type=wrap.__name__))
            return
    for name, got in (("positional", arg), ("keyword", kw)):
        if got != res:
            if ser == "msgpack" and res[0] == "ok" and _has_ext(res[1]) and not (got[0] == "ok" and _has_ext(got[1])):
                ctx.fail("msgpack-result-exttype",
                         "msgpack: the result arrives as msgpack.ExtType but the same value arrives correctly as a %s argument: "
                         "arg=%s result=%s" % (name, repr(got)[:200], repr(res)[:200]), case)
            elif ser == "msgpack" and got[0] == "ok" and _has_ext(got[1]):
                ctx.fail("msgpack-arg-exttype",
                         "msgpack: %s argument arrives as msgpack.ExtType but the same value comes back correctly as a result: "
                         "arg=%s result=%s" % (name, repr(got)[:200], repr(res)[:200]), case)
            elif ser == "marshal" and not python_only and tr[0] == "L" and got[0] == "err" and res[0] == "ok":
                ctx.fail("marshal-list-arg-unconverted",
                         "marshal: a list is converted item by item as a result but not as a %s argument: arg=%s result=%s"
                         % (name, repr(got)[:200], repr(res)[:200]), case)
            else:
                ctx.fail("asymmetric-%s" % ser, "%s: %s argument and result differ: arg=%s result=%s"
                         % (ser, name, repr(got)[:200], repr(res)[:200]), case)
            return
    if python_only:
        return
    if V.is_lossless(tr):
        if res != ("ok", V.norm(tr, True)):
            ctx.fail("lossless-changed-%s" % ser, "%s: lossless-core value changed on the wire: sent %s got %s"
                     % (ser, repr(V.norm(tr))[:200], repr(res)[:200]), case)
            return
    # nested position: a list / tuple / set whose elements are each delivered when sent alone is delivered, element by
    # element as those values (json, msgpack: as a list; serpent: lists).  marshal converts only the top level, so not there.
    if tr[0] in ("L", "U", "E") and len(tr[1]) <= 8 and (ser in ("json", "msgpack") or (ser == "serpent" and tr[0] == "L")):
        elems = [c01.outcome(lambda x=x: s.loads(s.dumps(x)), True)[0] for x in (list(v))]
        if all(e[0] == "ok" for e in elems):
            want = [e[1] for e in elems]
            got = list(res[1][1]) if (res[0] == "ok" and res[1][0] == "L") else None
            same = got is not None and (sorted(map(repr, got)) == sorted(map(repr, want)) if tr[0] == "E" else got == want)
            if not same:
                ctx.fail("container-not-elementwise-%s" % ser,
                         "%s: every element of %s is delivered when sent alone (%s) but the container arrives as %s"
                         % (ser, repr(V.norm(tr, True))[:160], repr(want)[:160], repr(res)[:160]), case)
                return
    if res[0] == "ok":
        again, _ = c01.outcome(lambda: s.loads(s.dumps(res_raw)), True)
        if again != res:
            ctx.fail("not-idempotent-%s" % ser, "%s: applying the type mapping twice changes the value: once=%s twice=%s"
                     % (ser, repr(res)[:200], repr(again)[:200]), case)


def serializer_oracle(ctx):
    from props import c01
    n = ctx.n(4000, 30000)
    rng = ctx.sub_rng("oracle-search" if ctx.search_mode else "oracle")
    vals = list(c01._corpus_values())
    for i in range(n):
        depth = rng.choice([0, 1, 2, 3, 4, 5, 6])
        vals.append(V.gen_lossless(rng, depth) if rng.random() < 0.3 else V.gen_value(rng, depth, for_model=False))
    for v in vals:
        tr = V.tree(v)
        for ser in SERS:
            check_value(ctx, ser, v, tr)
    # deeply nested values (the recursive generators stop at depth 6): every clause again at nesting depths up to 180
    for i in range(ctx.n(120, 1500)):
        v, depth = V.gen_deep(rng, lossless=rng.random() < 0.7)
        tr = V.tree(v)
        for ser in SERS:
            try:
                check_value(ctx, ser, v, tr)
                ctx.count("oracle:deep:%d+" % (depth // 50 * 50))
            except RecursionError:
                ctx.count("oracle:deep:recursion-skipped")
    # configurations: the same clauses under the non-default run-time setting of every config item the serializers read
    # (SERPENT_BYTES_REPR: serpent then writes bytes as bytes literals instead of base64 dicts)
    cfg = {"SERPENT_BYTES_REPR": True}
    with _Config(**cfg):
        extra = [b"", b"ab\xff", bytearray(b"xyz"), [b"a", {"k": bytearray(b"b")}], (b"\x00" * 120,), {"data": b"x", "encoding": "base64"}]
        for v in extra + vals[:ctx.n(1200, 8000)]:
            tr = V.tree(v)
            if V.contains(tr, lambda t: t[0] in ("B", "Y")) or rng.random() < 0.15:
                check_value(ctx, "serpent", v, tr, cfg)
    # Python-only stream: naive datetimes (msgpack sends a local-time float timestamp) — symmetry only
    for i in range(ctx.n(60, 2000)):
        dt = datetime.datetime(rng.randint(1971, 2200), rng.randint(1, 12), rng.randint(1, 28), rng.randint(0, 23),
                               rng.randint(0, 59), rng.randint(0, 59), rng.choice([0, 1, 500000, 999999, rng.randint(0, 999999)]))
        for ser in SERS:
            for v in (dt, [dt], {"when": dt}):
                check_value(ctx, ser, v, None)


def e2e_oracle(ctx):
    """positions x compression on the whole stack, real code only"""
    from props import c01
    vals = list(c01._corpus_values()) + _e2e_values(ctx, "e2e-oracle-search" if ctx.search_mode else "e2e-oracle", ctx.n(150, 600))
    rigs = Rigs()
    try:
        for comp in (False, True):
            with _Config(COMPRESSION=comp, ITER_STREAMING=True, SERIALIZER="serpent"):
                for ser in SERS:
                    for v in vals + _sized_values(ser):
                        _e2e_check(ctx, rigs, ser, comp, v)
            with _Config(COMPRESSION=comp, ITER_STREAMING=True, SERPENT_BYTES_REPR=True):
                for v in [b"ab\xff", [bytearray(b"xyz"), {"k": b""}], b"\x01" * 130] + vals[:10]:
                    _e2e_check(ctx, rigs, "serpent", comp, v, {"SERPENT_BYTES_REPR": True})
    finally:
        rigs.close()
    # configurations: messages that carry annotations in both directions (the client's current_context.annotations, a
    # Daemon.annotations() override) - the protocol layer then hands the payload over as a slice of a memoryview
    rng = ctx.sub_rng("e2e-annotated-search" if ctx.search_mode else "e2e-annotated")
    deep = _deep_values(rng, ctx.n(6, 40))
    rigs = Rigs(annotated=True)
    try:
        for comp in (False, True):
            with _Config(COMPRESSION=comp, ITER_STREAMING=True, SERIALIZER="serpent"):
                for ser in SERS:
                    for v in vals[:len(c01._corpus_values()) + ctx.n(30, 200)] + _sized_values(ser)[::5] + deep[:ctx.n(2, 10)]:
                        if not _e2e_check_guarded(ctx, rigs, ser, comp, v, None, True):
                            return
    finally:
        rigs.close()
    # deeply nested values through every position
    rigs = Rigs()
    try:
        for comp in (False, True):
            with _Config(COMPRESSION=comp, ITER_STREAMING=True, SERIALIZER="serpent"):
                for ser in SERS:
                    for v in deep:
                        if not _e2e_check_guarded(ctx, rigs, ser, comp, v):
                            return
    finally:
        rigs.close()
    _stream_histories(ctx)


def _deep_values(rng, n):
    return [V.gen_deep(rng, lossless=rng.random() < 0.7)[0] for _ in range(n)]


def _e2e_check_guarded(ctx, rigs, ser, comp, v, cfg=None, annotated=False):
    """_e2e_check; a value too deep for this interpreter's stack is skipped (RecursionError is not a verdict). False: stop (a failure was reported)"""
    n = len(ctx.failures)
    try:
        _e2e_check(ctx, rigs, ser, comp, v, cfg, annotated)
    except RecursionError:
        ctx.count("e2e:recursion-skipped")
        rigs.drop(ser)
    return len(ctx.failures) == n


def _stream_histories(ctx):
    rng = ctx.sub_rng("stream-holder-search" if ctx.search_mode else "stream-holder")
    for comp in (False, True):
        for ser in SERS:
            for _ in range(ctx.n(2, 12)):
                items = [V.gen_lossless(rng, rng.choice([0, 1, 2])) for _ in range(rng.choice([1, 3, 5]))]
                for drop_after in (0, 1):
                    if drop_after <= len(items):
                        with _Config(COMPRESSION=comp, ITER_STREAMING=True):
                            if not stream_without_proxy_holder(ctx, ser, comp, items, drop_after):
                                return
            # connection losses between two item fetches (before the first, in the middle, before the end-of-stream fetch,
            # several in a row); the stream lingers (ITER_STREAM_LINGER > 0) and is picked up again on the new connection
            for _ in range(ctx.n(4, 24)):
                items = [V.gen_lossless(rng, rng.choice([0, 1, 2])) if rng.random() < 0.8 else V.gen_value(rng, 1)
                         for _ in range(rng.choice([1, 2, 3, 5, 8]))]
                losses = sorted(rng.randint(0, len(items)) for _ in range(rng.choice([1, 1, 2, 3])))
                if not stream_with_connection_loss(ctx, ser, comp, items, losses, rng.random() < 0.3):
                    return


def _e2e_check(ctx, rigs, ser, comp, v, cfg=None, annotated=False):
    tr = V.tree(v)
    want = ("ok", V.norm(tr, True))
    lossless = V.is_lossless(tr)
    obs = {}
    for pos in POSITIONS:
        out, _, exc = deliver(rigs, ser, pos, v, True)
        ctx.evaluations += 1
        obs[pos] = out
        case = _case(ser, tr, position=pos, compression=comp, **({"config": cfg} if cfg else {}))
        if annotated:
            case["annotated"] = True
        if exc is not None and ser == "marshal" and isinstance(exc, AttributeError) and "items" in str(exc) and pos == "batch-result":
            ctx.fail("marshal-kwargs-none", "marshal: a batch call fails on the client with %r (dumpsCall is given kwargs=None)" % exc, case)
            obs[pos] = None
            continue
        if lossless and out != want:
            ctx.fail("lossless-changed-%s" % ser, "%s, compression %s, position %s: lossless-core value changed: sent %s got %s"
                     % (ser, "on" if comp else "off", pos, repr(want[1])[:200], repr(out)[:200]), case)
            return
    # the mapping is the same for arguments as for results, at the same nesting
    def same(a, b):
        return obs[a] is None or obs[b] is None or (obs[a][0] == obs[b][0] and (obs[a][0] == "err" or obs[a] == obs[b]))
    for a, b in (("arg", "kwarg"), ("arg", "result"), ("result", "stream-item"), ("nested-arg", "nested-result"),
                 ("nested-result", "batch-result")):
        if not same(a, b):
            sig = "asymmetric-%s" % ser
            if ser == "msgpack" and any(o and o[0] == "ok" and _has_ext(o[1]) for o in (obs[a], obs[b])):
                sig = "msgpack-arg-exttype"
            elif ser == "marshal" and tr[0] == "L" and a == "arg" and obs[a][0] == "err" and obs[b][0] == "ok":
                sig = "marshal-list-arg-unconverted"
            ctx.fail(sig, "%s, compression %s: position %s delivers %s but position %s delivers %s"
                     % (ser, "on" if comp else "off", a, repr(obs[a])[:160], b, repr(obs[b])[:160]),
                     _case(ser, tr, position=a + "/" + b, compression=comp, **({"config": cfg} if cfg else {}),
                           **({"annotated": True} if annotated else {})))
            return


def stream_without_proxy_holder(ctx, ser, comp, items, drop_after):
    """position stream-item, client object lifetimes: the caller keeps the result stream but not the proxy
    (`for x in Proxy(uri).items(): ...`, or a stream returned from a helper whose local proxy goes out of scope).
    Every item the remote generator yields must still arrive."""
    import gc
    rig = Rig(ser)
    want = [V.norm(V.tree(x), True) for x in items]
    case = {"stream_holder_only": True, "serializer": ser, "compression": comp, "drop_after": drop_after,
            "value_tokens": " ".join(V.tokens(V.tree(items)))}
    try:
        with _Config(COMPRESSION=comp, ITER_STREAMING=True):
            rig.echo.store = items
            it = rig.proxy.stream()
            got = []
            try:
                for _ in range(drop_after):
                    got.append(next(it))
                rig.proxy = None            # the stream is now the only thing the caller holds
                gc.collect()
                got.extend(it)
                out = [V.norm(V.tree(x), True) for x in got]
            except Exception as x:
                out = ("err", _kind(x), str(x)[:80])
            ctx.evaluations += 1
            ctx.nontriv(("stream-holder", ser, comp, drop_after, repr(want)))
            if out != want:
                ctx.fail("stream-items-missing-%s" % ser,
                         "%s, compression %s: a result stream consumed after its proxy went out of scope (after %d item(s)) delivers %s "
                         "of the %d items the method yields: %s" % (ser, "on" if comp else "off", drop_after,
                                                                    len(out) if isinstance(out, list) else "an error instead",
                                                                    len(want), repr(out)[:200]), case)
                return False
    finally:
        rig.close()
    return True


def stream_with_connection_loss(ctx, ser, comp, items, losses, annotated=False):
    """position stream-item, histories with connection losses: `losses` = how many items had been received (completely) when
    the connection went away, one entry per loss.  With ITER_STREAM_LINGER > 0 the stream stays; consumed on through the new
    connection it must deliver every item the method yields exactly once, in order, as the uninterrupted stream does."""
    from props import c01
    case = {"stream_connection_loss": True, "serializer": ser, "compression": comp, "losses": list(losses), "annotated": annotated,
            "value_tokens": " ".join(V.tokens(V.tree(items)))}

    def consume(loss_points):
        rig = Rig(ser, annotated=annotated)
        try:
            with _Config(COMPRESSION=comp, ITER_STREAMING=True, ITER_STREAM_LINGER=30.0), rig.client_annotations():
                rig.echo.store = items
                it = rig.proxy.stream()
                got = []
                pending = list(loss_points)
                try:
                    while True:
                        while pending and pending[0] <= len(got):
                            pending.pop(0)
                            rig.lose_connection()
                        try:
                            got.append(next(it))
                        except StopIteration:
                            break
                    return [c01.outcome(lambda x=x: x, True)[0] for x in got]
                except Exception as x:
                    return ("err", _kind(x), len(got))
        finally:
            rig.close()
    plain = consume([])
    broken = consume(losses)
    ctx.evaluations += 1
    ctx.nontriv(("stream-loss", ser, comp, tuple(losses), case["value_tokens"]))
    if broken != plain:
        ctx.fail("stream-resumed-items-%s" % ser,
                 "%s, compression %s: a result stream whose connection was lost after %s received item(s) and that was picked up "
                 "again on a new connection (ITER_STREAM_LINGER) delivers %s but the uninterrupted stream delivers %s"
                 % (ser, "on" if comp else "off", list(losses), repr(broken)[:300], repr(plain)[:300]), case)
        return False
    return True


def replay_case(c):
    """re-run a failing input on the real code; 1 if it still fails"""
    ser = c.get("serializer")
    if "value_tokens" not in c:
        print("python-only case:", c)
        return 1
    t, _ = V.parse(c["value_tokens"].split(" "))
    v = V.untree(t)
    ctx = common.Ctx("C01", "quick", 0)
    cfg = c.get("config") or {}
    print("value:", repr(v)[:500], " serializer:", ser, " config:", cfg)
    if c.get("stream_connection_loss"):
        stream_with_connection_loss(ctx, ser, bool(c.get("compression")), v, c.get("losses") or [], bool(c.get("annotated")))
    elif c.get("stream_holder_only"):
        stream_without_proxy_holder(ctx, ser, bool(c.get("compression")), v, int(c.get("drop_after", 0)))
    elif "position" in c:
        rigs = Rigs(annotated=bool(c.get("annotated")))
        try:
            with _Config(COMPRESSION=bool(c.get("compression")), ITER_STREAMING=True, **cfg):
                _e2e_check(ctx, rigs, ser, bool(c.get("compression")), v, cfg or None, bool(c.get("annotated")))
        finally:
            rigs.close()
    else:
        with _Config(**cfg):
            check_value(ctx, ser, v, V.tree(v), cfg or None)
    for f in ctx.failures:
        print("REPRODUCED [%s] %s" % (f["signature"], f["desc"][:500]))
    if not ctx.failures:
        print("not reproduced: the real code now treats this input correctly")
    return 1 if ctx.failures else 0
