"""C11 — a batch behaves like the same calls made one after another.

Real side: one table-driven stateful reference object (class Ref below) per daemon, reset in-process before
each case; the generated call list is run (1) through a real client.BatchProxy -> real Proxy -> unix socket ->
real Daemon.handleRequest and (2) call by call through a second real Proxy against a fresh identical object.
Model side: lean/PyroModel/Batch.lean driven by drv_c11 with the same tables.
"""
import copy
import datetime
import decimal
import json
import marshal
import uuid
import os
import re
import shutil
import tempfile
import threading

import common
from props import c11_extract

ID = "C11"
LEAN_MODEL_TARGETS = ["drv_c11"]
LEAN_PROOF_TARGETS = ["PyroProps.C11Src", "PyroProps.C11"]   # C11Src imports C11: the audit sees both
AUDIT_FILES = ["PyroModel/Batch.lean", "PyroModel/BatchSrc.lean", "PyroModel/Gen/C11.lean", "PyroProofs/Batch.lean", "PyroProps/C11.lean",
               "PyroProps/C11Src.lean"]
THEOREMS = ["Pyro.C11.C11_refines", "Pyro.C11.C11_oneway", "Pyro.C11.C11_positions", "Pyro.C11.C11_submit_failure",
            "Pyro.C11.C11_stops", "Pyro.C11.C11_executed_prefix", "Pyro.C11.C11_sequential_spec", "Pyro.C11.C11_program",
            "Pyro.C11.C11_pre_failure", "Pyro.C11.C11_statement_holds", "Pyro.C11.C11_statement_fails_when_pre_raises",
            "Pyro.C11.C11_gen_dumpsCall_accepts_no_kwargs", "Pyro.C11.C11_gen_wrapper_transportable", "Pyro.C11.C11_gen_server_probes", "Pyro.C11.C11_gen_single_probes",
            "Pyro.C11.C11_gen_generator_probes", "Pyro.C11.C11_gen_client_facts",
            # round 5: the transcription of the source (harness/props/c11_tr.py -> Gen/C11.lean) against the model
            "Pyro.C11.C11_batchLoop_translated", "Pyro.C11.C11_resultsGen_translated", "Pyro.C11.C11_invokeBatch_translated",
            "Pyro.C11.C11_clientBatch_translated", "Pyro.C11.C11_source_refines", "Pyro.C11.C11_source_oneway",
            "Pyro.C11.C11_malformed_item"]
SUITES = ["batch", "sequential", "program"]
RULE = ("a case = a generated finite-state reference object (1..4 states; per (state, method, argument) a row: next state + "
        "returned value or raised exception; state dependent availability of two dynamic members) + a call list of length "
        "0..12 (thorough: ..200) over exposed methods, unexposed / private / missing / dotted names and 9 argument shapes "
        "(3 of them not fitting the signature; low weight: a method returning a live reference to its internal list), 16 return values (4 of them exception OBJECTS returned as plain values) and 11 "
        "raised exceptions (3 of them instances no serializer can send, of types whose other instances can) x serializer (serpent, json, marshal, msgpack) x normal/oneway x server type "
        "(thread, multiplex), all from VERIF_SEED; plus PROGRAMS over up to 4 BatchProxy objects on one Proxy (record a call / "
        "copy.copy / submit, 3..14 steps; non-trivial = at least two submits and two executed calls); the two daemons live for the whole run, so every case runs behind the history of "
        "all earlier ones (a failure is re-tried on fresh daemons and its history delta-debugged); ~2.5% of the oneway batches keep "
        "their first member busy until the next request on the connection could have arrived; each case runs once through a real BatchProxy and once call by call on a "
        "fresh identical object, both over a unix socket against a real Daemon. Non-trivial = at least two calls reached "
        "their method in the batch run (so order and state carry-over matter); distinct = distinct (object tables, call "
        "list, serializer, mode, server type)")
ASSUMPTIONS = [
    "the remote object is deterministic: its reaction depends only on its state and the call (the theorem's Obj parameter)",
    "results are transportable by the serializer in use (values of the generator's pool, incl. exception objects as values): a "
    "RESULT that cannot be serialised fails the whole reply, which is outside C11's quantifier; a raised exception whose instance "
    "cannot be serialised is inside (plain call and batch member both deliver the describing PyroError of _serializeException); "
    "exception classes are builtin or Pyro5.errors classes or an application class with registered class_to_dict / "
    "dict_to_class converters (classes the client cannot re-create are C07's subject)",
    "a BatchProxy whose submission itself raised is not used again (it keeps its calls; what re-using it should do is not "
    "stated by C11)",
    "methods do not raise CommunicationError/SecurityError themselves (a single call then loses its reply by design; the batch "
    "delivers the exception) and do not return iterators (batch mode cannot stream)",
    "requests on one connection are served in order (used to observe the state after a oneway batch by a following normal call)",
    "transport of values/exceptions through each serializer is C01/C07's subject; here both runs use the same serializer",
]
TRUSTED = ["class Ref in harness/props/c11.py stands for 'an arbitrary stateful remote object'; Driver/C11.lean's tabObj is its model",
           "the in-process daemon threads and unix sockets (real Pyro5 transport, not faked)"]

# ------------------------------------------------------------------------------------------------
# the alphabet: names, argument shapes, values, exceptions (ids are what travels to the Lean driver)
# ------------------------------------------------------------------------------------------------
NAMES = ["m0", "m1", "m2", "u0", "_p0", "__p1", "__init__", "__dict__", "x0", "d0", "d1", "m0.sub", "acc"]
N_ACC = 12       # acc(x, …): appends a marker to the object's internal list and returns THAT LIST (a live reference)
KNOWN_ALIAS = "batch-result-aliases-later-state"
N_DYN = (9, 10)
E_NOROW, E_ARITY, E_PRIVATE, E_MISSING, E_UNEXPOSED, E_PRE = 0, 100, 101, 102, 103, 109
STATIC_GATE = {0: 0, 1: 0, 2: 0, 3: E_UNEXPOSED, 4: E_PRIVATE, 5: E_PRIVATE, 6: E_PRIVATE, 7: E_UNEXPOSED,
               8: E_MISSING, 11: E_MISSING, 12: 0}
CALLABLE_NAMES = (0, 1, 2, 9, 10)
ARGS = [
    ((1,), {}),
    ((2, 3), {}),
    (("s",), {"k": [1, 2]}),
    (((1, 2),), {"y": 5}),
    ((None,), {"y": {"a": 1}, "k": 2.5}),
    ((True, "y"), {"k": ""}),
    ((), {}),                      # bad: x missing
    ((1, 2, 3), {}),               # bad: too many positional
    ((1,), {"bogus": 1}),          # bad: unknown keyword
]
GOOD_ARGS = (0, 1, 2, 3, 4, 5)
BAD_ARGS = (6, 7, 8)
common.repo_on_path()
from Pyro5 import errors as _pyro_errors   # noqa: E402  (this module is only imported by the runner, after VERIF_REPO is known)
from Pyro5 import core as _pyro_core       # noqa: E402
# ids 9..14: arguments a serializer transports only through CONVERSION (documented replacement: uuid/Decimal/datetime -> str,
# URI -> its class dict and back, set/tuple -> what the wire format has), positional and keyword.  One by one every
# serializer that supports the type delivers them; C11 demands the same of a batch.  The receiving side identifies an
# argument by its canonical form (`_norm`), which is the same for the original and for every serializer's replacement.
_UUID, _DEC, _DT = uuid.UUID(int=5), decimal.Decimal("1.5"), datetime.datetime(2020, 1, 2, 3, 4, 5)
_URI = _pyro_core.URI("PYRO:obj@host:1234")
ARGS += [
    ((_UUID,), {}),
    ((1,), {"k": _UUID}),
    ((_URI,), {"y": {1, 2}}),
    (((1, (2, 3)),), {"k": _URI}),
    ((_DEC,), {"k": _DT}),
    ((_DT,), {"y": _DEC}),
]
CONV_ARGS = (9, 10, 11, 12, 13, 14)
CONV_ARGS_OF = {"marshal": (9, 10, 11, 12)}      # marshal has no replacement for Decimal / datetime at all (plain calls fail too)
KNOWN_ARGCONV = "marshal-batch-argument-not-converted"

# ids 12..15: exception OBJECTS as ordinary return values (a validator returning the problem it found): the call
# succeeds, the object must be yielded like any other result and the calls behind it must deliver theirs
VALUES = [None, 17, "txt", [1, "a"], (2, "b"), {"k": 1}, 2.5, True, "", [[], {}], -3, {"n": [1, (2,)]},
          ValueError("negative value", -1), KeyError("missing"), RuntimeError(), _pyro_errors.NamingError("unknown name")]
RETURNED_EXC_VALUES = (12, 13, 14, 15)
# an argument no serializer can transport: exceptions 9..11 carry it, so the INSTANCE cannot be sent although other
# instances of the same types (1, 4, 5, E_NOROW) can; both the batch and the plain call must then deliver the
# describing PyroError of Daemon._serializeException
OPAQUE = object()
N_EXC = 12


class RefError(Exception):
    """exception 12: an application exception class that travels through converters registered with
    SerializerBase.register_class_to_dict / register_dict_to_class (the documented way); its dict form has a
    "__class__" tag and no "__exception__" marker.  Registered while an Env is alive, see Env.__init__ / close."""


_REF_ERROR_TAG = "c11harness.RefError"
_registered = [0]


def _register_ref_error():
    from Pyro5 import serializers
    if _registered[0] == 0:
        serializers.SerializerBase.register_class_to_dict(RefError, lambda e: {"__class__": _REF_ERROR_TAG, "args": list(e.args)})
        serializers.SerializerBase.register_dict_to_class(_REF_ERROR_TAG, lambda name, d: RefError(*d["args"]))
    _registered[0] += 1


def _unregister_ref_error():
    from Pyro5 import serializers
    _registered[0] -= 1
    if _registered[0] == 0:
        serializers.SerializerBase.unregister_class_to_dict(RefError)
        serializers.SerializerBase.unregister_dict_to_class(_REF_ERROR_TAG)
UNSENDABLE = {"KeyError": 9, "ValueError": 10, "NamingError": 11}


def _exc_pool():
    from Pyro5 import errors
    return {1: ValueError("e1"), 2: ZeroDivisionError("division by zero"), 3: IndexError("e3", 3),
            4: errors.NamingError("e4"), 5: KeyError("k5"), 6: RuntimeError(), 7: TypeError("e7"),
            8: AssertionError("e8"),
            9: KeyError(OPAQUE), 10: ValueError("bad handle", OPAQUE), 11: errors.NamingError(OPAQUE),
            12: RefError("e12", 12)}


def _norm(v):
    if isinstance(v, (uuid.UUID, decimal.Decimal, _pyro_core.URI)):
        return str(v)
    if isinstance(v, datetime.datetime):
        return v.isoformat()
    if isinstance(v, (set, frozenset)):
        return sorted(_norm(x) for x in v)
    if isinstance(v, (tuple, list)):
        return [_norm(x) for x in v]
    if isinstance(v, dict):
        return {str(k): _norm(x) for k, x in sorted(v.items(), key=lambda kv: str(kv[0]))}
    return v


def _key(v):
    return repr(_norm(v))


ARG_IDS = {_key(list(a) + [sorted(k.items())]): i for i, (a, k) in enumerate(ARGS) if i in GOOD_ARGS + CONV_ARGS}
assert len(ARG_IDS) == len(GOOD_ARGS + CONV_ARGS)
VALUE_IDS = {_key(v): i for i, v in enumerate(VALUES)}
assert len(VALUE_IDS) == len(VALUES)


def _is_acc(v):
    return isinstance(v, list) and len(v) > 0 and all(isinstance(x, str) and re.fullmatch(r"acc\d+", x) for x in v)


def _acc_code(v):
    code = 0
    for x in reversed(v):
        code = (int(x[3:]) + 1) + 7 * code
    return code


def _arg_id(x, y, k, y_given, k_given):
    args = [x] + ([y] if y_given == "pos" else [])
    kw = {}
    if y_given == "kw":
        kw["y"] = y
    if k_given:
        kw["k"] = k
    return ARG_IDS.get(_key(args + [sorted(kw.items())]), -1)


_NOTGIVEN = object()


def make_ref_class():
    """the reference object's class (needs Pyro5's @expose, so it is built after the repo is importable)"""
    common.repo_on_path()
    from Pyro5 import server
    excs = _exc_pool()

    class Ref(object):
        def __init__(self):
            self.reset({}, {}, 0)

        def reset(self, rows, dyn, q0, hold=False):
            self.rows, self.dyn, self.q, self.log = rows, dyn, q0, []
            self.items = []
            # hold: the first executed call waits (briefly, bounded) for the NEXT request on the connection to show up.
            # A server that serves a connection's requests in order cannot deliver that request before this call is
            # over, so the wait just runs out; one that runs a oneway batch on the side lets sync() overtake it.
            self.hold = threading.Event() if hold else None
            self.sync_at = None

        def _run(self, n, x, y, k):
            # which argument shape arrived (after the serializer): positional y / keyword y / k
            a = -1
            for ygiven in (None, "pos", "kw"):
                for kgiven in (False, True):
                    if (ygiven is None) != (y is _NOTGIVEN) or kgiven != (k is not _NOTGIVEN):
                        continue
                    a = _arg_id(x, y, k, ygiven, kgiven)
                    if a >= 0:
                        break
                if a >= 0:
                    break
            if self.hold is not None and not self.log:
                self.hold.wait(0.05)
            self.log.append((n, a))
            if n == N_ACC:
                self.items.append("acc%d" % a)
                return self.items                  # the live list, not a copy
            row = self.rows.get((self.q, n, a))
            if row is None:
                raise KeyError("norow")
            q2, kind, v = row
            self.q = q2
            if kind == "e":
                e = excs[v]
                raise type(e)(*e.args)
            return VALUES[v]

        @server.expose
        def m0(self, x, y=_NOTGIVEN, *, k=_NOTGIVEN):
            return self._run(0, x, y, k)

        @server.expose
        def m1(self, x, y=_NOTGIVEN, *, k=_NOTGIVEN):
            return self._run(1, x, y, k)

        @server.expose
        def m2(self, x, y=_NOTGIVEN, *, k=_NOTGIVEN):
            return self._run(2, x, y, k)

        @server.expose
        def acc(self, x, y=_NOTGIVEN, *, k=_NOTGIVEN):
            return self._run(N_ACC, x, y, k)

        def u0(self, x, y=_NOTGIVEN, *, k=_NOTGIVEN):     # public but NOT exposed: must never run
            return self._run(3, x, y, k)

        def _p0(self, x, y=_NOTGIVEN, *, k=_NOTGIVEN):    # private: must never run
            return self._run(4, x, y, k)

        @server.expose
        def sync(self):
            """does not touch the state; used to wait for a oneway batch (same connection, served in order)"""
            self.sync_at = len(self.log)
            if self.hold is not None:
                self.hold.set()
            return "sync"

        def __getattr__(self, name):
            # members whose existence / exposure depends on the state
            if name in ("d0", "d1"):
                nid = NAMES.index(name)
                code = self.__dict__.get("dyn", {}).get((self.__dict__.get("q"), nid), E_MISSING)
                if code in (0, E_UNEXPOSED):
                    def dyn(x, y=_NOTGIVEN, *, k=_NOTGIVEN, _self=self, _nid=nid):
                        return _self._run(_nid, x, y, k)
                    if code == 0:
                        dyn._pyroExposed = True
                    return dyn
            raise AttributeError("ref-missing:" + name)

    def p1(self, x, y=_NOTGIVEN, *, k=_NOTGIVEN):          # really named "__p1" (no mangling): must never run
        return self._run(5, x, y, k)
    setattr(Ref, "__p1", p1)
    return Ref


# ------------------------------------------------------------------------------------------------
# positional y vs keyword y: the argument pool uses y positionally (ids 1, 5) and by keyword (ids 3, 4);
# _run above recovers the id from what actually arrived
# ------------------------------------------------------------------------------------------------

SERIALIZERS = ["serpent", "json", "marshal", "msgpack"]
SERVERS = ["thread", "multiplex"]


class Env(object):
    """two real daemons (thread pool / multiplex) on unix sockets, each serving a batch target and a sequential target"""

    def __init__(self, servers=None):
        common.repo_on_path()
        from Pyro5 import config, server, client, errors
        self.client, self.errors = client, errors
        self.tmp = tempfile.mkdtemp(prefix="c11-", dir="/tmp")
        self.Ref = make_ref_class()
        self.excs = _exc_pool()
        self.exc_ids = {(type(e).__name__, _key(e.args)): i for i, e in self.excs.items()}
        _register_ref_error()
        self.daemons, self.threads, self.objs, self.uris, self.px, self.bp = {}, {}, {}, {}, {}, {}
        saved = config.SERVERTYPE
        try:
            for srv in (servers or SERVERS):
                config.SERVERTYPE = srv
                d = server.Daemon(unixsocket=os.path.join(self.tmp, srv + ".sock"))
                b, s = self.Ref(), self.Ref()
                self.uris[srv] = (d.register(b, "refB"), d.register(s, "refS"))
                self.objs[srv] = (b, s)
                self.daemons[srv] = d
                t = threading.Thread(target=d.requestLoop, name="c11-" + srv, daemon=True)
                t.start()
                self.threads[srv] = t
        finally:
            config.SERVERTYPE = saved

    def proxies(self, srv, ser):
        key = (srv, ser)
        if key not in self.px:
            ub, us = self.uris[srv]
            pb, ps = self.client.Proxy(ub), self.client.Proxy(us)
            for p in (pb, ps):
                p._pyroSerializer = ser
                p._pyroTimeout = 30
                p._pyroBind()
            self.px[key] = (pb, ps)
        return self.px[key]

    def batch_proxy(self, srv, ser, fresh=False):
        key = (srv, ser)
        if fresh or key not in self.bp:
            self.bp[key] = self.client.BatchProxy(self.proxies(srv, ser)[0])
        return self.bp[key]

    def close(self):
        for pb, ps in self.px.values():
            for p in (pb, ps):
                try:
                    p._pyroRelease()
                except Exception:
                    pass
        for srv, d in self.daemons.items():
            try:
                d.shutdown()
            except Exception:
                pass
            self.threads[srv].join(10)
        shutil.rmtree(self.tmp, ignore_errors=True)
        _unregister_ref_error()

    # ---- canonical forms --------------------------------------------------------------------
    def val_id(self, v):
        if _is_acc(v):
            return str(1000 + _acc_code(v))
        i = VALUE_IDS.get(_key(v))
        return str(i) if i is not None else "?" + repr(v)[:60]

    def exc_id(self, e):
        name, msg = type(e).__name__, str(e)
        if isinstance(e, AttributeError):
            if "'NoneType' object has no attribute 'items'" in msg:
                return "E%d" % E_PRE
            if msg.startswith("attempt to access private attribute"):
                return "E%d" % E_PRIVATE
            if msg.startswith("attempt to access unexposed attribute"):
                return "E%d" % E_UNEXPOSED
            if msg.startswith("ref-missing:"):
                return "E%d" % E_MISSING
        if isinstance(e, KeyError) and e.args == ("norow",):
            return "E%d" % E_NOROW
        if name == "PyroError" and msg.startswith("Error serializing exception"):
            # the fallback of Daemon._serializeException for an exception instance that cannot be sent
            m = re.search(r"Original exception: <class '([\w.]+)'>", msg)
            i = UNSENDABLE.get(m.group(1).split(".")[-1]) if m else None
            if i is not None:
                return "E%d" % i
        i = self.exc_ids.get((name, _key(e.args)))
        if i is not None and i not in UNSENDABLE.values():
            return "E%d" % i
        if isinstance(e, TypeError) and "argument" in msg:
            return "E%d" % E_ARITY
        return "?%s:%s" % (name, msg[:80])


def _static_dyn(case):
    dyn = {(q, n): c for q, n, c in case["dyn"]}
    rows = {(q, n, a): (q2, k, v) for q, n, a, q2, k, v in case["rows"]}
    return rows, dyn


def _fmt_log(log):
    return ",".join("%d.%d" % (n, a) for n, a in log) or "-"


class _KwargsShim(object):
    """stands between a real BatchProxy and the real Proxy and does what Proxy._pyroInvokeBatch does, except that it
    hands `{}` instead of `None` as kwargs to Proxy._pyroInvoke (no private name of the client classes is touched)"""

    def __init__(self, proxy):
        self.proxy = proxy

    def _pyroClaimOwnership(self):
        self.proxy._pyroClaimOwnership()

    def _pyroInvokeBatch(self, calls, oneway=False):
        from Pyro5 import protocol
        flags = protocol.FLAGS_BATCH | (protocol.FLAGS_ONEWAY if oneway else 0)
        return self.proxy._pyroInvoke("<batch>", calls, {}, flags)


def run_batch(env, case, bypass=False):
    """the real BatchProxy run -> (canonical line, details).
    bypass=True (only used after finding F11 has been reported for this case, to look behind it): do what
    a BatchProxy over _KwargsShim: `{}` instead of `None` as kwargs to Proxy._pyroInvoke."""
    srv, ser, oneway = case["srv"], case["ser"], case["oneway"]
    b, _ = env.objs[srv]
    rows, dyn = _static_dyn(case)
    b.reset(rows, dyn, case["q0"], hold=bool(case.get("hold")) and oneway)
    pb, _ = env.proxies(srv, ser)
    bp = env.client.BatchProxy(_KwargsShim(pb)) if bypass else env.batch_proxy(srv, ser)
    for n, a in case["calls"]:
        args, kwargs = ARGS[a]
        bp.__getattr__(NAMES[n])(*args, **kwargs)       # BatchProxy.__getattr__ -> _BatchedRemoteMethod.__call__
    raw_vals, exc = [], None
    try:
        r = bp(oneway=True) if oneway else bp()
    except Exception as e:      # noqa
        env.batch_proxy(srv, ser, fresh=True)            # a failed submit leaves the collected calls in the BatchProxy
        seen, exc, kind = "submit:" + env.exc_id(e), e, "submit"
    else:
        if oneway:
            pb._pyroInvoke("sync", (), {})               # same connection: served after the batch
            seen, kind = ("nothing", "nothing") if r is None else ("returned:" + repr(r)[:40], "returned")
        else:
            try:
                for v in r:
                    raw_vals.append(v)
            except Exception as e:      # noqa
                exc = e
            seen = "stream:%s:%s" % (",".join(env.val_id(v) for v in raw_vals) or "-", env.exc_id(exc) if exc is not None else "-")
            kind = "stream"
    line = "q=%d log=%s seen=%s" % (b.q, _fmt_log(b.log), seen)
    return line, {"kind": kind, "vals": raw_vals, "exc": exc, "q": b.q, "log": list(b.log),
                  "sync_at": b.sync_at if (oneway and kind != "submit") else None}


def run_seq(env, case):
    """the same calls one by one on the fresh identical object, stopping at the first that raises"""
    srv, ser = case["srv"], case["ser"]
    _, s = env.objs[srv]
    rows, dyn = _static_dyn(case)
    s.reset(rows, dyn, case["q0"])
    _, ps = env.proxies(srv, ser)
    vals, exc = [], None
    for n, a in case["calls"]:
        args, kwargs = ARGS[a]
        name = NAMES[n]
        try:
            if name in ps._pyroMethods:
                v = getattr(ps, name)(*args, **kwargs)
            else:
                # the normal Proxy refuses names missing from the metadata on the client (AttributeError, nothing sent);
                # send the request all the same so that the SERVER's answer to this single call is what we compare with
                v = ps._pyroInvoke(name, args, kwargs)
        except Exception as e:      # noqa
            exc = e
            break
        vals.append(v)
    line = "q=%d log=%s vals=%s fail=%s" % (s.q, _fmt_log(s.log), ",".join(env.val_id(v) for v in vals) or "-",
                                           env.exc_id(exc) if exc is not None else "-")
    return line, {"vals": vals, "exc": exc, "q": s.q, "log": list(s.log)}


_ADDR = re.compile(r"0x[0-9a-fA-F]+")


# ------------------------------------------------------------------------------------------------
# programs over several BatchProxy objects on one Proxy: record / copy.copy / submit  (model: runProg / specProg)
# ------------------------------------------------------------------------------------------------
def _fmt_ops(ops):
    return ",".join(".".join(str(int(x)) if not isinstance(x, str) else x for x in op) for op in ops) or "-"


def run_prog(env, case):
    """the program on real BatchProxy objects -> (canonical line, per-submit details, the ops really performed).
    A BatchProxy whose submission itself raised keeps its calls (client.py skips the reset); it is not used again:
    later ops on it are dropped from the program (on every side)."""
    srv, ser = case["srv"], case["ser"]
    b, _ = env.objs[srv]
    rows, dyn = _static_dyn(case)
    b.reset(rows, dyn, case["q0"])
    pb, _ = env.proxies(srv, ser)
    bps, dead, eff, outs, seens = [env.client.BatchProxy(pb)], set(), [], [], []
    for op in case["ops"]:
        i = op[1]
        if i >= len(bps) or i in dead:
            continue
        eff.append(list(op))
        if op[0] == "r":
            args, kwargs = ARGS[op[3]]
            bps[i].__getattr__(NAMES[op[2]])(*args, **kwargs)
        elif op[0] == "c":
            bps.append(copy.copy(bps[i]))                  # BatchProxy.__copy__
        else:
            oneway = bool(op[2])
            raw_vals, exc = [], None
            try:
                r = bps[i](oneway=True) if oneway else bps[i]()
            except Exception as e:      # noqa
                dead.add(i)
                seen, exc, kind = "submit:" + env.exc_id(e), e, "submit"
            else:
                if oneway:
                    pb._pyroInvoke("sync", (), {})
                    seen, kind = ("nothing", "nothing") if r is None else ("returned:" + repr(r)[:40], "returned")
                else:
                    try:
                        for v in r:
                            raw_vals.append(v)
                    except Exception as e:      # noqa
                        exc = e
                    seen = "stream:%s:%s" % (",".join(env.val_id(v) for v in raw_vals) or "-", env.exc_id(exc) if exc is not None else "-")
                    kind = "stream"
            seens.append(seen)
            outs.append({"kind": kind, "vals": raw_vals, "exc": exc, "q": b.q, "log": list(b.log), "sync_at": None})
    line = "q=%d log=%s outs=%s" % (b.q, _fmt_log(b.log), "|".join(seens) or "-")
    return line, outs, eff


def run_prog_seq(env, case, eff):
    """the reference: the same program, every submit replaced by its recorded calls made one by one on the twin.
    The lists are kept here as VALUES (a copy is independent of its original) — that is the specification."""
    srv, ser = case["srv"], case["ser"]
    _, s = env.objs[srv]
    rows, dyn = _static_dyn(case)
    s.reset(rows, dyn, case["q0"])
    _, ps = env.proxies(srv, ser)
    lists, outs = [[]], []
    for op in eff:
        i = op[1]
        if op[0] == "r":
            lists[i] = lists[i] + [[op[2], op[3]]]
        elif op[0] == "c":
            lists.append(list(lists[i]))
        else:
            vals, exc = [], None
            for n, a in lists[i]:
                args, kwargs = ARGS[a]
                name = NAMES[n]
                try:
                    v = getattr(ps, name)(*args, **kwargs) if name in ps._pyroMethods else ps._pyroInvoke(name, args, kwargs)
                except Exception as e:      # noqa
                    exc = e
                    break
                vals.append(v)
            outs.append({"vals": vals, "exc": exc, "q": s.q, "log": list(s.log), "calls": lists[i], "oneway": bool(op[2]), "bp": i})
            lists[i] = []
    return outs


def judge_prog(env, case, bouts, souts, eff):
    """every submit of the program judged like a single batch against the one-by-one run of ITS recorded calls"""
    for k, (bres, sres) in enumerate(zip(bouts, souts)):
        sub = dict(case, oneway=sres["oneway"], calls=sres["calls"])
        v = judge(env, sub, bres, sres)
        if v is not None:
            sig, desc = v
            if sig == KNOWN_ALIAS:
                return (sig, "program [%s], submit #%d: %s" % (_fmt_ops(eff), k + 1, desc))
            if sig in ("executed-after-failure", "executed-too-few", "state-differs"):
                sig = "submit-does-not-run-its-recorded-calls"
            return ("program:" + sig, "program [%s], submit #%d (BatchProxy %d, on which %d call(s) were recorded): %s"
                    % (_fmt_ops(eff), k + 1, sres["bp"], len(sres["calls"]), desc))
    return None


def gen_prog(rng, sers=SERIALIZERS):
    base = gen_case(rng, 6, sers)
    pool = [[n, (a % 6 if a in CONV_ARGS else a)] for n, a in base["calls"]]     # conversion arguments: single batches only
    nops = rng.randint(3, 14)
    use_acc = rng.random() < 0.05
    ops, nbp, pending = [], 1, {0: 0}
    for _ in range(nops):
        x = rng.random()
        i = rng.randrange(nbp)
        if x < 0.55:
            n, a = pool.pop(0) if pool and rng.random() < 0.5 else (rng.choice([0, 1, 2]), rng.choice(GOOD_ARGS))
            if use_acc and rng.random() < 0.4:
                n = N_ACC
            ops.append(["r", i, n, a])
            pending[i] = pending.get(i, 0) + 1
        elif x < 0.72 and nbp < 4:
            ops.append(["c", i])
            pending[nbp] = pending.get(i, 0)
            nbp += 1
        else:
            ops.append(["s", i, int(rng.random() < 0.25)])
            pending[i] = 0
    rest = [i for i in range(nbp) if pending.get(i)]
    rng.shuffle(rest)
    ops += [["s", i, 0] for i in rest]
    return dict(base, calls=[], ops=ops, oneway=False, hold=False)


def verdict(env, case):
    """both real runs of any kind of case + the property on them -> (verdict | None, real line(s), model line(s), suite(s), details)"""
    if "ops" in case:
        line, bouts, eff = run_prog(env, case)
        souts = run_prog_seq(env, case, eff)
        return judge_prog(env, case, bouts, souts, eff), {"bouts": bouts, "souts": souts, "eff": eff, "line": line}
    bline, bres = run_batch(env, case, bypass=bool(case.get("bypass")))
    sline, sres = run_seq(env, case)
    return judge(env, case, bres, sres), {"bline": bline, "sline": sline, "bres": bres, "sres": sres}


def _exc_same(a, b):
    return type(a) is type(b) and _ADDR.sub("0x", _key(a.args)) == _ADDR.sub("0x", _key(b.args))


def _alias_shape(bres, sres):
    """exactly the known finding and nothing else: same number of results, same exception, and the only differing
    positions are calls that return the object's internal list, where the batch shows the FINAL list of this batch and the
    one-by-one run a proper prefix of it (the list at call time).  -> differing positions, or None"""
    bv, sv = bres["vals"], sres["vals"]
    if bres["kind"] != "stream" or len(bv) != len(sv):
        return None
    if (bres["exc"] is None) != (sres["exc"] is None) or (bres["exc"] is not None and not _exc_same(bres["exc"], sres["exc"])):
        return None
    snaps = [v for v in sv if _is_acc(v)]
    if not snaps:
        return None
    final = snaps[-1]
    diff = []
    for i, (x, y) in enumerate(zip(bv, sv)):
        if _key(x) == _key(y) and type(x) is type(y):
            continue
        if _is_acc(y) and _is_acc(x) and x == final and len(y) < len(final) and final[:len(y)] == y:
            diff.append(i)
        else:
            return None
    return diff or None


def _grew_after_sync(env, case, sync_at):
    """failure path only: did members of the oneway batch run AFTER the following plain call was served?"""
    obj = env.objs[case["srv"]][0]
    if len(obj.log) <= sync_at:
        threading.Event().wait(0.1)        # give a side thread that was just released the time to log its next call
    return len(obj.log) > sync_at


def _unconverted_member(case):
    """(index, value) of the first batch member with an argument (positional or keyword) that `marshal` cannot dump where it
    sits - asked of the marshal module itself, nothing of Pyro5 is involved"""
    for i, (n, a) in enumerate(case["calls"]):
        args, kwargs = ARGS[a]
        for v in list(args) + [kwargs[k] for k in sorted(kwargs)]:
            try:
                marshal.dumps(v)
            except ValueError:
                return i, v
    return None


def judge(env, case, bres, sres):
    """the property itself on the two REAL runs (no model involved) -> (signature, description) or None"""
    what = "%s/%s/%s batch of %d call(s)" % (case["ser"], "oneway" if case["oneway"] else "normal", case["srv"], len(case["calls"]))
    calls = " ".join("%s#%d" % (NAMES[n], a) for n, a in case["calls"][:14])
    if bres["kind"] == "submit" and isinstance(bres["exc"], ValueError) and "unmarshallable" in str(bres["exc"]) and \
            case["ser"] == "marshal" and not bres["log"] and _unconverted_member(case) is not None and \
            not (sres["exc"] is not None and _exc_same(bres["exc"], sres["exc"])):
        i, v = _unconverted_member(case)
        return (KNOWN_ARGCONV,
                "%s [%s]: submitting the batch raises %r on the client and nothing is executed: member %d carries the argument %r, "
                "which MarshalSerializer.dumpsCall converts when it is an argument of a plain call but not inside the "
                "(method, args, kwargs) tuple of a batch; one by one the calls give %d result(s)%s"
                % (what, calls, bres["exc"], i, v, len(sres["vals"]), "" if sres["exc"] is None else " then " + repr(sres["exc"])))
    if bres["kind"] == "submit" and isinstance(bres["exc"], AttributeError) and \
            "'NoneType' object has no attribute 'items'" in str(bres["exc"]) and \
            not (sres["exc"] is not None and _exc_same(bres["exc"], sres["exc"])):
        return ("%s-kwargs-none" % case["ser"],
                "%s [%s]: submitting the batch raises %r on the client before anything is sent (dumpsCall with kwargs=None); "
                "one by one the calls give %d result(s)%s" % (what, calls, bres["exc"], len(sres["vals"]),
                                                             "" if sres["exc"] is None else " then " + repr(sres["exc"])))
    if bres["kind"] == "submit" and sres["exc"] is not None and type(sres["exc"]).__name__ == "PyroError" and \
            str(sres["exc"]).startswith("Error serializing exception") and not _exc_same(bres["exc"], sres["exc"]):
        return ("unsendable-exception-fails-whole-batch",
                "%s [%s]: call %d raises an exception whose instance cannot be serialised; one by one the caller gets %d result(s) "
                "and then the describing %r; the batch fails as a whole at submission with %r (results lost, not the call's own error)"
                % (what, calls, len(sres["vals"]), len(sres["vals"]), sres["exc"], bres["exc"]))
    if bres["kind"] == "submit" and isinstance(bres["exc"], ValueError) and "unmarshallable" in str(bres["exc"]) and \
            not (sres["exc"] is not None and _exc_same(bres["exc"], sres["exc"])):
        return ("%s-unmarshallable-wrapper" % case["ser"],
                "%s [%s]: batch() raises %r (the server cannot serialise the reply list holding the exception wrapper); "
                "one by one the calls give %d result(s) then %r" % (what, calls, bres["exc"], len(sres["vals"]), sres["exc"]))
    if bres.get("sync_at") is not None and bres["sync_at"] < len(sres["log"]) and _grew_after_sync(env, case, bres["sync_at"]):
        return ("oneway-batch-overtaken-by-next-call",
                "%s [%s]: the plain call made right after the oneway batch on the same proxy was executed when %d of the %d "
                "member(s) that run one by one had been executed: the batch is not served in the connection's request order"
                % (what, calls, bres["sync_at"], len(sres["log"])))
    if (bres["q"], bres["log"]) != (sres["q"], sres["log"]):
        nb, ns = len(bres["log"]), len(sres["log"])
        sig = "executed-after-failure" if nb > ns else ("executed-too-few" if nb < ns else "state-differs")
        return (sig, "%s [%s]: remote object after the batch is in state q=%d having executed %s, after the one-by-one run "
                     "q=%d having executed %s" % (what, calls, bres["q"], _fmt_log(bres["log"]), sres["q"], _fmt_log(sres["log"])))
    if case["oneway"]:
        if bres["kind"] != "nothing":
            return ("oneway-returned", "%s [%s]: a oneway batch gave the caller %s %r" % (what, calls, bres["kind"], bres["exc"]))
        return None
    if bres["kind"] == "submit":
        # allowed only as the own exception of the first failing call
        if sres["exc"] is None:
            return ("submit-raised-unexpected", "%s [%s]: batch() raised %r but every call succeeds one by one" % (what, calls, bres["exc"]))
        if not _exc_same(bres["exc"], sres["exc"]):
            return ("exception-differs", "%s [%s]: batch() raised %r, the first failing call raises %r one by one"
                    % (what, calls, bres["exc"], sres["exc"]))
        return None
    if bres["kind"] != "stream":
        return ("no-result-sequence", "%s [%s]: batch() returned %s" % (what, calls, bres["kind"]))
    alias = _alias_shape(bres, sres)
    if alias:
        return (KNOWN_ALIAS,
                "%s [%s]: %s return the object's internal list itself; the batch serialises its results after the last call, so "
                "position(s) %s show the list as it is at the END of the batch (%r) where the same calls made one by one return "
                "it as it is at call time (%s); everything else agrees"
                % (what, calls, "acc#…", ",".join(str(i) for i in alias), bres["vals"][alias[0]],
                   ", ".join(repr(sres["vals"][i]) for i in alias[:3])))
    nb = len(bres["vals"])
    if bres["exc"] is not None and nb < len(sres["vals"]) and isinstance(sres["vals"][nb], BaseException) and \
            [_key(v) for v in bres["vals"]] == [_key(v) for v in sres["vals"][:nb]] and _exc_same(bres["exc"], sres["vals"][nb]):
        return ("returned-exception-raised",
                "%s [%s]: call %d succeeds and RETURNS the object %r (one by one it is returned and %d more result(s)%s follow); "
                "the batch raises it at that position as if the call had failed, nothing behind it is delivered"
                % (what, calls, nb, sres["vals"][nb], len(sres["vals"]) - nb - 1,
                   "" if sres["exc"] is None else " and then %r" % (sres["exc"],)))
    if [_key(v) for v in bres["vals"]] != [_key(v) for v in sres["vals"]] or \
            [type(v) for v in bres["vals"]] != [type(v) for v in sres["vals"]]:
        return ("results-differ", "%s [%s]: batch yields %r, one by one %r" % (what, calls, bres["vals"][:14], sres["vals"][:14]))
    if (bres["exc"] is None) != (sres["exc"] is None):
        return ("failure-lost" if bres["exc"] is None else "failure-invented",
                "%s [%s]: after %d result(s) the batch ends with %r, the one-by-one run with %r"
                % (what, calls, len(bres["vals"]), bres["exc"], sres["exc"]))
    if bres["exc"] is not None and not _exc_same(bres["exc"], sres["exc"]):
        return ("exception-differs", "%s [%s]: at position %d the batch raises %r, the call itself raises %r"
                % (what, calls, len(bres["vals"]), bres["exc"], sres["exc"]))
    return None


# ------------------------------------------------------------------------------------------------
# generator
# ------------------------------------------------------------------------------------------------
def gen_case(rng, maxlen, sers=SERIALIZERS):
    K = rng.choice([1, 2, 2, 3, 3, 4])
    mode = rng.choice(["clean", "clean", "onefail", "onefail", "random", "random", "hostile"])
    p_exc = {"clean": 0.0, "onefail": 0.0, "random": 0.12, "hostile": 0.35}[mode]
    p_row = 1.0 if mode in ("clean", "onefail") else rng.choice([1.0, 0.9])
    dyn = []
    for q in range(K):
        for n in N_DYN:
            c = rng.choice([0, 0, 0, E_MISSING, E_UNEXPOSED])
            if c != E_MISSING:
                dyn.append([q, n, c])
    dynmap = {(q, n): c for q, n, c in dyn}
    rows = []
    for q in range(K):
        for n in CALLABLE_NAMES:
            for a in GOOD_ARGS:
                if rng.random() < p_row:
                    if rng.random() < p_exc:
                        rows.append([q, n, a, rng.randrange(K), "e", rng.randint(1, N_EXC)])
                    else:
                        rows.append([q, n, a, rng.randrange(K), "o", rng.randrange(len(VALUES))])
    r = rng.random()
    if maxlen > 24 and r < 0.75:
        L = rng.randint(13, maxlen)          # the long-batch run of the thorough tier
    elif r < 0.06:
        L = 0
    elif r < 0.16:
        L = 1
    elif r < 0.85:
        L = rng.randint(2, min(8, maxlen))
    else:
        L = rng.randint(min(8, maxlen), maxlen)
    p_gate = {"clean": 0.0, "onefail": 0.0, "random": 0.06, "hostile": 0.2}[mode]
    p_bad = {"clean": 0.0, "onefail": 0.0, "random": 0.05, "hostile": 0.15}[mode]
    # walk the automaton so that "clean" really is clean (dynamic names only where they pass)
    rowmap = {(q, n, a): (q2, k, v) for q, n, a, q2, k, v in rows}
    case_q0 = rng.randrange(K)
    calls, q, alive = [], case_q0, True
    fail_at = rng.randrange(L) if (mode == "onefail" and L) else -1
    use_acc = rng.random() < 0.05
    use_conv = rng.random() < 0.07      # family: arguments that need the serializer's conversion (ids 9..14), all of them with rows
    if use_conv:
        for qq in range(K):
            for nn in (0, 1, 2):
                for aa in CONV_ARGS:
                    rows.append([qq, nn, aa, rng.randrange(K), "o", rng.randrange(len(VALUES))])
                    rowmap[(qq, nn, aa)] = tuple(rows[-1][3:])
    for i in range(L):
        if i == fail_at:
            kind = rng.choice(["gate", "gate", "exc", "exc", "bad", "dynoff"])
        else:
            x = rng.random()
            kind = "gate" if x < p_gate else ("bad" if x < p_gate + p_bad else "ok")
        if kind == "gate":
            n, a = rng.choice([3, 4, 5, 6, 7, 8, 11]), rng.choice(GOOD_ARGS)
        elif kind == "dynoff":
            off = [nn for nn in N_DYN if dynmap.get((q, nn), E_MISSING) != 0] if alive else []
            n, a = (rng.choice(off) if off else rng.choice([3, 8])), rng.choice(GOOD_ARGS)
        elif kind == "bad":
            n, a = rng.choice([0, 1, 2]), rng.choice(BAD_ARGS)
        else:
            names = [0, 1, 2] + ([nn for nn in N_DYN if dynmap.get((q, nn), E_MISSING) == 0] if alive else list(N_DYN))
            if mode in ("random", "hostile") and rng.random() < 0.1:
                names = list(CALLABLE_NAMES)
            n, a = rng.choice(names), rng.choice(GOOD_ARGS)
            if use_acc and kind == "ok" and rng.random() < 0.45:
                n = N_ACC                  # low weight family: a method handing out its internal list (known finding)
            elif use_conv and kind == "ok" and n in (0, 1, 2) and rng.random() < 0.5:
                a = rng.choice(CONV_ARGS)
            if kind == "exc" and alive:
                # plant a raising row here (state changes before the raise)
                rows[:] = [rw for rw in rows if (rw[0], rw[1], rw[2]) != (q, n, a)]
                rows.append([q, n, a, rng.randrange(K), "e", rng.randint(1, N_EXC)])
                rowmap[(q, n, a)] = tuple(rows[-1][3:])
        calls.append([n, a])
        # follow the reference semantics to know the state at the next position
        if alive and n != N_ACC:
            g = STATIC_GATE.get(n, dynmap.get((q, n), E_MISSING))
            if g != 0 or a in BAD_ARGS:
                alive = False
            else:
                row = rowmap.get((q, n, a))
                if row is None or row[1] == "e":
                    alive = False
                    q = row[0] if row else q
                else:
                    q = row[0]
    oneway = rng.random() < 0.3
    ser = rng.choice(sers)
    if ser in CONV_ARGS_OF:
        # only argument types this serializer supports at all: 13 -> 9, 14 -> 10 (rows exist for every conversion argument)
        calls = [[n, (a - 4 if a in CONV_ARGS and a not in CONV_ARGS_OF[ser] else a)] for n, a in calls]
    return {"ser": ser, "oneway": oneway, "hold": oneway and L >= 2 and rng.random() < 0.025, "srv": rng.choice(SERVERS), "K": K, "q0": case_q0,
            "dyn": dyn, "rows": rows, "calls": calls, "mode": mode}


def _gate_token(case):
    ents = []
    for q in range(case["K"]):
        for n, c in sorted(STATIC_GATE.items()):
            if c != E_MISSING:
                ents.append("%d.%d.%d" % (q, n, c))
    ents += ["%d.%d.%d" % (q, n, c) for q, n, c in case["dyn"]]
    return ",".join(ents) or "-"


def model_lines(case, pre):
    gate = _gate_token(case)
    bad = ",".join(str(a) for a in BAD_ARGS)
    rows = ",".join("%d.%d.%d.%d.%s.%d" % tuple(r) for r in case["rows"]) or "-"
    calls = ",".join("%d.%d" % (n, a) for n, a in case["calls"]) or "-"
    return ("batch %d %d %d %s %s %s %s" % (case["oneway"], pre, case["q0"], gate, bad, rows, calls),
            "seq %d %s %s %s %s" % (case["q0"], gate, bad, rows, calls))


def corpus_cases():
    d = os.path.join(common.VERIF, "corpus", "C11")
    out = []
    if os.path.isdir(d):
        for f in sorted(os.listdir(d)):
            if f.endswith(".json"):
                c = json.load(open(os.path.join(d, f)))
                # one case, or "cases": a history (run in this order on the same daemons)
                out += c["cases"] if "cases" in c else [c.get("case", c)]
    return out


# ------------------------------------------------------------------------------------------------
# histories: the daemons live for the whole run, so what a batch does may depend on the batches before it.
# A failure is therefore re-tried on FRESH daemons, alone and then behind the earlier cases of the run, and the
# earlier cases are cut down (delta debugging) to the few that are needed: the replay file is self-contained.
# ------------------------------------------------------------------------------------------------
_CASE_KEYS = ("ser", "oneway", "srv", "K", "q0", "dyn", "rows", "calls", "mode", "bypass", "hold", "ops")


def _slim(case):
    return {k: case[k] for k in _CASE_KEYS if k in case}


def _verdict_on_fresh_daemon(case, history):
    env = Env(servers=[case["srv"]])
    try:
        for h in history:
            verdict(env, h)
        return verdict(env, case)[0]
    finally:
        env.close()


def history_for(case, prior, sig, max_trials=60):
    """-> (history, how): the earlier cases needed to make `case` fail with `sig` on fresh daemons"""
    def fails(hist):
        v = _verdict_on_fresh_daemon(case, hist)
        return v is not None and v[0] == sig
    if fails([]):
        return [], "fails on a fresh daemon"
    cand = [_slim(c) for c in prior if c["srv"] == case["srv"] and c["ser"] == case["ser"]][-400:]
    if not cand or not fails(cand):
        cand = [_slim(c) for c in prior if c["srv"] == case["srv"]][-800:]
        if not cand or not fails(cand):
            return None, "seen once in this run, NOT reproduced on fresh daemons (alone or behind the earlier cases)"
    trials, n = 0, 2
    while len(cand) >= 2 and trials < max_trials:
        chunk = (len(cand) + n - 1) // n
        reduced = False
        for i in range(0, len(cand), chunk):
            trial = cand[:i] + cand[i + chunk:]
            trials += 1
            if trial and fails(trial):
                cand, n, reduced = trial, max(n - 1, 2), True
                break
            if trials >= max_trials:
                break
        if not reduced:
            if n >= len(cand):
                break
            n = min(len(cand), n * 2)
    return cand, "fails only after %d earlier batch(es) on the same daemon" % len(cand)


def _run(ctx, name, n, maxlen, do_model, sers=SERIALIZERS):
    rng = ctx.sub_rng(name)
    pre = {s: (0 if ok else 1) for s, ok in c11_extract.dumps_call_probe()}
    env = Env()
    per_sig = {}
    try:
        cases = [c for c in corpus_cases() if "ops" not in c] + [gen_case(rng, maxlen, sers) for _ in range(n)]
        lines, reals = [], []
        done = []
        for case in cases:
            bline, bres = run_batch(env, case)
            sline, sres = run_seq(env, case)
            ctx.evaluations += 1
            ctx.count("ser:" + case["ser"])
            ctx.count("mode:" + ("oneway" if case["oneway"] else "normal"))
            ctx.count("srv:" + case["srv"])
            ctx.count("len:" + ("0" if not case["calls"] else "1" if len(case["calls"]) == 1 else
                                "2-8" if len(case["calls"]) <= 8 else "9-12" if len(case["calls"]) <= 12 else "13+"))
            end = "all-ok" if sres["exc"] is None else env.exc_id(sres["exc"])
            end = {"E%d" % E_ARITY: "fail:TypeError-signature", "E%d" % E_PRIVATE: "fail:gate-private",
                   "E%d" % E_MISSING: "fail:gate-missing", "E%d" % E_UNEXPOSED: "fail:gate-unexposed",
                   "E%d" % E_NOROW: "fail:method-raised", "all-ok": "all-ok"}.get(end, "fail:method-raised" if end.startswith("E") else "fail:other")
            ctx.count("seq-end:" + end)
            if sres["exc"] is not None:
                pos = len(sres["vals"])
                ctx.count("failpos:" + ("first" if pos == 0 else "last" if pos == len(case["calls"]) - 1 else "middle"))
            ctx.count("batch-seen:" + bres["kind"])
            if case.get("hold") and case["oneway"]:
                ctx.count("oneway-batch-with-next-call-waiting")
            if any(isinstance(v, BaseException) for v in sres["vals"]):
                ctx.count("returned-exception-object:" + ("followed-by-results" if not isinstance(sres["vals"][-1], BaseException) else "last-result"))
            if sres["exc"] is not None and env.exc_id(sres["exc"]) in ("E9", "E10", "E11"):
                ctx.count("unsendable-exception-instance:" + case["ser"] + (":oneway" if case["oneway"] else ""))
            if len(bres["log"]) >= 2:
                ctx.nontriv([case["ser"], case["oneway"], case["srv"], case["q0"], case["dyn"], case["rows"], case["calls"]])
            # ---- D: the property on the real code
            v = judge(env, case, bres, sres)
            if v is not None:
                sig, desc = v
                per_sig[sig] = per_sig.get(sig, 0) + 1
                ctx.count("oracle-failure:" + sig)
                if per_sig[sig] <= 2:
                    hist, how = history_for(case, done, sig)
                    ctx.count("oracle-failure-history:" + ("none" if hist == [] else "not-reproduced" if hist is None else "needed"))
                    ctx.fail(sig, desc + " — " + how, dict(case, history=hist or []))
                if sig.endswith("-kwargs-none"):
                    # look behind F11: same batch, kwargs={} instead of None on the client
                    _, bres2 = run_batch(env, case, bypass=True)
                    v2 = judge(env, case, bres2, sres)
                    if v2 is not None and not v2[0].endswith("-kwargs-none"):
                        sig2, desc2 = v2
                        per_sig[sig2] = per_sig.get(sig2, 0) + 1
                        ctx.count("oracle-failure:" + sig2)
                        if per_sig[sig2] <= 2:
                            ctx.fail(sig2, "(behind F11, submitted with kwargs={}) " + desc2, dict(case, bypass=True))
            if len(ctx.samples) < 5 and 3 <= len(case["calls"]) <= 6 and sres["exc"] is not None and len(sres["vals"]) >= 1:
                ctx.sample({"case": {k: case[k] for k in ("ser", "oneway", "srv", "q0", "calls")}, "batch": bline, "sequential": sline})
            done.append(case)
            if do_model:
                ml = model_lines(case, pre.get(case["ser"], 0))
                if v is not None and v[0] in (KNOWN_ALIAS, KNOWN_ARGCONV):
                    # the known finding: the oracle has just checked that the batch agrees with the one-by-one run in everything
                    # but the aliased positions; the model (= the one-by-one spec) is compared with the one-by-one run only
                    ctx.count("known-finding-case:batch-line-not-compared-with-model")
                    lines.append(ml[1])
                    reals.append(("sequential", case, sline))
                else:
                    lines += list(ml)
                    reals += [("batch", case, bline), ("sequential", case, sline)]
        if do_model:
            outs = common.run_driver("drv_c11", lines)
            ctx.corr_cases += len(lines)
            nmis = 0
            for (suite, case, real), line, out in zip(reals, lines, outs):
                if real != out:
                    nmis += 1
                    if nmis <= 20:
                        ctx.mismatch(suite, {"line": line if len(line) < 700 else line[:700] + "...", "case": case}, real[:400], out[:400])
                    else:
                        ctx.count("mismatch-not-listed:" + suite)
    finally:
        env.close()


def _run_progs(ctx, name, n, do_model):
    """programs over several BatchProxy objects (record / copy / submit): real BatchProxy objects vs the model's runProg,
    and (oracle) vs the same program with every submit made one by one"""
    rng = ctx.sub_rng(name)
    pre = {s: (0 if ok else 1) for s, ok in c11_extract.dumps_call_probe()}
    env = Env()
    per_sig, done, lines, reals = {}, [], [], []
    try:
        cases = [c for c in corpus_cases() if "ops" in c] + [gen_prog(rng) for _ in range(n)]
        for case in cases:
            v, det = verdict(env, case)
            eff = det["eff"]
            ctx.evaluations += 1
            ctx.count("program:cases")
            ncopy = sum(1 for op in eff if op[0] == "c")
            nsub = sum(1 for op in eff if op[0] == "s")
            ctx.count("program:copies:" + ("0" if ncopy == 0 else "1" if ncopy == 1 else "2+"))
            # a copy that diverges from its original before either is submitted
            div = False
            for k, op in enumerate(eff):
                if op[0] == "c":
                    orig, cp = op[1], 1 + sum(1 for o2 in eff[:k] if o2[0] == "c")
                    for o2 in eff[k + 1:]:
                        if o2[0] == "s" and o2[1] in (orig, cp):
                            break
                        if o2[0] == "r" and o2[1] in (orig, cp):
                            div = True
                            break
            if div:
                ctx.count("program:copy-diverges-before-first-submit")
            if nsub >= 2 and len(det["bouts"]) and len(det["bouts"][-1]["log"]) >= 2:
                ctx.nontriv(["prog", case["ser"], case["srv"], case["q0"], case["dyn"], case["rows"], eff])
            if v is not None:
                sig, desc = v
                per_sig[sig] = per_sig.get(sig, 0) + 1
                ctx.count("oracle-failure:" + sig)
                if per_sig[sig] <= 2:
                    hist, how = history_for(case, done, sig)
                    ctx.fail(sig, desc + " — " + how, dict(case, history=hist or []))
            if len(ctx.samples) < 7 and ncopy and nsub >= 2 and div:
                ctx.sample({"program": _fmt_ops(eff), "ser": case["ser"], "real": det["line"]})
            done.append(case)
            if do_model and v is not None and v[0] == KNOWN_ALIAS:
                ctx.count("known-finding-case:program-line-not-compared-with-model")
            elif do_model:
                lines.append("prog %d %d %s %s %s %s" % (pre.get(case["ser"], 0), case["q0"], _gate_token(case),
                                                        ",".join(str(a) for a in BAD_ARGS),
                                                        ",".join("%d.%d.%d.%d.%s.%d" % tuple(r) for r in case["rows"]) or "-",
                                                        _fmt_ops(eff)))
                reals.append((case, det["line"]))
        if do_model:
            outs = common.run_driver("drv_c11", lines)
            ctx.corr_cases += len(lines)
            nmis = 0
            for (case, real), line, out in zip(reals, lines, outs):
                if real != out:
                    nmis += 1
                    if nmis <= 20:
                        ctx.mismatch("program", {"line": line if len(line) < 700 else line[:700] + "...", "case": case}, real[:400], out[:400])
    finally:
        env.close()


def correspondence(ctx):
    _run(ctx, "corr", ctx.n(4000, 80000), 12, True)
    _run_progs(ctx, "prog", ctx.n(700, 10000), True)
    if ctx.tier == "thorough":
        _run(ctx, "corr-long", 3000, 200, True)


def oracle(ctx):
    # step D runs inside _run on the same cases (judge() looks at the two real runs only);
    # in search mode: fresh cases, all serializers, longer batches
    if ctx.search_mode:
        _run(ctx, "search", ctx.n(3000, 20000), 24, False)
        _run_progs(ctx, "search-prog", ctx.n(700, 5000), False)


def replay(ctx, case):
    f = case.get("failing_input") or {}
    c = f.get("case")
    if not c:
        print("replay file names no failing input:", case.get("no_longer_checks"))
        return 1
    env = Env()
    try:
        for i, h in enumerate(c.get("history") or []):
            _, hd = verdict(env, h)
            print("earlier %s %d on the same daemon (%s): %s  ->  %s" % (
                "program" if "ops" in h else "batch", i + 1, h["ser"],
                _fmt_ops(hd["eff"]) if "ops" in h else " ".join("%s#%d" % (NAMES[n], a) for n, a in h["calls"]),
                hd.get("line") or hd.get("bline")))
        if "ops" in c:
            v, det = verdict(env, c)
            print("program    : %s   (r.i.n.a = record call n#a on BatchProxy i, c.i = copy.copy(BatchProxy i), s.i.w = submit; %s, %s server)"
                  % (_fmt_ops(det["eff"]), c["ser"], c["srv"]))
            print("real       : %s" % det["line"])
            for k, so in enumerate(det["souts"]):
                print("submit #%d one by one (BatchProxy %d, recorded %s): vals=%s fail=%s   state after: q=%d log=%s" % (
                    k + 1, so["bp"], " ".join("%s#%d" % (NAMES[n], a) for n, a in so["calls"]) or "-",
                    ",".join(env.val_id(x) for x in so["vals"]) or "-", env.exc_id(so["exc"]) if so["exc"] is not None else "-",
                    so["q"], _fmt_log(so["log"])))
            if v:
                print("VIOLATION reproduced [%s]: %s" % v)
                return 1
            print("not reproduced")
            return 0
        bline, bres = run_batch(env, c, bypass=bool(c.get("bypass")))
        sline, sres = run_seq(env, c)
        print("calls      :", " ".join("%s%r" % (NAMES[n], ARGS[a]) for n, a in c["calls"]))
        print("batch      : %s  (%s, %s, %s server)" % (bline, c["ser"], "oneway" if c["oneway"] else "normal", c["srv"]))
        if bres["exc"] is not None:
            print("             raised %r" % (bres["exc"],))
        print("one by one : %s" % sline)
        if sres["exc"] is not None:
            print("             raised %r" % (sres["exc"],))
        v = judge(env, c, bres, sres)
    finally:
        env.close()
    if v:
        print("VIOLATION reproduced [%s]: %s" % v)
        return 1
    print("not reproduced")
    return 0


def extract():
    return c11_extract.extract()
