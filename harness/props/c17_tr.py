"""C17 - per-property translator: the back-off generator `__retrydelays` of Pyro5/socketutil.py -> Lean (shallow embedding).

A generator of the accepted fragment is
    <straight-line prefix>            yield e | yield from <tuple of e> | x = e | x += e      (e closed after the prefix's bindings)
    [ while True: <straight-line body> ]     the same statement kinds, e over the locals
The prefix is evaluated here (exact decimal arithmetic on the literals: partial evaluation, every value it yields and every local it
leaves is a constant); the loop body becomes a Lean function `Locals -> List Nat x Locals` (values yielded by one pass, locals after
it).  Numbers are integer multiples of 1/delayDen seconds (delayDen = lcm of the literals' denominators, emitted as a fact).

SOUND BY REFUSAL: every statement / expression / operator / call that is not listed above raises `Untranslatable`.
Skipped silently: docstrings, `log.*(...)` calls, annotations (comments are not in the AST).
Normalised: locals are named v0, v1, ... in order of first binding; module-level constants (numbers, tuples of numbers) are resolved
through the real module; `yield from (a, b)` = `yield a; yield b`; `x = x + e` = `x += e`; helper generators of the same module
called as `yield from helper()` are inlined when they are themselves prefix-only.
"""
import ast
import inspect
import textwrap
from fractions import Fraction
from math import lcm


class Untranslatable(Exception):
    pass


def _num(v):
    """exact value of a python number literal (the shortest decimal that round-trips = what the programmer wrote)"""
    if isinstance(v, bool) or not isinstance(v, (int, float)):
        raise Untranslatable("constant %r is not a number" % (v,))
    if isinstance(v, float) and (v != v or v in (float("inf"), float("-inf"))):
        raise Untranslatable("non-finite constant %r" % (v,))
    f = Fraction(repr(v))
    if f < 0:
        raise Untranslatable("negative constant %r" % (v,))
    return f


class GenTr:
    def __init__(self, module, fname):
        self.mod = module
        fn = getattr(module, fname, None)
        if fn is None:
            # name-mangling does not apply at module level; a private name is found as it is
            raise Untranslatable("no function %s" % fname)
        if not inspect.isgeneratorfunction(fn):
            raise Untranslatable("%s is not a generator function" % fname)
        src = textwrap.dedent(inspect.getsource(fn))
        node = ast.parse(src).body[0]
        if not isinstance(node, ast.FunctionDef):
            raise Untranslatable("not a plain def")
        a = node.args
        if a.args or a.posonlyargs or a.kwonlyargs or a.vararg or a.kwarg or node.decorator_list:
            raise Untranslatable("parameters / decorators")
        self.fn = node
        self.names = {}          # python local -> canonical index
        self.consts = []         # every exact constant met (for the unit)

    # ---- helpers
    def _body(self, stmts):
        out = []
        for i, s in enumerate(stmts):
            if isinstance(s, ast.Expr) and isinstance(s.value, ast.Constant) and isinstance(s.value.value, str):
                continue                                   # docstring
            if isinstance(s, ast.Expr) and isinstance(s.value, ast.Call) and isinstance(s.value.func, ast.Attribute) \
                    and isinstance(s.value.func.value, ast.Name) and s.value.func.value.id == "log":
                continue                                   # log.debug(...)
            out.append(s)
        return out

    def _local(self, name, bind=False):
        if name not in self.names:
            if not bind:
                return None
            self.names[name] = len(self.names)
        return self.names[name]

    def _modconst(self, name):
        if not hasattr(self.mod, name):
            raise Untranslatable("unknown name %s" % name)
        return getattr(self.mod, name)

    # expressions -> ("c", Fraction) | ("v", idx) | ("+", a, b) | ("*", a, intconst)
    def expr(self, e):
        if isinstance(e, ast.Constant):
            f = _num(e.value)
            self.consts.append(f)
            return ("c", f)
        if isinstance(e, ast.Name):
            i = self._local(e.id)
            if i is not None:
                return ("v", i)
            f = _num(self._modconst(e.id))
            self.consts.append(f)
            return ("c", f)
        if isinstance(e, ast.BinOp) and isinstance(e.op, ast.Add):
            return ("+", self.expr(e.left), self.expr(e.right))
        if isinstance(e, ast.BinOp) and isinstance(e.op, ast.Mult):
            l, r = self.expr(e.left), self.expr(e.right)
            for a, b in ((l, r), (r, l)):
                if b[0] == "c" and b[1].denominator == 1:
                    return ("*", a, int(b[1]))
            raise Untranslatable("product of two non-integer quantities")
        raise Untranslatable("expression %s" % ast.dump(e)[:80])

    def tuple_of(self, e):
        """elements of `yield from <e>`: a tuple/list literal or a module constant that is a tuple/list of numbers"""
        if isinstance(e, (ast.Tuple, ast.List)):
            return [self.expr(x) for x in e.elts]
        if isinstance(e, ast.Name) and self._local(e.id) is None:
            v = self._modconst(e.id)
            if isinstance(v, (tuple, list)):
                fs = [_num(x) for x in v]
                self.consts.extend(fs)
                return [("c", f) for f in fs]
        raise Untranslatable("yield from %s" % ast.dump(e)[:80])

    # statements -> list of ("yield", e) | ("set", idx, e)
    def stmt(self, s):
        if isinstance(s, ast.Expr) and isinstance(s.value, ast.Yield):
            if s.value.value is None:
                raise Untranslatable("bare yield")
            return [("yield", self.expr(s.value.value))]
        if isinstance(s, ast.Expr) and isinstance(s.value, ast.YieldFrom):
            return [("yield", x) for x in self.tuple_of(s.value.value)]
        if isinstance(s, (ast.Assign, ast.AnnAssign)):
            if isinstance(s, ast.Assign):
                if len(s.targets) != 1:
                    raise Untranslatable("multiple assignment")
                tgt, val = s.targets[0], s.value
            else:
                tgt, val = s.target, s.value
                if val is None:
                    return []                              # bare annotation
            if not isinstance(tgt, ast.Name):
                raise Untranslatable("assignment target")
            e = self.expr(val)                             # evaluate before binding
            return [("set", self._local(tgt.id, bind=True), e)]
        if isinstance(s, ast.AugAssign):
            if not isinstance(s.target, ast.Name) or self._local(s.target.id) is None:
                raise Untranslatable("augmented assignment target")
            i = self._local(s.target.id)
            if isinstance(s.op, ast.Add):
                return [("set", i, ("+", ("v", i), self.expr(s.value)))]
            if isinstance(s.op, ast.Mult):
                r = self.expr(s.value)
                if r[0] == "c" and r[1].denominator == 1:
                    return [("set", i, ("*", ("v", i), int(r[1])))]
            raise Untranslatable("augmented assignment operator %s" % type(s.op).__name__)
        if isinstance(s, ast.For):
            # `for x in <tuple of constants>: <straight-line body>` = the body once per element, x bound to it (finite unrolling)
            if s.orelse or not isinstance(s.target, ast.Name):
                raise Untranslatable("for: else-branch / target")
            elems = self.tuple_of(s.iter)
            if any(e[0] != "c" for e in elems):
                raise Untranslatable("for over non-constant elements")
            for b in self._body(s.body):
                if isinstance(b, (ast.For, ast.While)):
                    raise Untranslatable("nested loop")
            out = []
            for e in elems:
                out.append(("set", self._local(s.target.id, bind=True), e))
                for b in self._body(s.body):
                    out.extend(self.stmt(b))
            return out
        raise Untranslatable("statement %s" % type(s).__name__)

    def _inline_tail(self, stmts, depth=0):
        """a trailing `yield from g(<args>)`, g a generator function of the same module: g's body with its parameters bound to the
        arguments (evaluated in the caller), g's own names kept apart from the caller's by a prefix.  Delegating with `yield from`
        as the LAST statement yields exactly what g yields and then ends when g ends."""
        if not stmts:
            return stmts
        last = stmts[-1]
        if not (isinstance(last, ast.Expr) and isinstance(last.value, ast.YieldFrom) and isinstance(last.value.value, ast.Call)):
            return stmts
        call = last.value.value
        if not isinstance(call.func, ast.Name) or self._local(call.func.id) is not None or call.keywords:
            raise Untranslatable("yield from call of %s" % ast.dump(call.func)[:60])
        g = getattr(self.mod, call.func.id, None)
        if depth > 3 or g is None or not inspect.isgeneratorfunction(g) or g.__module__ != self.mod.__name__:
            raise Untranslatable("yield from %s(...): not a generator function of this module" % call.func.id)
        gn = ast.parse(textwrap.dedent(inspect.getsource(g))).body[0]
        a = gn.args
        if not isinstance(gn, ast.FunctionDef) or a.posonlyargs or a.kwonlyargs or a.vararg or a.kwarg or a.defaults \
                or gn.decorator_list or len(a.args) != len(call.args) or any(isinstance(x, ast.Starred) for x in call.args):
            raise Untranslatable("yield from %s(...): signature" % call.func.id)
        params = [x.arg for x in a.args]
        own = set(params)
        for n in ast.walk(gn):
            if isinstance(n, ast.Name) and isinstance(n.ctx, ast.Store):
                own.add(n.id)
            if isinstance(n, (ast.Global, ast.Nonlocal, ast.Lambda, ast.FunctionDef)) and n is not gn:
                raise Untranslatable("yield from %s(...): scope statement" % call.func.id)
        pref = "%s$%d$" % (call.func.id, depth)
        for n in ast.walk(gn):
            if isinstance(n, ast.Name) and n.id in own:
                n.id = pref + n.id
        binds = [ast.Assign(targets=[ast.Name(id=pref + p_, ctx=ast.Store())], value=v) for p_, v in zip(params, call.args)]
        return self._inline_tail(stmts[:-1] + binds + self._body(gn.body), depth + 1)

    def translate(self):
        stmts = self._inline_tail(self._body(self.fn.body))
        loop = None
        if stmts and isinstance(stmts[-1], ast.While):
            loop = stmts.pop()
            t = loop.test
            if not (isinstance(t, ast.Constant) and t.value in (True, 1) and not loop.orelse):
                raise Untranslatable("loop condition is not the constant True")
        pre = [x for s in stmts for x in self.stmt(s)]
        body = [x for s in self._body(loop.body) for x in self.stmt(s)] if loop is not None else []
        # ---- partial evaluation of the prefix
        env, yielded = {}, []

        def ev(e):
            if e[0] == "c":
                return e[1]
            if e[0] == "v":
                if e[1] not in env:
                    raise Untranslatable("local read before assignment")
                return env[e[1]]
            if e[0] == "+":
                return ev(e[1]) + ev(e[2])
            return ev(e[1]) * e[2]
        for x in pre:
            if x[0] == "yield":
                yielded.append(ev(x[1]))
            else:
                env[x[1]] = ev(x[2])
        if loop is not None:
            def used(e, acc):
                if e[0] == "v":
                    acc.append(e[1])
                elif e[0] in "+*":
                    used(e[1], acc)
                    if e[0] == "+":
                        used(e[2], acc)
                return acc
            written = {x[1] for x in body if x[0] == "set"}

            def subst(e):          # a local the loop never assigns keeps its value at loop entry: a constant
                if e[0] == "v" and e[1] not in written:
                    if e[1] not in env:
                        raise Untranslatable("local read before assignment")
                    return ("c", env[e[1]])
                if e[0] == "+":
                    return ("+", subst(e[1]), subst(e[2]))
                if e[0] == "*":
                    return ("*", subst(e[1]), e[2])
                return e
            body = [(x[0], subst(x[1])) if x[0] == "yield" else (x[0], x[1], subst(x[2])) for x in body]
            # only the locals the loop mentions are its state; renumbered in order of first mention
            order = []
            for x in body:
                for i in ([x[1]] if x[0] == "set" else []) + used(x[-1], []):
                    if i not in order:
                        order.append(i)
            # (a `set` evaluates its right-hand side first, but numbering by statement is canonical enough and deterministic)
            ren = {i: k for k, i in enumerate(order)}

            def rn(e):
                if e[0] == "v":
                    return ("v", ren[e[1]])
                if e[0] == "+":
                    return ("+", rn(e[1]), rn(e[2]))
                if e[0] == "*":
                    return ("*", rn(e[1]), e[2])
                return e
            body = [(x[0], rn(x[1])) if x[0] == "yield" else (x[0], ren[x[1]], rn(x[2])) for x in body]
            if any(i not in env for i in order):
                raise Untranslatable("a local of the loop is not bound before it")
            env = {ren[i]: env[i] for i in order}
            nloc = len(order)
        else:
            nloc = 0
            env = {}
        den = 1
        for f in self.consts + yielded + list(env.values()):
            den = lcm(den, f.denominator)
        u = lambda f: int(f * den)

        def lean(e):
            if e[0] == "c":
                return str(u(e[1]))
            if e[0] == "v":
                return "s.v%d" % e[1]
            if e[0] == "+":
                return "(%s + %s)" % (lean(e[1]), lean(e[2]))
            return "(%s * %d)" % (lean(e[1]), e[2])
        # loop body as sequential lets, in statement order (a yield sees the updates before it and none after it)
        lines, ycount = [], 0
        for x in body:
            if x[0] == "yield":
                lines.append("let y%d : Nat := %s" % (ycount, lean(x[1])))
                ycount += 1
            else:
                lines.append("let s : Locals := { s with v%d := %s }" % (x[1], lean(x[2])))
        struct = ("structure Locals where\n" + "".join("  v%d : Nat\n" % i for i in range(nloc))) if nloc else \
            "structure Locals where\n  unit : Unit := ()\n"
        init = "{ " + ", ".join("v%d := %d" % (i, u(env[i])) for i in range(nloc)) + " }" if (nloc and loop is not None) else \
            ("{ " + ", ".join("v%d := %d" % (i, u(env.get(i, Fraction(0)))) for i in range(nloc)) + " }" if nloc else "{}")
        bodytxt = "\n".join("  " + l for l in lines) + ("\n" if lines else "") + \
            "  ([%s], s)" % ", ".join("y%d" % i for i in range(ycount))
        return {
            "den": den, "pre": [u(f) for f in yielded], "loops": loop is not None,
            "lean": f"""{struct}  deriving Repr, DecidableEq
/-- every number below counts units of 1/delayDen second (lcm of the denominators of the source's literals) -/
def delayDen : Nat := {den}
/-- the values yielded before the loop, in order (the straight-line prefix, evaluated) -/
def retryDelaysPre : List Nat := {[u(f) for f in yielded]}
/-- the locals when the loop is entered -/
def retryDelaysInit : Locals := {init}
/-- one pass through the body of `while True:` - the values it yields, in order, and the locals afterwards -/
def retryDelaysBody (s : Locals) : List Nat × Locals :=
{bodytxt}
/-- the generator ends in `while True:` (otherwise it is exhausted after the prefix and `next` raises StopIteration) -/
def retryDelaysLoops : Bool := {"true" if loop is not None else "false"}
""",
        }


def retrydelays(module):
    """find the generator the transfer functions draw their delays from: the module-level generator function whose name ends in
    `retrydelays` (the leading underscores are private-name decoration)"""
    cands = [n for n, o in vars(module).items() if inspect.isgeneratorfunction(o) and o.__module__ == module.__name__
             and n.lstrip("_").lower() in ("retrydelays", "retry_delays")]
    if len(cands) != 1:
        raise Untranslatable("back-off generator not found (candidates: %r)" % cands)
    return GenTr(module, cands[0]).translate()
