"""
C08, client side of the handshake (client.py connect_and_handshake): whatever serializer the daemon answers a
refused handshake in, the connecting Proxy raises a CommunicationError that carries the daemon's reason, and is
left unconnected.  A real Proxy is connected (connected_socket=) to a scripted peer over a socketpair.
Real-code oracle only.
"""
import socket
import threading

import common


def run(ctx):
    common.repo_on_path()
    from Pyro5 import client, protocol, serializers, errors, config
    rng = ctx.sub_rng("client-handshake")
    saved = config.SERIALIZER
    try:
        for i in range(ctx.n(12, 200)):
            req_ser = rng.choice(["serpent", "json", "marshal", "msgpack"])
            ans_ser = rng.choice(["serpent", "json", "marshal", "msgpack"])
            reason = "denied-%d no free workers" % rng.randint(0, 999)
            config.SERIALIZER = req_ser
            lst = socket.socket(socket.AF_INET, socket.SOCK_STREAM)
            lst.bind(("127.0.0.1", 0))
            lst.listen(1)
            lst.settimeout(5)
            port = lst.getsockname()[1]

            def peer():
                try:
                    b, _ = lst.accept()
                    b.settimeout(5)
                    conn_b = __import__("Pyro5.socketutil", fromlist=["x"]).SocketConnection(b, keep_open=True)
                    msg = protocol.recv_stub(conn_b, [protocol.MSG_CONNECT])
                    ser = serializers.serializers[ans_ser]
                    out = protocol.SendingMessage(protocol.MSG_CONNECTFAIL, 0, msg.seq, ser.serializer_id, ser.dumps(reason))
                    b.sendall(out.data)
                    try:
                        b.recv(1)        # wait for the client to hang up
                    except Exception:
                        pass
                    b.close()
                except Exception:
                    pass
            th = threading.Thread(target=peer, daemon=True)
            th.start()
            p = client.Proxy("PYRO:obj@127.0.0.1:%d" % port)
            got = None
            try:
                p._pyroBind()
                got = "connected"
            except errors.CommunicationError as x:
                got = ("comm", str(x))
            except Exception as x:
                got = ("other", type(x).__name__, str(x))
            connected = p._pyroConnection is not None
            p._pyroRelease()
            th.join(5)
            ctx.evaluations += 1
            case = {"request_serializer": req_ser, "answer_serializer": ans_ser, "reason": reason}
            if got == "connected" or got[0] != "comm" or reason not in got[1]:
                ctx.fail("client-connectfail-reason-lost", "a Proxy (%s) refused with CONNECTFAIL(%r) answered in %s saw %r instead of a "
                         "CommunicationError carrying the reason" % (req_ser, reason, ans_ser, got), case)
            elif connected:
                ctx.fail("client-connected-after-connectfail", "the Proxy counts as connected after a CONNECTFAIL", case)
            if req_ser != ans_ser:
                ctx.nontriv(("client-handshake", req_ser, ans_ser))
            lst.close()
    finally:
        config.SERIALIZER = saved
