"""C07 extractor: the exception whitelist, the class relations the server/client test with isinstance, and the
source shape of the exception paths (serializers.py, server.py, client.py, core.py) -> lean/PyroModel/Gen/C07.lean."""
import ast
import importlib
import json
import os

import common


def _lstr(s):
    return json.dumps(s, ensure_ascii=True)


def _chars(s):
    """Lean `List Char` term, spelled out (kernel-friendly for `decide`)"""
    out = []
    for c in s:
        if not (32 <= ord(c) < 127):
            raise RuntimeError("non-ASCII name %r" % s)
        out.append("'\\''" if c == "'" else ("'\\\\'" if c == "\\" else "'%s'" % c))
    return "[" + ",".join(out) + "]"


def _b(x):
    return "true" if x else "false"


def qual(t):
    return t.__module__ + "." + t.__name__


def _kinds(mod, base, only=None):
    rows = []
    for name, t in sorted(vars(mod).items()):
        if only is not None and not only(name):
            continue
        if not isinstance(name, str) or any(ord(c) < 32 or ord(c) > 126 for c in name):
            raise RuntimeError("unexpected attribute name %r in %s" % (name, mod.__name__))
        if isinstance(t, type):
            rows.append((name, (".exc " + _chars(qual(t))) if issubclass(t, base) else ".cls"))
        else:
            rows.append((name, ".other"))
    return rows


def _fn(tree, cls, name):
    for n in tree.body:
        if cls is None and isinstance(n, ast.FunctionDef) and n.name == name:
            return n
        if isinstance(n, ast.ClassDef) and n.name == cls:
            for m in n.body:
                if isinstance(m, ast.FunctionDef) and m.name == name:
                    return m
    raise RuntimeError("source shape: %s.%s not found" % (cls, name))


def _handler_types(h):
    if h.type is None:
        return ["<bare>"]
    if isinstance(h.type, ast.Tuple):
        return [ast.unparse(e) for e in h.type.elts]
    return [ast.unparse(h.type)]


def _server_facts(server):
    tree = ast.parse(open(server.__file__).read())
    hr = _fn(tree, "Daemon", "handleRequest")
    tries = [n for n in hr.body if isinstance(n, ast.Try)]
    if len(tries) != 2:
        raise RuntimeError("source shape: handleRequest should hold two try statements, found %d" % len(tries))
    outer = tries[1]
    if len(outer.handlers) != 1:
        raise RuntimeError("source shape: handleRequest's main try has %d handlers" % len(outer.handlers))
    h = outer.handlers[0]
    facts = {"outerCatches": _handler_types(h), "outerName": h.name}
    # the decision list of the handler body: nested `if` tests in order, the calls they guard, the final re-raise test
    guards, sends, reraise = [], [], None

    def walk_ifs(stmts, depth):
        nonlocal reraise
        for s in stmts:
            if isinstance(s, ast.If):
                has_raise = any(isinstance(x, ast.Raise) for x in s.body)
                if has_raise and depth == 0:
                    if len(s.body) != 1 or s.body[0].exc is not None or s.orelse:
                        raise RuntimeError("source shape: re-raise statement of handleRequest")
                    reraise = ast.unparse(s.test)
                else:
                    guards.append(ast.unparse(s.test))
                    if s.orelse:
                        raise RuntimeError("source shape: else branch in handleRequest's error handler")
                    walk_ifs(s.body, depth + 1)
            elif isinstance(s, ast.Expr) and isinstance(s.value, ast.Call):
                sends.append(ast.unparse(s.value.func))
    walk_ifs(h.body, 0)
    facts["replyGuards"] = guards
    facts["replyCalls"] = sends
    facts["reraiseTest"] = reraise or "<none>"
    # the batch loop: handler class, what is put into the wrapper
    loops = [n for n in ast.walk(outer) if isinstance(n, ast.For) and ast.unparse(n.iter) == "vargs"]
    if len(loops) != 1:
        raise RuntimeError("source shape: batch loop of handleRequest not found")
    btries = [n for n in loops[0].body if isinstance(n, ast.Try)]
    if len(btries) != 1 or len(btries[0].handlers) != 1:
        raise RuntimeError("source shape: try statement of the batch loop")
    bh = btries[0].handlers[0]
    facts["batchCatches"] = _handler_types(bh)
    wraps = [n for n in ast.walk(bh) if isinstance(n, ast.Call) and ast.unparse(n.func).endswith("_ExceptionWrapper")]
    if len(wraps) != 1 or len(wraps[0].args) != 1 or not isinstance(wraps[0].args[0], ast.Name):
        raise RuntimeError("source shape: _ExceptionWrapper(...) call of the batch loop")
    wrapped = wraps[0].args[0].id
    if wrapped == bh.name:
        facts["batchFallback"] = False           # the raised exception itself is wrapped, serialisable or not
    else:
        src = None
        for n in ast.walk(bh):
            if isinstance(n, ast.Assign) and isinstance(n.value, ast.Call):
                names = [e.id for t in n.targets for e in (t.elts if isinstance(t, ast.Tuple) else [t]) if isinstance(e, ast.Name)]
                if wrapped in names:
                    src = ast.unparse(n.value.func)
        if src != "self._serializeException":
            raise RuntimeError("source shape: the batch loop wraps %r, assigned from %r" % (wrapped, src))
        facts["batchFallback"] = True
    if not any(isinstance(n, ast.Break) for n in bh.body):
        raise RuntimeError("source shape: the batch loop does not stop at the first exception")
    facts["batchSetsTraceback"] = any("format_traceback" in ast.unparse(n) for n in bh.body)
    # the fallback: whichever function holds the "Error serializing exception" format
    fb = None
    for name in ("_serializeException", "_sendExceptionResponse"):
        try:
            f = _fn(tree, "Daemon", name)
        except RuntimeError:
            continue
        for n in ast.walk(f):
            if isinstance(n, ast.BinOp) and isinstance(n.op, ast.Mod) and isinstance(n.left, ast.Constant) \
                    and isinstance(n.left.value, str) and "Original exception" in n.left.value:
                fb = (f, n)
        if fb:
            break
    if not fb:
        raise RuntimeError("source shape: fallback message not found")
    f, n = fb
    facts["fallbackFormat"] = n.left.value
    facts["fallbackArgs"] = [ast.unparse(e) for e in (n.right.elts if isinstance(n.right, ast.Tuple) else [n.right])]
    ftries = [t for t in ast.walk(f) if isinstance(t, ast.Try)]
    if len(ftries) != 1 or len(ftries[0].handlers) != 1:
        raise RuntimeError("source shape: try statement around dumps(exc_value)")
    facts["fallbackCatches"] = _handler_types(ftries[0].handlers[0])
    facts["fallbackTry"] = [ast.unparse(s) for s in ftries[0].body]
    ctor = [c for c in ast.walk(ftries[0].handlers[0]) if isinstance(c, ast.Call) and ast.unparse(c.func).startswith("errors.")]
    facts["fallbackClass"] = [ast.unparse(c.func) for c in ctor]
    tbattr = sorted({ast.unparse(t) for a in ast.walk(f) if isinstance(a, ast.Assign) for t in a.targets
                     if isinstance(t, ast.Attribute)})
    facts["tracebackTargets"] = tbattr
    se = _fn(tree, "Daemon", "_sendExceptionResponse")
    facts["exceptionFlag"] = [ast.unparse(s) for s in se.body if isinstance(s, ast.AugAssign)]
    # stream items: DaemonObject.get_next_stream_item re-raises whatever next() raised
    gn = _fn(tree, "DaemonObject", "get_next_stream_item")
    gtries = [t for t in gn.body if isinstance(t, ast.Try)]
    if len(gtries) != 1 or len(gtries[0].handlers) != 1:
        raise RuntimeError("source shape: get_next_stream_item")
    gh = gtries[0].handlers[0]
    facts["streamCatches"] = _handler_types(gh)
    facts["streamReraises"] = any(isinstance(s, ast.Raise) and s.exc is None for s in gh.body)
    # attribute access: the accessor of the class's property object is called directly (no attribute protocol of the
    # instance in between, so a getter's AttributeError cannot be diverted to the instance's __getattr__)
    for fname, key in (("_get_exposed_property_value", "propGetReturns"), ("_set_exposed_property_value", "propSetReturns")):
        f = _fn(tree, None, fname)
        facts[key] = [ast.unparse(n.value) for n in ast.walk(f) if isinstance(n, ast.Return) and n.value is not None]
        facts[key + "Lookup"] = [ast.unparse(n.value) for n in ast.walk(f) if isinstance(n, ast.Assign)
                                 and any(isinstance(t, ast.Name) and t.id == "v" for t in n.targets)]
    return facts


def _client_facts(client):
    tree = ast.parse(open(client.__file__).read())
    inv = _fn(tree, "Proxy", "_pyroInvoke")
    tries = [n for n in inv.body if isinstance(n, ast.Try)]
    if len(tries) != 1 or len(tries[0].handlers) != 1:
        raise RuntimeError("source shape: try statement of _pyroInvoke")
    facts = {"clientReleaseOn": _handler_types(tries[0].handlers[0])}
    facts["clientReleaseBody"] = [ast.unparse(s) for s in tries[0].handlers[0].body]
    raises = []
    for n in ast.walk(tries[0]):
        if isinstance(n, ast.If) and any(isinstance(s, ast.Raise) and s.exc is not None and ast.unparse(s.exc) == "data" for s in n.body):
            raises.append(ast.unparse(n.test))
    facts["clientRaiseTest"] = raises
    rm = _fn(tree, "_RemoteMethod", "__call__")
    loops = [n for n in rm.body if isinstance(n, ast.For)]
    if len(rm.body) != 1 or len(loops) != 1 or loops[0].orelse:
        raise RuntimeError("source shape: _RemoteMethod.__call__ is not a single for loop")
    lp = loops[0]
    if len(lp.body) != 1 or not isinstance(lp.body[0], ast.Try) or len(lp.body[0].handlers) != 1 or lp.body[0].orelse \
            or lp.body[0].finalbody:
        raise RuntimeError("source shape: body of the retry loop")
    tr = lp.body[0]
    facts["retryTarget"] = ast.unparse(lp.target)
    facts["retryRange"] = ast.unparse(lp.iter)
    facts["retryTry"] = [ast.unparse(x) for x in tr.body]
    facts["retryCatches"] = _handler_types(tr.handlers[0])
    facts["retryHandler"] = [ast.unparse(x) for x in tr.handlers[0].body]
    ga = _fn(tree, "Proxy", "__getattr__")
    facts["attrReadCalls"] = [ast.unparse(n.value) for n in ast.walk(ga) if isinstance(n, ast.Return)]
    bp = None
    for n in tree.body:
        if isinstance(n, ast.ClassDef) and n.name == "BatchProxy":
            for m in n.body:
                if isinstance(m, ast.FunctionDef) and m.name.endswith("resultsgenerator"):
                    bp = m
    if bp is None:
        raise RuntimeError("source shape: BatchProxy result generator")
    facts["batchResultIsGenerator"] = any(isinstance(x, (ast.Yield, ast.YieldFrom)) for x in ast.walk(bp))
    facts["batchResultTests"] = [ast.unparse(x.test) for x in ast.walk(bp) if isinstance(x, ast.If)]
    facts["batchResultRaise"] = [ast.unparse(s) for x in ast.walk(bp) if isinstance(x, ast.If) for s in x.body]
    return facts


def _serializer_facts(serializers, core):
    tree = ast.parse(open(serializers.__file__).read())
    ctd = _fn(tree, "SerializerBase", "class_to_dict")
    exc_dict = None
    for n in ast.walk(ctd):
        if isinstance(n, ast.If) and ast.unparse(n.test) == "isinstance(obj, BaseException)":
            ret = [s for s in n.body if isinstance(s, ast.Return)]
            if len(ret) == 1 and isinstance(ret[0].value, ast.Dict):
                exc_dict = ret[0].value
    if exc_dict is None:
        raise RuntimeError("source shape: exception branch of class_to_dict")
    facts = {"excDictKeys": [k.value for k in exc_dict.keys], "excDictValues": [ast.unparse(v) for v in exc_dict.values]}
    mk = _fn(tree, "SerializerBase", "make_exception")
    facts["makeException"] = [ast.unparse(s) for s in mk.body]
    ctree = ast.parse(open(core.__file__).read())
    sd = _fn(ctree, "_ExceptionWrapper", "__serialized_dict__")
    ret = [s for s in sd.body if isinstance(s, ast.Return)]
    if len(ret) != 1 or not isinstance(ret[0].value, ast.Dict):
        raise RuntimeError("source shape: _ExceptionWrapper.__serialized_dict__")
    facts["wrapperDictKeys"] = [k.value for k in ret[0].value.keys]
    facts["wrapperDictValues"] = [ast.unparse(v) for v in ret[0].value.values]
    ri = _fn(ctree, "_ExceptionWrapper", "raiseIt")
    facts["wrapperRaise"] = [ast.unparse(s) for s in ri.body]
    # the order of the class-name tests of dict_to_class
    dtc = _fn(tree, "SerializerBase", "dict_to_class")
    tests = []
    for n in dtc.body:
        if isinstance(n, ast.If):
            cur = n
            while True:
                tests.append(ast.unparse(cur.test))
                if len(cur.orelse) == 1 and isinstance(cur.orelse[0], ast.If):
                    cur = cur.orelse[0]
                else:
                    break
    facts["dictToClassTests"] = tests
    last = dtc.body[-1]
    facts["dictToClassLast"] = ast.unparse(last)
    return facts


def exception_classes():
    """the classes the property quantifies over: every exception class object in vars(builtins) and every PyroError
    subclass in vars(Pyro5.errors), each once (aliases such as IOError collapse), sorted by qualified name"""
    common.repo_on_path()
    import builtins
    errors = importlib.import_module("Pyro5.errors")
    out = {t for t in vars(builtins).values() if isinstance(t, type) and issubclass(t, BaseException)}
    out |= {t for t in vars(errors).values() if isinstance(t, type) and issubclass(t, errors.PyroError)}
    return sorted(out, key=qual)


def extract():
    common.repo_on_path()
    import builtins
    import sqlite3
    import struct
    serializers = importlib.import_module("Pyro5.serializers")
    errors = importlib.import_module("Pyro5.errors")
    server = importlib.import_module("Pyro5.server")
    client = importlib.import_module("Pyro5.client")
    core = importlib.import_module("Pyro5.core")
    allx = sorted(serializers.all_exceptions.items())
    for name, t in allx:
        if not (isinstance(t, type) and issubclass(t, BaseException)):
            raise RuntimeError("all_exceptions[%r] is not an exception class" % name)
    classes = exception_classes() + [struct.error]
    if not {t for _, t in allx} <= set(classes):
        raise RuntimeError("all_exceptions holds a class that is neither a builtin exception nor a Pyro5 error")
    sf, cf, zf = _server_facts(server), _client_facts(client), _serializer_facts(serializers, core)
    L = []
    L.append("-- GENERATED by harness/props/c07.py (c07_extract.py) from Pyro5/serializers.py, server.py, client.py, core.py, errors.py "
             "and the imported modules builtins, sqlite3, struct — do not edit")
    L.append("")
    L.append("namespace Pyro.Gen.C07")
    L.append("")
    L.append("/-- what a module attribute is, as far as `issubclass(x, <base>)` can tell: an exception class (with the")
    L.append("    `__module__.__name__` of the class object), another class, or not a class (issubclass raises TypeError) -/")
    L.append("inductive Kind\n  | exc (qual : List Char)\n  | cls\n  | other\n  deriving DecidableEq, Repr\n")
    L.append("/-- what the isinstance tests of Daemon.handleRequest / Proxy._pyroInvoke / the generator protocol see in an instance -/")
    L.append("structure Flags where\n  isException : Bool\n  isComm : Bool\n  isSerialize : Bool\n  isConnClosed : Bool\n"
             "  isSecurity : Bool\n  isKbdInt : Bool\n  isStopIter : Bool\n  isPyroTimeout : Bool\n  deriving DecidableEq, Repr\n")
    L.append("/-- serializers.all_exceptions: key ↦ `__module__.__name__` of the class it maps to (%d keys) -/" % len(allx))
    L.append("def allExceptions : List (List Char × List Char) := [")
    L.append(",\n".join("  (%s, %s)" % (_chars(n), _chars(qual(t))) for n, t in allx))
    L.append("]\n")

    def table(name, doc, rows):
        L.append("/-- %s -/" % doc)
        L.append("def %s : List (List Char × Kind) := [" % name)
        L.append(",\n".join("  (%s, %s)" % (_chars(n), k) for n, k in rows))
        L.append("]\n")
    table("builtinsVars", "vars(builtins): name ↦ kind w.r.t. BaseException", _kinds(builtins, BaseException))
    table("errorsVars", "vars(Pyro5.errors): name ↦ kind w.r.t. PyroError", _kinds(errors, errors.PyroError))
    table("sqliteErrorVars", "vars(sqlite3), names ending in \"Error\": name ↦ kind w.r.t. BaseException",
          _kinds(sqlite3, BaseException, only=lambda n: n.endswith("Error")))
    L.append("/-- every exception class object of vars(builtins), every PyroError subclass of vars(Pyro5.errors), and struct.error:\n    qual ↦ relations -/")
    L.append("def classFlags : List (List Char × Flags) := [")
    rows = []
    for t in classes:
        rows.append("  (%s, ⟨%s, %s, %s, %s, %s, %s, %s, %s⟩)" % (
            _chars(qual(t)), _b(issubclass(t, Exception)), _b(issubclass(t, errors.CommunicationError)),
            _b(issubclass(t, errors.SerializeError)), _b(issubclass(t, errors.ConnectionClosedError)),
            _b(issubclass(t, errors.SecurityError)), _b(issubclass(t, KeyboardInterrupt)), _b(issubclass(t, StopIteration)),
            _b(issubclass(t, errors.TimeoutError))))
    L.append(",\n".join(rows))
    L.append("]\n")
    L.append("def structErrorQual : List Char := %s" % _chars(qual(struct.error)))
    L.append("def structErrorIsException : Bool := %s\n" % _b(issubclass(struct.error, BaseException)))
    L.append("/-! ### source shape (ast) -/\n")

    def strs(name, doc, xs):
        L.append("/-- %s -/" % doc)
        L.append("def %s : List String := [%s]" % (name, ", ".join(_lstr(x) for x in xs)))

    def s1(name, doc, x):
        L.append("/-- %s -/" % doc)
        L.append("def %s : String := %s" % (name, _lstr(x)))

    def b1(name, doc, x):
        L.append("/-- %s -/" % doc)
        L.append("def %s : Bool := %s" % (name, _b(x)))
    strs("outerCatches", "classes of the one handler of handleRequest's main try statement", sf["outerCatches"])
    strs("replyGuards", "tests of the `if` statements of that handler other than the final re-raise, in source order (nested ones guard the reply)", sf["replyGuards"])
    strs("replyCalls", "calls guarded by them", sf["replyCalls"])
    s1("reraiseTest", "test of the final `if …: raise` of that handler", sf["reraiseTest"])
    strs("batchCatches", "classes of the handler around a batch member's call", sf["batchCatches"])
    b1("batchFallback", "the batch loop wraps what `self._serializeException` returned (true) or the raised exception itself (false)",
       sf["batchFallback"])
    b1("batchSetsTraceback", "the batch handler formats the traceback", sf["batchSetsTraceback"])
    s1("fallbackFormat", "format of the generic error used when the exception cannot be serialised", sf["fallbackFormat"])
    strs("fallbackArgs", "its arguments", sf["fallbackArgs"])
    strs("fallbackCatches", "classes of the handler around `serializer.dumps(exc_value)`", sf["fallbackCatches"])
    strs("fallbackTry", "body of that try", sf["fallbackTry"])
    strs("fallbackClass", "class constructed in that handler", sf["fallbackClass"])
    strs("tracebackTargets", "attribute assignment targets in the serialising function", sf["tracebackTargets"])
    strs("exceptionFlag", "augmented assignments of _sendExceptionResponse", sf["exceptionFlag"])
    strs("streamCatches", "classes of the handler around next(stream) in get_next_stream_item", sf["streamCatches"])
    b1("streamReraises", "that handler re-raises", sf["streamReraises"])
    strs("propGetReturns", "return values of server._get_exposed_property_value", sf["propGetReturns"])
    strs("propGetReturnsLookup", "where its `v` comes from", sf["propGetReturnsLookup"])
    strs("propSetReturns", "return values of server._set_exposed_property_value", sf["propSetReturns"])
    strs("propSetReturnsLookup", "where its `v` comes from", sf["propSetReturnsLookup"])
    s1("retryTarget", "loop variable of _RemoteMethod.__call__", cf["retryTarget"])
    s1("retryRange", "what it ranges over", cf["retryRange"])
    strs("retryTry", "body of the try statement inside the loop", cf["retryTry"])
    strs("retryCatches", "classes its handler catches", cf["retryCatches"])
    strs("retryHandler", "body of that handler", cf["retryHandler"])
    strs("attrReadCalls", "return statements of Proxy.__getattr__ (attribute reads do not go through _RemoteMethod.__call__)", cf["attrReadCalls"])
    strs("clientReleaseOn", "classes on which Proxy._pyroInvoke releases the connection", cf["clientReleaseOn"])
    strs("clientReleaseBody", "body of that handler", cf["clientReleaseBody"])
    strs("clientRaiseTest", "tests guarding `raise data` in _pyroInvoke", cf["clientRaiseTest"])
    b1("batchResultIsGenerator", "BatchProxy's result iterator is a generator function", cf["batchResultIsGenerator"])
    strs("batchResultTests", "tests in it", cf["batchResultTests"])
    strs("batchResultRaise", "statements of the branch taken for a wrapper", cf["batchResultRaise"])
    strs("excDictKeys", "keys of the dict class_to_dict builds for an exception", zf["excDictKeys"])
    strs("excDictValues", "their values", zf["excDictValues"])
    strs("makeException", "statements of make_exception", zf["makeException"])
    strs("wrapperDictKeys", "keys of _ExceptionWrapper.__serialized_dict__", zf["wrapperDictKeys"])
    strs("wrapperDictValues", "their values", zf["wrapperDictValues"])
    strs("wrapperRaise", "body of _ExceptionWrapper.raiseIt", zf["wrapperRaise"])
    strs("dictToClassTests", "the tests of dict_to_class's if-chains, in order", zf["dictToClassTests"])
    s1("dictToClassLast", "its last statement", zf["dictToClassLast"])
    L.append("")
    L.append("end Pyro.Gen.C07")
    return "\n".join(L) + "\n"
