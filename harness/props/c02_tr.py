"""
C02 — per-property translator: python `ast` of the three server-side gates
    server._get_attribute, server._get_exposed_property_value, server._set_exposed_property_value
-> Lean source text (shallow embedding over the types of lean/PyroModel/Expose.lean), regenerated from the
source on every run (lean/PyroModel/Gen/C02Src.lean).  lean/PyroProps/C02Src.lean proves, for every shape and
every (string) name, that the transcription computes exactly what the hand-written model gates compute.

What a gate is translated to: a *decision tree* in evaluation order
    raise E | return e | if atom then T else F | bind (effectful fetch) fun v => T
obtained by symbolic execution of the body.  This normal form is the same for equivalent control-flow spellings:
`if/elif/else` chains vs guard clauses, `if not c: A; B` vs `if c: B else A`, `a and b` vs nested ifs, `a or b`,
conditions / pure values bound to locals (substituted), any local and parameter names (parameters are taken by
position, effectful fetches are bound to v0, v1, .. in order of evaluation), docstrings, comments, annotations,
`log.*(..)` calls.

SOUND BY REFUSAL: everything that is not listed below raises `Untranslatable` (the runner reports a broken tie and
searches for a failing input with the oracle).  Understood:
  statements   : docstring, `log.<x>(..)` expression statement, `if`, `raise <Exc>("<literal>" [% name])`,
                 `<local> = <expr>`, `return <expr>`
  atoms        : is_private_attribute(<name>)                       -> isPrivate n          (resolved through the real module)
                 inspect.isdatadescriptor(<class member>)          -> isDataDesc
                 getattr(<obj>.__class__, <name>, None)            -> lookupType n sh.mro   (pure)
                 getattr(<obj>.__class__, <name>)                  -> clsGetattr sh n       (AttributeError if absent)
                 getattr(<obj>, <name>)                            -> getattrInst sh n      (may run a property getter)
                 getattr(<x>, "_pyroExposed", False | not only_exposed)   -> objMarked / exposedOpt   (only_exposed = its default True)
                 <member>.fget / .fset / .fdel  (only on a path where isdatadescriptor(<member>) is known)
                 a or b (accessor functions)                        -> firstOf
                 truth test of an accessor function                 -> isSome
                 <accessor>(<obj>) / <accessor>(<obj>, <value>)  (only on a path where the accessor is known to be there)
                 not, and, or in conditions
  exceptions   : the class is resolved through the real module (builtins), the message literal is classified by its prefix
                 exactly like the correspondence run classifies replies (priv / unexposed / unprop).
"""
import ast
import builtins
import inspect
import textwrap


class Untranslatable(Exception):
    pass


def _no(node, why):
    raise Untranslatable("%s (line %s: %s)" % (why, getattr(node, "lineno", "?"), ast.dump(node)[:160]))


ERR_PREFIX = [("attempt to access private attribute", "priv"),
              ("attempt to access unexposed or unknown remote attribute", "unprop"),
              ("attempt to access unexposed attribute", "unexposed")]


class _Tr:
    def __init__(self, module, fdef, nparams):
        self.module = module
        self.fdef = fdef
        self.nv = 0
        args = fdef.args
        if args.vararg or args.kwarg or args.kwonlyargs or args.posonlyargs:
            _no(fdef, "unsupported parameter kinds")
        names = [a.arg for a in args.args]
        if len(names) not in (nparams, nparams + 1):
            _no(fdef, "expected %d parameters (+ one flag parameter)" % nparams)
        self.env = {}
        roles = [("sh", "obj"), ("n", "name"), ("value", "value")]
        for a, (txt, ty) in zip(names[:nparams], roles):
            self.env[a] = (txt, ty)
        extra = names[nparams:]
        defaults = args.defaults
        if extra:
            # a trailing flag parameter: must default to the constant True (no call site of handleRequest passes it: fact dispatchGateArgs)
            if len(extra) != 1 or len(defaults) != 1 or not (isinstance(defaults[0], ast.Constant) and defaults[0].value is True):
                _no(fdef, "flag parameter without default True")
            self.env[extra[0]] = ("true", "const")
        elif defaults:
            _no(fdef, "unexpected defaults")

    # ------------------------------------------------------------------ resolution through the real module
    def _resolve(self, node):
        """the python object a Name / dotted Attribute denotes in the module's namespace (never a local)"""
        if isinstance(node, ast.Name):
            if node.id in self.env:
                return None
            if hasattr(self.module, node.id):
                return getattr(self.module, node.id)
            if hasattr(builtins, node.id):
                return getattr(builtins, node.id)
            return None
        if isinstance(node, ast.Attribute):
            base = self._resolve(node.value)
            if base is None or not inspect.ismodule(base):
                return None
            return getattr(base, node.attr, None)
        return None

    # ------------------------------------------------------------------ pure expressions -> (lean text, type)
    def pure(self, e, env, facts):
        if isinstance(e, ast.Name):
            if e.id in env:
                return env[e.id]
            _no(e, "unknown name")
        if isinstance(e, ast.Constant):
            if e.value is True or e.value is False:
                return ("true" if e.value else "false", "const")
            if e.value is None:
                return ("none", "none")
            _no(e, "constant")
        if isinstance(e, ast.UnaryOp) and isinstance(e.op, ast.Not):
            t, ty = self.pure(e.operand, env, facts)
            if ty == "const":
                return ("false" if t == "true" else "true", "const")
            _no(e, "`not` outside a condition")
        if isinstance(e, ast.BoolOp) and isinstance(e.op, ast.Or):
            parts = [self.pure(v, env, facts) for v in e.values]
            if all(ty == "optfn" for _, ty in parts):
                txt = parts[-1][0]
                for t, _ in reversed(parts[:-1]):
                    txt = "(firstOf %s %s)" % (t, txt)
                return (txt, "optfn")
            _no(e, "`or` of values other than accessor functions")
        if isinstance(e, ast.Attribute):
            if e.attr in ("fget", "fset", "fdel"):
                t, ty = self.pure(e.value, env, facts)
                if ty != "optmember":
                    _no(e, "accessor of something that is not a class member")
                if ("isDataDesc %s" % t) not in facts:
                    _no(e, "accessor read on a path where the member is not known to be a data descriptor")
                return ("(%sOf %s)" % (e.attr, t), "optfn")
            _no(e, "attribute")
        if isinstance(e, ast.Call):
            f = self._resolve(e.func)
            if e.keywords:
                _no(e, "keyword arguments")
            if f is getattr:
                return self._getattr(e, env, facts, pure_only=True)
            if f is self.module.is_private_attribute:
                if len(e.args) != 1:
                    _no(e, "arity")
                t, ty = self.pure(e.args[0], env, facts)
                if ty != "name":
                    _no(e, "is_private_attribute of something that is not the requested name")
                return ("isPrivate %s" % t, "bool")
            if f is inspect.isdatadescriptor:
                if len(e.args) != 1:
                    _no(e, "arity")
                t, ty = self.pure(e.args[0], env, facts)
                if ty != "optmember":
                    _no(e, "isdatadescriptor of something that is not a class member")
                return ("isDataDesc %s" % t, "bool")
            _no(e, "call target not understood")
        _no(e, "expression kind")

    def _is_class_of_obj(self, e, env):
        return isinstance(e, ast.Attribute) and e.attr == "__class__" and isinstance(e.value, ast.Name) \
            and env.get(e.value.id, (None, None))[1] == "obj"

    def _getattr(self, e, env, facts, pure_only):
        a = e.args
        if len(a) not in (2, 3):
            _no(e, "getattr arity")
        # getattr(<x>, "_pyroExposed", <False>)
        if isinstance(a[1], ast.Constant):
            if a[1].value != "_pyroExposed" or len(a) != 3:
                _no(e, "getattr of a constant attribute other than the exposure mark")
            d, dty = self.pure(a[2], env, facts)
            if (d, dty) != ("false", "const"):
                _no(e, "default of the exposure mark lookup is not False")
            t, ty = self.pure(a[0], env, facts)
            if ty == "Obj":
                return ("objMarked %s" % t, "bool")
            if ty == "optfn":
                return ("exposedOpt %s" % t, "bool")
            _no(e, "exposure mark of something that is neither a fetched attribute nor an accessor function")
        nt, nty = self.pure(a[1], env, facts)
        if nty != "name":
            _no(e, "getattr with something that is not the requested name")
        if self._is_class_of_obj(a[0], env):
            if len(a) == 3:
                d, dty = self.pure(a[2], env, facts)
                if dty != "none":
                    _no(e, "class lookup default is not None")
                return ("(lookupType %s sh.mro)" % nt, "optmember")
            if pure_only:
                _no(e, "class lookup that may raise, inside an expression")
            return ("clsGetattr sh %s" % nt, "M optmember")
        if isinstance(a[0], ast.Name) and env.get(a[0].id, (None, None))[1] == "obj" and len(a) == 2:
            if pure_only:
                _no(e, "instance attribute fetch (may run a getter) inside an expression")
            return ("getattrInst sh %s" % nt, "M Obj")
        _no(e, "getattr form")

    # ------------------------------------------------------------------ effectful expressions (statement level only)
    def effectful(self, e, env, facts):
        """-> (lean text, 'M <type>') or None if the expression is pure"""
        if not isinstance(e, ast.Call) or e.keywords:
            return None
        f = self._resolve(e.func)
        if f is getattr:
            t, ty = self._getattr(e, env, facts, pure_only=False)
            return (t, ty) if ty.startswith("M ") else None
        if f is None and isinstance(e.func, (ast.Attribute, ast.Name)):
            # a call of an accessor function of a property: <member>.fget(obj) / <member>.fset(obj, value)
            try:
                t, ty = self.pure(e.func, env, facts)
            except Untranslatable:
                return None
            if ty != "optfn":
                return None
            if ("%s.isSome" % t) not in facts:
                _no(e, "accessor called on a path where it is not known to exist")
            kinds = [self.pure(x, env, facts)[1] for x in e.args]
            if kinds not in (["obj"], ["obj", "value"]):
                _no(e, "accessor called with arguments other than (obj) / (obj, value)")
            return ("callOptFn %s" % t, "M Unit")
        return None

    # ------------------------------------------------------------------ conditions -> tree
    def branch(self, c, env, facts, kt, kf):
        """tree of `if c: kt() else: kf()`; kt / kf take the facts known on their path"""
        if isinstance(c, ast.UnaryOp) and isinstance(c.op, ast.Not):
            return self.branch(c.operand, env, facts, kf, kt)
        if isinstance(c, ast.BoolOp):
            first, rest = c.values[0], c.values[1:]
            more = rest[0] if len(rest) == 1 else ast.BoolOp(op=c.op, values=rest)
            if isinstance(c.op, ast.And):
                return self.branch(first, env, facts, lambda f2: self.branch(more, env, f2, kt, kf), kf)
            # `or` of conditions: only when no operand is a value used as such
            return self.branch(first, env, facts, kt, lambda f2: self.branch(more, env, f2, kt, kf))
        t, ty = self.pure(c, env, facts)
        if ty == "const":
            return kt(facts) if t == "true" else kf(facts)
        if ty == "optfn":
            t, ty = "%s.isSome" % t, "bool"
        if ty != "bool":
            _no(c, "truth test of a value of kind %s" % ty)
        if t in facts:
            return kt(facts)
        if ("¬" + t) in facts:
            return kf(facts)
        return ("ite", t, kt(facts | {t}), kf(facts | {"¬" + t}))

    # ------------------------------------------------------------------ statements -> tree
    def block(self, stmts, env, facts):
        if not stmts:
            _no(self.fdef, "control reaches the end of the function (implicit return None)")
        s, rest = stmts[0], stmts[1:]
        if isinstance(s, ast.Expr):
            if isinstance(s.value, ast.Constant) and isinstance(s.value.value, str):
                return self.block(rest, env, facts)          # docstring
            v = s.value
            if isinstance(v, ast.Call) and isinstance(v.func, ast.Attribute) and isinstance(v.func.value, ast.Name) \
                    and v.func.value.id == "log" and v.func.value.id not in env and v.func.attr in ("debug", "info", "warning", "error"):
                return self.block(rest, env, facts)          # logging
            _no(s, "expression statement")
        if isinstance(s, ast.If):
            return self.branch(s.test, env, facts,
                               lambda f2: self.block(list(s.body) + rest, env, f2),
                               lambda f2: self.block(list(s.orelse) + rest, env, f2))
        if isinstance(s, ast.Raise):
            return ("raise", self.exc(s))
        if isinstance(s, ast.Return):
            if s.value is None:
                _no(s, "bare return")
            m = self.effectful(s.value, env, facts)
            if m:
                return ("tail", m[0], m[1])
            t, ty = self.pure(s.value, env, facts)
            if ty != "Obj":
                _no(s, "returns a value of kind %s" % ty)
            return ("ret", t)
        if isinstance(s, (ast.Assign, ast.AnnAssign)):
            targets = s.targets if isinstance(s, ast.Assign) else [s.target]
            if len(targets) != 1 or not isinstance(targets[0], ast.Name) or s.value is None:
                _no(s, "assignment form")
            name = targets[0].id
            m = self.effectful(s.value, env, facts)
            env2 = dict(env)
            if m:
                v = "v%d" % self.nv
                self.nv += 1
                ty = m[1][2:]
                env2[name] = (v, ty)
                facts2 = set(facts)
                return ("bind", m[0], v, self.block(rest, env2, frozenset(facts2)))
            env2[name] = self.pure(s.value, env, facts)
            return self.block(rest, env2, facts)
        _no(s, "statement kind")

    def exc(self, s):
        e = s.exc
        if s.cause is not None or not isinstance(e, ast.Call) or e.keywords or len(e.args) != 1:
            _no(s, "raise form")
        cls = self._resolve(e.func)
        msg = e.args[0]
        if isinstance(msg, ast.BinOp) and isinstance(msg.op, ast.Mod):
            msg = msg.left
        if not (isinstance(msg, ast.Constant) and isinstance(msg.value, str)):
            _no(s, "exception message is not a literal")
        if cls is TypeError:
            return "type"
        if cls is not AttributeError:
            _no(s, "exception class")
        for prefix, code in ERR_PREFIX:
            if msg.value.startswith(prefix):
                return code
        return "attr"


def _emit(tree, ind):
    pad = "  " * ind
    k = tree[0]
    if k == "raise":
        return pad + "(.error .%s, [])" % tree[1]
    if k == "ret":
        return pad + "(.ok %s, [])" % tree[1]
    if k == "tail":
        return pad + tree[1]
    if k == "ite":
        return "%sif %s then\n%s\n%selse\n%s" % (pad, tree[1], _emit(tree[2], ind + 1), pad, _emit(tree[3], ind + 1))
    if k == "bind":
        return "%sbindM (%s) fun %s =>\n%s" % (pad, tree[1], tree[2], _emit(tree[3], ind + 1))
    raise ValueError(k)


PRELUDE = '''import PyroModel.Expose
-- GENERATED by harness/props/c02_tr.py from Pyro5/server.py (the three server-side gates) — do not edit
namespace Pyro.Gen.C02Src
open Pyro.Expose

/-- outcome and effect log of a gate -/
abbrev M (α : Type) := Except Err α × List Nat

/-- sequencing: an exception ends the gate, effects accumulate -/
def bindM {α β : Type} (x : M α) (f : α → M β) : M β :=
  match x with
  | (.error e, eff) => (.error e, eff)
  | (.ok a, eff) => ((f a).1, eff ++ (f a).2)

/-- `getattr(obj.__class__, name)`: AttributeError if no class of the MRO has the name; no descriptor is evaluated -/
def clsGetattr (sh : Shape) (n : Name) : M (Option Member) :=
  match lookupType n sh.mro with
  | none => (.error .attr, [])
  | some m => (.ok (some m), [])

/-- `.fget` / `.fset` / `.fdel` of a class member that is a data descriptor (the model's only data descriptors are properties) -/
def fgetOf : Option Member → Option Fn
  | some (.prop g _ _) => g
  | _ => none
def fsetOf : Option Member → Option Fn
  | some (.prop _ s _) => s
  | _ => none
def fdelOf : Option Member → Option Fn
  | some (.prop _ _ d) => d
  | _ => none

/-- `a or b` on accessor functions (None is falsy, a function is truthy) -/
def firstOf (a b : Option Fn) : Option Fn :=
  match a with
  | some f => some f
  | none => b

/-- calling an accessor function of a property on the target object: its code runs -/
def callOptFn : Option Fn → M Unit
  | some f => (.ok (), [f.fid])
  | none => (.error .type, [])
'''

GATES = [("_get_attribute", "getAttributeSrc", 2, "Obj"),
         ("_get_exposed_property_value", "getPropSrc", 2, "Unit"),
         ("_set_exposed_property_value", "setPropSrc", 3, "Unit")]


def translate_function(module, pyname, nparams):
    src = textwrap.dedent(inspect.getsource(getattr(module, pyname)))
    fdef = ast.parse(src).body[0]
    if not isinstance(fdef, ast.FunctionDef) or fdef.decorator_list:
        raise Untranslatable("%s is not a plain function" % pyname)
    tr = _Tr(module, fdef, nparams)
    return tr.block(list(fdef.body), tr.env, frozenset())


def translate(module):
    """Lean source of lean/PyroModel/Gen/C02Src.lean"""
    out = [PRELUDE]
    for pyname, lname, nparams, rty in GATES:
        tree = translate_function(module, pyname, nparams)
        out.append("/-- transcription of server.%s (string names; `sh` = class shape + instance dict of the target) -/" % pyname)
        out.append("def %s (sh : Shape) (n : Name) : M %s :=\n%s\n" % (lname, rty, _emit(tree, 1)))
    out.append("end Pyro.Gen.C02Src\n")
    return "\n".join(out)


if __name__ == "__main__":
    import sys
    sys.path.insert(0, __file__.rsplit("/props/", 1)[0])
    import common
    common.repo_on_path()
    from Pyro5 import server
    print(translate(server))
