"""C09 — shallow translator: python `ast` of `Daemon._getInstance` (+ the private helpers it calls) -> Lean source text over
the operations of lean/PyroModel/InstancesSrc.lean.

SOUND BY REFUSAL: every statement kind, expression kind, call target, attribute and operator that is not explicitly
understood raises `Untranslatable`.  Skipped silently: docstrings, `log.*(...)` calls on a real `logging.Logger`, `pass`,
type annotations, comments (not in the ast).

Normal form (what harmless refactorings change is normalised away):
  * parameters are a0, a1 … (without self), locals v0, v1 … in order of first binding, temporaries t<i>, helpers f0, f1 … in order
    of first call; a nested def, a private method of the class (plain / static / class method) and a private module
    function are the same thing: a Lean def of their own (= inlined at the call site by unfolding);
  * module-level constants are resolved through the real module to their values;
  * `if c: A  <rest>` = `if c: A else: <rest>` (the rest is continued in every branch that falls through; a block ends at
    its first return / raise), `if not c: A else: B` = `if c: B else: A`, `x is not None`, `!=`, `not in` likewise,
    `and` / `or` as nested ifs;
  * `x = E; return x` and `return E` differ only by a `bind … pure`, which the proof does not see.
"""
import ast
import inspect
import logging
import textwrap


class Untranslatable(Exception):
    pass


MODES = {"single": ".single", "session": ".session", "percall": ".percall"}
DAEMON_TABLE = "_pyroInstances"
CONN_TABLE = "pyroInstances"
LOCK = "create_single_instance_lock"
INSTANCING = "_pyroInstancing"


def refuse(node, why):
    where = ""
    if hasattr(node, "lineno"):
        where = " (line %d of the function)" % node.lineno
    raise Untranslatable("%s: %s%s" % (why, ast.dump(node)[:160] if isinstance(node, ast.AST) else node, where))


def fn_ast(fn):
    src = textwrap.dedent(inspect.getsource(fn))
    node = ast.parse(src).body[0]
    if not isinstance(node, ast.FunctionDef):
        refuse(node, "not a plain function")
    return node


def terminal(stmts):
    """does every path through the block end in return / raise"""
    for st in stmts:
        if isinstance(st, (ast.Return, ast.Raise)):
            return True
        if isinstance(st, ast.If) and terminal(st.body) and terminal(st.orelse):
            return True
        if isinstance(st, ast.With) and terminal(st.body):
            return True
        if isinstance(st, ast.Try) and not st.finalbody and not st.orelse and terminal(st.body) \
                and all(terminal(h.body) for h in st.handlers):
            return True
    return False


class Unit:
    """one translation unit: the anchor function and the helpers reached from it"""

    def __init__(self, module, cls, fn_name, lean_name):
        self.module = module
        self.cls = cls
        self.lean_name = lean_name
        self.helpers = {}          # key (python object id) -> (lean name, text)
        self.order = []
        self.main = self.function(getattr(cls, fn_name), lean_name, drop_self=True, keep_self=True)

    # ---- names ---------------------------------------------------------------------------------
    def resolve_global(self, name):
        if name in vars(self.module):
            return vars(self.module)[name]
        import builtins
        if hasattr(builtins, name):
            return getattr(builtins, name)
        raise KeyError(name)

    def function(self, fn, lean_name, drop_self, keep_self=False):
        node = fn_ast(fn) if not isinstance(fn, ast.FunctionDef) else fn
        a = node.args
        if a.vararg or a.kwarg or a.kwonlyargs or a.defaults or a.kw_defaults or getattr(a, "posonlyargs", []):
            refuse(node, "parameter list not understood")
        params = [p.arg for p in a.args]
        tr = FnTr(self, node, params, drop_self)
        body = tr.block(node.body, top=True)
        lean_params = (["slf"] if keep_self or drop_self else []) + ["a%d" % i for i in range(len(params) - (1 if drop_self else 0))]
        attr = "" if keep_self else "@[simp] "      # helpers unfold by themselves: the proofs need not know how many there are
        head = attr + ("def %s (%s : Val) : M Val :=" % (lean_name, " ".join(lean_params)) if lean_params else "def %s : M Val :=" % lean_name)
        return head + "\n" + body

    def helper(self, key, fn_node_or_obj, drop_self):
        if key not in self.helpers:
            name = "%s_f%d" % (self.lean_name, len(self.helpers))
            self.helpers[key] = (name, None, drop_self)      # reserve (recursion would loop: refuse)
            text = self.function(fn_node_or_obj, name, drop_self)
            self.helpers[key] = (name, text, drop_self)
            self.order.append(key)
        name, text, ds = self.helpers[key]
        if text is None:
            raise Untranslatable("recursive helper")
        return name, ds

    def text(self):
        return "\n\n".join([self.helpers[k][1] for k in self.order] + [self.main])


class FnTr:
    def __init__(self, unit, node, params, drop_self):
        self.unit = unit
        self.node = node
        self.names = {}
        self.self_name = params[0] if drop_self else None
        rest = params[1:] if drop_self else params
        for i, p in enumerate(rest):
            self.names[p] = "a%d" % i
        if self.self_name:
            self.names[self.self_name] = "slf"
        self.nlocal = 0
        self.ntemp = 0
        self.nested = {st.name: st for st in node.body if isinstance(st, ast.FunctionDef)}
        self.exc_var = []

    def temp(self):
        self.ntemp += 1
        return "t%d" % (self.ntemp - 1)

    def local(self, name):
        if name not in self.names:
            self.names[name] = "v%d" % self.nlocal
            self.nlocal += 1
        return self.names[name]

    # ---- statements ----------------------------------------------------------------------------
    def skip(self, st):
        if isinstance(st, ast.Expr) and isinstance(st.value, ast.Constant) and isinstance(st.value.value, str):
            return True                                     # docstring
        if isinstance(st, ast.Pass):
            return True
        if isinstance(st, ast.FunctionDef) and st.name in self.nested:
            return True                                     # translated where it is called
        if isinstance(st, ast.Expr) and isinstance(st.value, ast.Call):
            f = st.value.func
            if isinstance(f, ast.Attribute) and isinstance(f.value, ast.Name) and f.value.id not in self.names:
                try:
                    target = self.unit.resolve_global(f.value.id)
                except KeyError:
                    return False
                if isinstance(target, logging.Logger) and f.attr in ("debug", "info", "warning", "error", "exception", "critical", "log"):
                    return True
        return False

    def block(self, stmts, top=False, ind=1):
        """Lean term of type `M Val` for the rest of the function starting with these statements"""
        pad = "  " * ind
        stmts = [s for s in stmts if not self.skip(s)]
        if not stmts:
            return pad + "pure .none"                      # falling off the end of the function returns None
        st, rest = stmts[0], stmts[1:]
        if isinstance(st, ast.Return):
            if st.value is None:
                return pad + "pure .none"
            return self.expr(st.value, lambda a: pad + "pure %s" % a, ind, tail=True)
        if isinstance(st, ast.Raise):
            if st.cause is not None:
                refuse(st, "raise … from")
            if st.exc is None:
                if not self.exc_var:
                    refuse(st, "bare raise outside a handler")
                return pad + "throw %s" % self.exc_var[-1]
            return pad + "throw %s" % self.exc_class(st.exc)
        if isinstance(st, ast.If):
            a = self.block(st.body + rest, ind=ind + 1)
            b = self.block(st.orelse + rest, ind=ind + 1)
            return self.cond(st.test, a, b, ind)
        if isinstance(st, ast.With):
            if len(st.items) != 1 or st.items[0].optional_vars is not None:
                refuse(st, "with statement not understood")
            if not terminal(st.body):
                if rest:
                    refuse(st, "a with block that can fall through into more statements")
            body = self.block(st.body, ind=ind + 1)
            return self.expr(st.items[0].context_expr, lambda a: pad + "withLock %s (\n%s)" % (a, body), ind)
        if isinstance(st, ast.Try):
            if st.finalbody or st.orelse:
                refuse(st, "try with finally / else")
            if not terminal(st.body) and rest:
                refuse(st, "a try block that can fall through into more statements")
            if len(st.handlers) != 1:
                refuse(st, "several handlers")
            h = st.handlers[0]
            if h.type is None:
                catch_all = True
            else:
                if not isinstance(h.type, ast.Name):
                    refuse(h, "handler class not understood")
                try:
                    c = self.unit.resolve_global(h.type.id)
                except KeyError:
                    refuse(h, "unknown handler class")
                if c is Exception:
                    catch_all = False
                elif c is BaseException:
                    catch_all = True
                else:
                    refuse(h, "handler class other than Exception / BaseException")
            if h.name is not None:
                refuse(h, "handler binds the exception")
            body = self.block(st.body, ind=ind + 1)
            ev = "e%d" % len(self.exc_var)
            self.exc_var.append(ev)
            hb = self.block(h.body + rest, ind=ind + 1)
            self.exc_var.pop()
            return pad + "tryExcept (\n%s) %s (fun %s =>\n%s)" % (body, "true" if catch_all else "false", ev, hb)
        if isinstance(st, ast.Assign):
            if len(st.targets) != 1:
                refuse(st, "chained assignment")
            tgt = st.targets[0]
            if isinstance(tgt, ast.Name):
                def k(a):
                    v = self.local(tgt.id)
                    return pad + "bind (pure %s) fun %s =>\n%s" % (a, v, self.block(rest, ind=ind))
                return self.expr_bind(st.value, lambda: self.local(tgt.id), lambda: self.block(rest, ind=ind), ind)
            if isinstance(tgt, ast.Tuple) and len(tgt.elts) == 2 and all(isinstance(e, ast.Name) for e in tgt.elts):
                def k2(a):
                    v0 = self.local(tgt.elts[0].id)
                    v1 = self.local(tgt.elts[1].id)
                    return pad + "bind (fst %s) fun %s =>\n%sbind (snd %s) fun %s =>\n%s" % (
                        a, v0, pad, a, v1, self.block(rest, ind=ind))
                return self.expr(st.value, k2, ind)
            if isinstance(tgt, ast.Subscript):
                key = tgt.slice
                return self.expr(tgt.value, lambda tb: self.expr(key, lambda ky: self.expr(st.value, lambda v: (
                    pad + "bind (tabSet %s %s %s) fun _ =>\n%s" % (tb, ky, v, self.block(rest, ind=ind))), ind), ind), ind)
            refuse(st, "assignment target not understood")
        if isinstance(st, ast.AnnAssign) and st.value is not None and isinstance(st.target, ast.Name):
            return self.block([ast.copy_location(ast.Assign(targets=[st.target], value=st.value), st)] + rest, ind=ind)
        if isinstance(st, ast.Expr):
            # an expression statement with an effect we understand (a call of user code / a helper): evaluate, drop the value
            return self.expr(st.value, lambda a: self.block(rest, ind=ind), ind, force_bind=True)
        refuse(st, "statement kind not understood")

    def expr_bind(self, value, mkname, cont, ind):
        """`name = value; cont`"""
        pad = "  " * ind
        if self.effectful(value):
            return self.expr(value, None, ind, bind_to=(mkname, cont))
        return self.expr(value, lambda a: pad + "bind (pure %s) fun %s =>\n%s" % (a, mkname(), cont()), ind)

    # ---- conditions ----------------------------------------------------------------------------
    def cond(self, test, a, b, ind):
        """`if test: a else: b` (a, b already translated at indentation ind+1)"""
        pad = "  " * ind
        if isinstance(test, ast.UnaryOp) and isinstance(test.op, ast.Not):
            return self.cond(test.operand, b, a, ind)
        if isinstance(test, ast.BoolOp) and isinstance(test.op, ast.And) and len(test.values) == 2:
            inner = self.cond(test.values[1], self.reindent(a), self.reindent(b), ind + 1)
            return self.cond(test.values[0], inner, b, ind)
        if isinstance(test, ast.BoolOp) and isinstance(test.op, ast.Or) and len(test.values) == 2:
            inner = self.cond(test.values[1], self.reindent(a), self.reindent(b), ind + 1)
            return self.cond(test.values[0], a, inner, ind)
        if isinstance(test, ast.Compare) and len(test.ops) == 1:
            op, l, r = test.ops[0], test.left, test.comparators[0]
            if isinstance(op, (ast.IsNot, ast.NotEq, ast.NotIn)):
                pos = {ast.IsNot: ast.Is, ast.NotEq: ast.Eq, ast.NotIn: ast.In}[type(op)]()
                return self.cond(ast.copy_location(ast.Compare(left=l, ops=[pos], comparators=[r]), test), b, a, ind)
            if isinstance(op, ast.Is):
                if isinstance(l, ast.Constant) and l.value is None:
                    l, r = r, l
                if not (isinstance(r, ast.Constant) and r.value is None):
                    refuse(test, "`is` with something other than None")
                return self.expr(l, lambda x: pad + "cond (isNone %s) (\n%s) (\n%s)" % (x, a, b), ind)
            if isinstance(op, ast.Eq):
                if self.mode_const(l) is not None:
                    l, r = r, l
                m = self.mode_const(r)
                if m is None:
                    refuse(test, "== with something other than one of the three mode names")
                return self.expr(l, lambda x: pad + "cond (eqMode %s %s) (\n%s) (\n%s)" % (x, m, a, b), ind)
            if isinstance(op, ast.In):
                ms = self.mode_tuple(r)
                if ms is None:
                    refuse(test, "`in` with something other than a tuple of mode names")
                return self.expr(l, lambda x: pad + "cond (memMode %s [%s]) (\n%s) (\n%s)" % (x, ", ".join(ms), a, b), ind)
            refuse(test, "comparison operator not understood")
        if isinstance(test, ast.Call) and isinstance(test.func, ast.Name) and test.func.id not in self.names \
                and self.is_builtin(test.func.id, isinstance) and len(test.args) == 2 and not test.keywords:
            return self.expr(test.args[0], lambda x: self.expr(test.args[1], lambda c: (
                pad + "cond (isinstance %s %s) (\n%s) (\n%s)" % (x, c, a, b)), ind), ind)
        if isinstance(test, (ast.Name, ast.Attribute, ast.Call, ast.Constant)):
            if isinstance(test, ast.Constant):
                if test.value is True:
                    return a
                if test.value is False or test.value is None:
                    return b
                refuse(test, "constant condition")
            return self.expr(test, lambda x: pad + "cond (truth %s) (\n%s) (\n%s)" % (x, a, b), ind)
        refuse(test, "condition not understood")

    @staticmethod
    def reindent(text):
        return "\n".join("  " + l for l in text.split("\n"))

    def is_builtin(self, name, obj):
        try:
            return self.unit.resolve_global(name) is obj
        except KeyError:
            return False

    def const_value(self, node):
        """python value of a constant expression (literal or module-level name resolved through the real module)"""
        if isinstance(node, ast.Constant):
            return node.value
        if isinstance(node, ast.Name) and node.id not in self.names and node.id not in self.nested:
            try:
                v = self.unit.resolve_global(node.id)
            except KeyError:
                refuse(node, "unknown name")
            if isinstance(v, (str, tuple, list, frozenset)) or v is None:
                return v
        return NotImplemented

    def mode_const(self, node):
        v = self.const_value(node)
        if isinstance(v, str):
            if v not in MODES:
                refuse(node, "a string that is not one of the three mode names")
            return MODES[v]
        return None

    def mode_tuple(self, node):
        if isinstance(node, (ast.Tuple, ast.List)):
            vals = [self.const_value(e) for e in node.elts]
        else:
            vals = self.const_value(node)
            if vals is NotImplemented or isinstance(vals, str) or vals is None:
                return None
            vals = list(vals)
        out = []
        for v in vals:
            if not isinstance(v, str) or v not in MODES:
                refuse(node, "member that is not one of the three mode names")
            out.append(MODES[v])
        return out

    def exc_class(self, node):
        """`raise X(...)` / `raise X` -> the model's error"""
        target = node.func if isinstance(node, ast.Call) else node
        if isinstance(node, ast.Call):
            for a in node.args:
                if self.effectful(a):
                    refuse(node, "exception argument with an effect")
        obj = self.static_object(target)
        from Pyro5 import errors
        if obj is TypeError:
            return ".typeError"
        if obj is errors.DaemonError:
            return ".daemonError"
        refuse(node, "raise of a class the model does not have")

    def static_object(self, node):
        if isinstance(node, ast.Name) and node.id not in self.names:
            try:
                return self.unit.resolve_global(node.id)
            except KeyError:
                refuse(node, "unknown name")
        if isinstance(node, ast.Attribute):
            base = self.static_object(node.value)
            if inspect.ismodule(base) and hasattr(base, node.attr):
                return getattr(base, node.attr)
        refuse(node, "not a module-level object")

    # ---- expressions ---------------------------------------------------------------------------
    def effectful(self, e):
        return any(isinstance(n, ast.Call) for n in ast.walk(e))

    def expr(self, e, k, ind, tail=False, force_bind=False, bind_to=None):
        """translate expression `e` in A-normal form; `k(atom)` gives the text of what follows.
        bind_to=(mkname, cont): bind the value of an effectful expression directly to a local."""
        pad = "  " * ind

        def emit(op):
            """op : M Val"""
            if bind_to is not None:
                name = bind_to[0]()
                return pad + "bind (%s) fun %s =>\n%s" % (op, name, bind_to[1]())
            if tail:
                return pad + op
            t = self.temp() if not force_bind else "_"
            return pad + "bind (%s) fun %s =>\n%s" % (op, t, k(t))

        def atom(a):
            if bind_to is not None:
                return pad + "bind (pure %s) fun %s =>\n%s" % (a, bind_to[0](), bind_to[1]())
            return k(a)

        if isinstance(e, ast.Constant):
            if e.value is None:
                return atom(".none")
            refuse(e, "constant not understood here")
        if isinstance(e, ast.Name):
            if e.id in self.names:
                return atom(self.names[e.id])
            if e.id in self.nested:
                refuse(e, "helper used as a value")
            v = self.const_value(e)
            if v is None:
                return atom(".none")
            refuse(e, "name not understood")
        if isinstance(e, ast.Attribute):
            ops = {INSTANCING: "instancing", DAEMON_TABLE: "daemonTable", CONN_TABLE: "connTable", LOCK: "lockOf"}
            if e.attr not in ops:
                refuse(e, "attribute not understood")
            return self.expr(e.value, lambda b: self._bind_pure(ops[e.attr], b, k, ind, bind_to), ind)
        if isinstance(e, ast.Call):
            if e.keywords:
                refuse(e, "keyword arguments")
            f = e.func
            # tbl.get(key)
            if isinstance(f, ast.Attribute) and f.attr == "get" and len(e.args) in (1, 2):
                if len(e.args) == 2 and not (isinstance(e.args[1], ast.Constant) and e.args[1].value is None):
                    refuse(e, ".get with a default other than None")
                return self.expr(f.value, lambda tb: self.expr(e.args[0], lambda ky: emit("tabGet %s %s" % (tb, ky)), ind), ind)
            # helpers
            h = self.helper_target(f)
            if h is not None:
                key, fn, drop_self, explicit_self = h
                name, ds = self.unit.helper(key, fn, drop_self)
                args = list(e.args)

                def with_args(done, todo):
                    if not todo:
                        pre = ["slf"] if ds else []
                        return emit(" ".join([name] + pre + done))
                    return self.expr(todo[0], lambda a: with_args(done + [a], todo[1:]), ind)
                if ds and "slf" not in self.names.values():
                    refuse(e, "method helper called from a function without self")
                return with_args([], args)
            # a call of a value: constructor / creator (user code)
            if isinstance(f, ast.Name) and f.id in self.names:
                def with_args2(done, todo):
                    if not todo:
                        return emit("call %s [%s]" % (self.names[f.id], ", ".join(done)))
                    return self.expr(todo[0], lambda a: with_args2(done + [a], todo[1:]), ind)
                return with_args2([], list(e.args))
            refuse(e, "call target not understood")
        refuse(e, "expression kind not understood")

    def _bind_pure(self, op, arg, k, ind, bind_to):
        pad = "  " * ind
        if bind_to is not None:
            return pad + "bind (%s %s) fun %s =>\n%s" % (op, arg, bind_to[0](), bind_to[1]())
        t = self.temp()
        return pad + "bind (%s %s) fun %s =>\n%s" % (op, arg, t, k(t))

    def helper_target(self, f):
        """(key, function, leading self parameter dropped?, _) if `f` names a private helper"""
        def private(n):
            return n.startswith("_") and not n.startswith("__")
        if isinstance(f, ast.Name) and f.id in self.nested:
            return (("nested", id(self.node), f.id), self.nested[f.id], False, False)
        if isinstance(f, ast.Name) and f.id not in self.names:
            try:
                obj = self.unit.resolve_global(f.id)
            except KeyError:
                return None
            if inspect.isfunction(obj) and obj.__module__ == self.unit.module.__name__ and private(f.id):
                return (("module", f.id), obj, False, False)
            return None
        if isinstance(f, ast.Attribute) and isinstance(f.value, ast.Name) and private(f.attr):
            base = f.value.id
            is_self = self.names.get(base) == "slf"
            is_cls = base not in self.names and base == self.unit.cls.__name__
            if not (is_self or is_cls):
                return None
            raw = inspect.getattr_static(self.unit.cls, f.attr, None)
            if isinstance(raw, staticmethod):
                return (("static", f.attr), raw.__func__, False, False)
            if isinstance(raw, classmethod):
                return (("classm", f.attr), raw.__func__, True, False)
            if inspect.isfunction(raw) and is_self:
                return (("method", f.attr), raw, True, False)
        return None


HEADER = """-- GENERATED by harness/props/c09_tr.py from the python ast of Pyro5/server.py `Daemon._getInstance` and the private
-- helpers it calls (shallow transcription over PyroModel/InstancesSrc.lean) — do not edit
import PyroModel.InstancesSrc
namespace Pyro.Gen.C09Src
open Pyro.Inst Pyro.Inst.Src
"""


def transcribe():
    """Lean source of PyroModel/Gen/C09Src.lean for the current source; a refusal is recorded IN the file
    (`translated = false`, the transcription is `stuck`), so that the `_translated` theorem no longer checks."""
    from Pyro5 import server
    try:
        unit = Unit(server, server.Daemon, "_getInstance", "getInstanceSrc")
        main_params = fn_ast(server.Daemon._getInstance).args.args
        if len(main_params) != 3:
            raise Untranslatable("_getInstance does not take (self, clazz, conn)")
        body = unit.text()
        return HEADER + "def translated : Bool := true\ndef refusal : String := \"\"\n\n" + body + "\n\nend Pyro.Gen.C09Src\n", None
    except Exception as x:        # Untranslatable, or anything unexpected while reading the source: both are a refusal
        if not isinstance(x, Untranslatable):
            x = Untranslatable("translator failed: %r" % (x,))
        why = str(x).replace("\\", "\\\\").replace('"', '\\"').replace("\n", " ")
        return (HEADER + "def translated : Bool := false\ndef refusal : String := \"%s\"\n\n" % why +
                "def getInstanceSrc (self a0 a1 : Val) : M Val :=\n  stuck\n\nend Pyro.Gen.C09Src\n"), str(x)


if __name__ == "__main__":
    import sys
    sys.path.insert(0, "/verif/harness")
    import common
    common.repo_on_path()
    print(transcribe()[0])
