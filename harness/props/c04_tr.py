"""C04: shallow transcription of SerializerBase.dict_to_class / make_exception / recreate_classes into Lean.

python `ast` -> Lean source text over the vocabulary of lean/PyroModel/ClassesSrc.lean (one AST node = one `py…` operation).
SOUND BY REFUSAL: every node kind, call target, attribute and operator that is not explicitly understood raises `Untranslatable`.
Skipped silently: docstrings only.  `log.*(...)` becomes `pyLog` (its arguments are still evaluated).

Normalisations (so that harmless refactorings give the same or a provably equal transcription):
  * parameters / locals get canonical names (p0, p1 / v0, v1 … in order of first binding; locals of an inlined helper are fresh per
    call site), temporaries are numbered per statement;
  * names are resolved through the REAL module objects (core.URI, errors.SecurityError, struct.error, all_exceptions, builtins …),
    a module-level constant tuple of strings to its value (`x in _NAMES` = `x in ("a", "b")`);
  * a call `return Helper(args)` of another plain function of the same class is inlined (parameters substituted);
  * control flow is put into one normal form: every `if` carries the rest of its block into both branches (so `if c: A; return x`,
    `if not c: return x; A; return x` and if/else forms coincide), `if not c` / `x not in y` swap the branches;
  * `if x in {"a": A, "b": B}: return {…}[x]()` (local constant table) = the chain `if x == "a": return A() elif x == "b": return B()`.
"""
import ast
import builtins
import importlib
import inspect
import logging
import struct
import textwrap


class Untranslatable(Exception):
    pass


def _lstr(s):
    if not all(32 <= ord(c) < 127 and c not in '"\\' for c in s):
        raise Untranslatable("string literal outside printable ascii: %r" % s)
    return '(cs "%s")' % s


class _Static(ast.expr):
    """a resolved object injected into the tree (normalisations)"""
    _fields = ()

    def __init__(self, obj):
        super().__init__()
        self.obj = obj


class FnTr:
    """translates one function body; `role` in {"dtc", "mkexc", "rc"}"""

    def __init__(self, mod, klass, fn, role):
        self.mod, self.klass, self.fn, self.role = mod, klass, fn, role
        self.core = importlib.import_module("Pyro5.core")
        self.client = importlib.import_module("Pyro5.client")
        self.server = importlib.import_module("Pyro5.server")
        self.errors = importlib.import_module("Pyro5.errors")
        self.names = {}          # (scope, python name) -> vN
        self.scope = 0
        self.nscopes = 0
        self.nb = 0
        self.pyro_new = {self.core.URI: ".uri", self.client.Proxy: ".proxy", self.server.Daemon: ".daemon"}
        self.pyro_call0 = {mod.SerpentSerializer: ".serpentSer", mod.MarshalSerializer: ".marshalSer",
                           mod.JsonSerializer: ".jsonSer", mod.MsgpackSerializer: ".msgpackSer"}
        self.err_enum = {self.errors.SecurityError: ".security", self.errors.SerializeError: ".serialize"}
        sqlite3 = importlib.import_module("sqlite3")
        self.mods = {id(builtins): (".builtins", BaseException), id(self.errors): (".errors", self.errors.PyroError),
                     id(sqlite3): (".sqlite3", BaseException)}
        self.types = {set: ".set", list: ".list", tuple: ".tuple", dict: ".dict"}

    # ---------------------------------------------------------------- names
    def local(self, name):
        key = (self.scope, name)
        if key not in self.names:
            self.names[key] = "v%d" % len(self.names)
        return self.names[key]

    def no(self, node, why=""):
        raise Untranslatable("%s.%s line %s: %s %s" % (self.klass.__name__, self.fn.__name__, getattr(node, "lineno", "?"),
                                                       type(node).__name__, why))

    def resolve_global(self, node, name):
        if name in vars(self.mod):
            return vars(self.mod)[name]
        if hasattr(builtins, name):
            return getattr(builtins, name)
        self.no(node, "unknown global " + name)

    # ---------------------------------------------------------------- expressions
    # result: (kind, text, monadic)   kind in val str kind obj bool static conv typeof registry data cls self msg
    def expr(self, e, env, pre, st):
        if isinstance(e, _Static):
            return ("static", e.obj, False)
        if isinstance(e, ast.Constant):
            if isinstance(e.value, str):
                return ("conststr", e.value, False)
            if e.value is False:
                return ("val", '(.atom false "False")', False)
            self.no(e, "constant %r" % (e.value,))
        if isinstance(e, ast.Name):
            if e.id in env:
                return env[e.id] + (False,)
            return ("static", self.resolve_global(e, e.id), False)
        if isinstance(e, ast.Attribute):
            base = self.expr(e.value, env, pre, st)
            if base[0] == "cls" and e.attr.endswith("__custom_dict_to_class_registry"):
                reg = getattr(self.klass, "_%s%s" % (self.klass.__name__.lstrip("_"), e.attr) if e.attr.startswith("__") else e.attr, None)
                if not isinstance(reg, dict):
                    self.no(e, "registry attribute is not a dict")
                return ("registry", None, False)
            if base[0] == "static" and (inspect.ismodule(base[1]) or inspect.isclass(base[1])):
                if not hasattr(base[1], e.attr):
                    self.no(e, "no attribute " + e.attr)
                return ("static", getattr(base[1], e.attr), False)
            self.no(e, "attribute ." + e.attr)
        if isinstance(e, ast.Subscript):
            return self.subscript(e, env, pre, st)
        if isinstance(e, ast.Call):
            return self.call(e, env, pre, st)
        if isinstance(e, ast.Compare):
            return self.compare(e, env, pre, st)
        if isinstance(e, ast.BoolOp) and isinstance(e.op, ast.And):
            parts = []
            for v in e.values:
                k, t, m = self.expr(v, env, pre, st)
                if m or k != "bool":
                    self.no(e, "`and` of something that is not a plain test")
                parts.append(t)
            return ("bool", "(" + " && ".join(parts) + ")", False)
        if isinstance(e, ast.BinOp) and isinstance(e.op, ast.Add):
            l = self.expr(e.left, env, pre, st)
            if l[0] != "conststr":
                self.no(e, "`+` whose left operand is not a string literal")
            r = self.atom(e.right, env, pre, st)
            if r[0] != "val":
                self.no(e, "`+` operand")
            return ("val", "pyAddStr %s %s" % (_lstr(l[1]), r[1]), True)
        if isinstance(e, (ast.ListComp, ast.SetComp)):
            return self.comp(e, env, pre, st, "pyMapList" if isinstance(e, ast.ListComp) else "pyMapSet")
        if isinstance(e, ast.Dict) and not e.keys:
            return ("val", "pyEmptyDict", False)
        if isinstance(e, ast.Dict):
            d = {}
            for k, v in zip(e.keys, e.values):
                if not (isinstance(k, ast.Constant) and isinstance(k.value, str)):
                    self.no(e, "dict key")
                vv = self.expr(v, env, pre, st)
                if vv[0] != "static" or not inspect.isclass(vv[1]):
                    self.no(e, "dict value")
                d[k.value] = vv[1]
            return ("static", d, False)
        self.no(e)

    def atom(self, e, env, pre, st):
        """evaluate to a variable / pure term (binds a temporary for a monadic operation)"""
        k, t, m = self.expr(e, env, pre, st)
        if m:
            tmp = "t%d" % st["nt"]
            st["nt"] += 1
            if k == "inline":
                self.no(e, "helper call outside `return`")
            if k == "kind":
                pre.append("let %s ← %s" % (tmp, t[0]))
                return (k, (tmp, t[1]))
            pre.append("let %s ← %s" % (tmp, t))
            return (k, tmp)
        return (k, t)

    def comp(self, e, env, pre, st, op):
        if len(e.generators) != 1:
            self.no(e, "comprehension with several generators")
        g = e.generators[0]
        if g.ifs or g.is_async or not isinstance(g.target, ast.Name):
            self.no(e, "comprehension shape")
        src = self.atom(g.iter, env, pre, st)
        if src[0] != "val":
            self.no(e, "comprehension source")
        f = self.mapped_fn(e.elt, g.target.id, env)
        return ("val", "%s %s %s" % (op, f, src[1]), True)

    def mapped_fn(self, elt, var, env):
        """`self.recreate_classes(<var>)` -> the Lean function applied to every item"""
        if (isinstance(elt, ast.Call) and len(elt.args) == 1 and not elt.keywords and isinstance(elt.args[0], ast.Name)
                and elt.args[0].id == var and isinstance(elt.func, ast.Attribute) and isinstance(elt.func.value, ast.Name)
                and env.get(elt.func.value.id, ("",))[0] == "self" and elt.func.attr == self.fn.__name__ and self.role == "rc"):
            return "rc"
        self.no(elt, "item expression of a comprehension / loop is not the recursive call on the item")

    def subscript(self, e, env, pre, st):
        # <call>.split(sep, n)[i]
        if (isinstance(e.value, ast.Call) and isinstance(e.value.func, ast.Attribute) and e.value.func.attr == "split"
                and isinstance(e.slice, ast.Constant) and isinstance(e.slice.value, int) and e.slice.value >= 0):
            sep, n = self.split_args(e.value)
            x = self.atom(e.value.func.value, env, pre, st)
            if x[0] != "val":
                self.no(e, "split of a non-value")
            return ("str", "pySplitIdx %s '%s' %d %d" % (x[1], sep, n, e.slice.value), True)
        base = self.expr(e.value, env, pre, st)
        if base[0] == "data":
            if not (isinstance(e.slice, ast.Constant) and isinstance(e.slice.value, str)):
                self.no(e, "data[<non-literal>]")
            return ("val", "need %s ks vs" % _lstr(e.slice.value), True)
        if base[0] == "registry":
            x = self.atom(e.slice, env, pre, st)
            if x[0] != "val":
                self.no(e)
            return ("conv", x[1], False)
        if base[0] == "static" and base[1] is getattr(self.mod, "all_exceptions", None):
            x = self.atom(e.slice, env, pre, st)
            if x[0] != "val":
                self.no(e)
            return ("kind", ("pyAllExcGet %s" % x[1], None), True)
        self.no(e, "subscript")

    def split_args(self, c):
        if (len(c.args) == 2 and not c.keywords and isinstance(c.args[0], ast.Constant) and isinstance(c.args[0].value, str)
                and len(c.args[0].value) == 1 and c.args[0].value.isprintable() and c.args[0].value not in "'\\"
                and isinstance(c.args[1], ast.Constant) and isinstance(c.args[1].value, int) and c.args[1].value >= 0):
            return c.args[0].value, c.args[1].value
        self.no(c, "split arguments")

    def kind_of(self, e, env, pre, st):
        """an expression denoting an exception class -> Lean term of type Kind"""
        k = self.atom(e, env, pre, st)
        if k[0] == "kind":
            return k[1][0] if isinstance(k[1], tuple) else k[1]
        if k[0] == "static" and k[1] is struct.error and isinstance(k[1], type) and issubclass(k[1], BaseException):
            return "(.exc Pyro.Gen.C04.structErrorQual)"
        self.no(e, "not a vetted exception class expression")

    def call(self, e, env, pre, st):
        if e.keywords:
            self.no(e, "keyword arguments")
        f = e.func
        # ---- method calls on values ----
        if isinstance(f, ast.Attribute):
            recv_is_name = isinstance(f.value, ast.Name)
            rk = env.get(f.value.id) if recv_is_name and f.value.id in env else None
            if rk and rk[0] == "static":
                rk = None
            if rk and rk[0] == "data" and f.attr == "get" and len(e.args) == 2 and isinstance(e.args[0], ast.Constant) \
                    and isinstance(e.args[0].value, str):
                d = self.expr(e.args[1], env, pre, st)
                dflt = "(.str %s)" % _lstr(d[1]) if d[0] == "conststr" else d[1] if d[0] == "val" and not d[2] else self.no(e, "default")
                return ("val", "(dGet ks vs %s %s)" % (_lstr(e.args[0].value), dflt), False)
            if rk and rk[0] == "val" and f.attr == "decode" and len(e.args) == 1 and isinstance(e.args[0], ast.Constant) \
                    and e.args[0].value == "utf-8":
                return ("val", "pyDecodeUtf8 %s" % rk[1], True)
            if rk and f.attr in ("startswith", "endswith") and len(e.args) == 1 and isinstance(e.args[0], ast.Constant) \
                    and isinstance(e.args[0].value, str):
                lit = _lstr(e.args[0].value)
                if rk[0] == "str":
                    return ("bool", "%s %s %s" % ("startsWith" if f.attr == "startswith" else "endsWith", rk[1], lit), False)
                if rk[0] == "val" and f.attr == "startswith":
                    return ("bool", "pyStartsWith %s %s" % (rk[1], lit), True)
                self.no(e, f.attr + " on this kind of value")
            if rk and rk[0] == "self" and self.role == "rc":
                if f.attr == self.fn.__name__ and len(e.args) == 1:
                    x = self.atom(e.args[0], env, pre, st)
                    if x[0] != "val":
                        self.no(e)
                    return ("val", "rc %s" % x[1], True)
                if f.attr == "dict_to_class" and len(e.args) == 1:
                    x = self.atom(e.args[0], env, pre, st)
                    if x[0] != "val" or x[1] not in st["dicts"]:
                        self.no(e, "dict_to_class on a value not known to be a dict")
                    return ("val", "pyCallDict dtc %s" % x[1], True)
                self.no(e, "method of self")
            # C.__new__(C)
            if f.attr == "__new__" and len(e.args) == 1:
                c = self.expr(f.value, env, pre, st)
                a = self.expr(e.args[0], env, pre, st)
                if c[0] == "static" and a[0] == "static" and c[1] is a[1] and inspect.isclass(c[1]) and c[1] in self.pyro_new:
                    return ("obj", "pyNew %s" % self.pyro_new[c[1]], True)
                self.no(e, "__new__ of a class outside the fixed list")
            # functions of the class, called through the class
            target = self.expr(f, env, pre, st) if not rk else None
            if target and target[0] == "static":
                return self.call_static(e, target[1], env, pre, st, through=f.value)
            self.no(e, "call of ." + f.attr)
        if isinstance(f, ast.Name) and f.id in env:
            k = env[f.id]
            if k[0] == "conv":
                if len(e.args) == 2:
                    a0 = self.atom(e.args[0], env, pre, st)
                    a1 = self.expr(e.args[1], env, pre, st)
                    if a0 == ("val", k[1]) and a1[0] == "data":
                        return ("val", "pyConvert %s ks vs" % k[1], True)
                self.no(e, "converter call shape")
            if k[0] == "kind" and len(e.args) == 1 and isinstance(e.args[0], ast.Starred):
                a = self.atom(e.args[0].value, env, pre, st)
                if a[0] != "val":
                    self.no(e)
                return ("exc", "pyCallStar E %s %s" % (k[1][0], a[1]), True)
            self.no(e, "call of a local")
        target = self.expr(f, env, pre, st)
        if target[0] == "static":
            return self.call_static(e, target[1], env, pre, st, through=None)
        self.no(e, "call")

    def call_static(self, e, obj, env, pre, st, through):
        if obj is isinstance and len(e.args) == 2:
            x = self.atom(e.args[0], env, pre, st)
            t = self.expr(e.args[1], env, pre, st)
            if x[0] == "val" and t[0] == "static" and t[1] is bytes:
                return ("bool", "pyIsBytes %s" % x[1], False)
            if x[0] == "val" and t[0] == "static" and t[1] is dict:
                st["dicts"].add(x[1])          # sound use: only consulted for operands to the right in the same `and`
                return ("bool", "pyIsDict %s" % x[1], False)
            self.no(e, "isinstance")
        if obj is type and len(e.args) == 1:
            x = self.atom(e.args[0], env, pre, st)
            if x[0] != "val":
                self.no(e)
            return ("typeof", x[1], False)
        if obj is tuple and len(e.args) == 1 and isinstance(e.args[0], ast.GeneratorExp):
            return self.comp(e.args[0], env, pre, st, "pyMapTuple")
        if obj is getattr and len(e.args) == 2:
            m = self.expr(e.args[0], env, pre, st)
            if m[0] != "static" or id(m[1]) not in self.mods:
                self.no(e, "getattr on something that is not builtins / Pyro5.errors / sqlite3")
            n = self.atom(e.args[1], env, pre, st)
            if n[0] != "str":
                self.no(e, "getattr name")
            return ("kind", ("pyGetattr %s %s" % (self.mods[id(m[1])][0], n[1]), self.mods[id(m[1])][1]), True)
        if obj is issubclass and len(e.args) == 2:
            x = self.expr(e.args[0], env, pre, st)
            b = self.expr(e.args[1], env, pre, st)
            if x[0] == "kind" and not x[2] and b[0] == "static" and isinstance(x[1], tuple) and x[1][1] is b[1]:
                return ("bool", "pyIssubclass %s" % x[1][0], True)
            self.no(e, "issubclass with a base other than the one the name table was extracted for")
        if inspect.isclass(obj) and obj in self.pyro_call0 and not e.args:
            return ("val", "pyCall0 %s" % self.pyro_call0[obj], True)
        if obj is getattr(self.core, "_ExceptionWrapper") and len(e.args) == 1:
            x = self.atom(e.args[0], env, pre, st)
            if x[0] != "val":
                self.no(e)
            return ("val", "pyNewWrapper %s" % x[1], True)
        # functions of the same class: make_exception / dict_to_class, called through the class by name (no dynamic dispatch)
        if through is not None:
            thr = self.expr(through, env, pre, st)
            fn = getattr(obj, "__func__", obj)
            if thr[0] == "static" and thr[1] is self.klass and inspect.isfunction(fn):
                if fn is getattr(vars(self.klass)["make_exception"], "__func__", None) and len(e.args) == 2:
                    k = self.kind_of(e.args[0], env, pre, st)
                    d = self.expr(e.args[1], env, pre, st)
                    if d[0] != "data":
                        self.no(e, "make_exception on something else than data")
                    return ("val", "makeExceptionSrc E %s ks vs" % k, True)
                if self.role == "dtc" and fn is getattr(vars(self.klass)["dict_to_class"], "__func__", None) and len(e.args) == 1:
                    x = self.atom(e.args[0], env, pre, st)
                    if x[0] != "val" or x[1] not in st["dicts"]:
                        self.no(e, "dict_to_class on a value not known to be a dict")
                    return ("val", "pyCallDict self %s" % x[1], True)
                return ("inline", (fn, e.args), True)
        self.no(e, "call of %r" % (getattr(obj, "__name__", obj),))

    def compare(self, e, env, pre, st):
        if len(e.ops) != 1:
            self.no(e, "chained comparison")
        op, l, r = e.ops[0], e.left, e.comparators[0]
        if isinstance(op, (ast.NotIn, ast.IsNot, ast.NotEq)):
            self.no(e, "negated comparison outside an `if` test")
        if isinstance(op, ast.In):
            if isinstance(r, ast.Tuple) and all(isinstance(c, ast.Constant) and isinstance(c.value, str) for c in r.elts) and r.elts:
                x = self.atom(l, env, pre, st)
                if x[0] != "str":
                    self.no(e, "membership in a tuple of literals, of a non-string")
                return ("bool", "(" + " || ".join("decide (%s = %s)" % (x[1], _lstr(c.value)) for c in r.elts) + ")", False)
            rr = self.expr(r, env, pre, st)
            if rr[0] == "registry":
                x = self.atom(l, env, pre, st)
                if x[0] != "val":
                    self.no(e)
                return ("bool", "pyInRegistry E %s" % x[1], True)
            if rr[0] == "static" and rr[1] is getattr(self.mod, "all_exceptions", None):
                x = self.atom(l, env, pre, st)
                if x[0] != "val":
                    self.no(e)
                return ("bool", "pyInAllExc %s" % x[1], False)
            if rr[0] == "static" and type(rr[1]) is tuple and rr[1] and all(type(c) is str for c in rr[1]):
                # a (module-level) constant tuple of strings, resolved through the real module to its value: as the literal tuple
                x = self.atom(l, env, pre, st)
                if x[0] != "str":
                    self.no(e, "membership in a constant tuple of strings, of a non-string")
                return ("bool", "(" + " || ".join("decide (%s = %s)" % (x[1], _lstr(c)) for c in rr[1]) + ")", False)
            ll = self.expr(l, env, pre, st)
            if ll[0] == "conststr":
                if rr[0] == "data":
                    return ("bool", "hasKey %s ks vs" % _lstr(ll[1]), False)
                if rr[0] == "val" and not rr[2]:
                    if rr[1] in st["dicts"]:
                        return ("bool", "pyHasKeyV %s %s" % (_lstr(ll[1]), rr[1]), False)
                    return ("bool", "pyStrIn %s %s" % (_lstr(ll[1]), rr[1]), True)
            self.no(e, "`in`")
        if isinstance(op, ast.Eq):
            x = self.atom(l, env, pre, st)
            c = self.expr(r, env, pre, st)
            if c[0] == "conststr" and x[0] == "val":
                return ("bool", "pyEqStr %s %s" % (x[1], _lstr(c[1])), False)
            if c[0] == "conststr" and x[0] == "str":
                return ("bool", "decide (%s = %s)" % (x[1], _lstr(c[1])), False)
            self.no(e, "==")
        if isinstance(op, ast.Is):
            x = self.expr(l, env, pre, st)
            t = self.expr(r, env, pre, st)
            if x[0] == "typeof" and t[0] == "static" and t[1] in self.types:
                return ("bool", "pyTypeIs %s %s" % (x[1], self.types[t[1]]), False)
            self.no(e, "`is`")
        self.no(e, "comparison operator")

    # ---------------------------------------------------------------- statements
    def test(self, t, env, pre, st):
        """-> (lean Bool term, negated?, variable known to be a dict inside the then-branch)"""
        neg = False
        while isinstance(t, ast.UnaryOp) and isinstance(t.op, ast.Not):
            neg, t = not neg, t.operand
        if isinstance(t, ast.Compare) and len(t.ops) == 1 and isinstance(t.ops[0], ast.NotIn):
            neg, t = not neg, ast.copy_location(ast.Compare(left=t.left, ops=[ast.In()], comparators=t.comparators), t)
        isdict = None
        if isinstance(t, ast.Compare) and isinstance(t.ops[0], ast.Is):
            x = self.expr(t.left, env, [], dict(st))
            c = self.expr(t.comparators[0], env, [], dict(st))
            if x[0] == "typeof" and c[0] == "static" and c[1] is dict:
                isdict = x[1]
        saved = set(st["dicts"])
        k, txt, m = self.expr(t, env, pre, st)
        st["dicts"] = saved
        if k == "val":
            if m:
                tmp = "t%d" % st["nt"]
                st["nt"] += 1
                pre.append("let %s ← %s" % (tmp, txt))
                txt = tmp
            return "truthy %s" % txt, neg, isdict
        if k != "bool":
            self.no(t, "test")
        if m:
            self.nb += 1
            b = "b%d" % self.nb
            pre.append("let %s ← %s" % (b, txt))
            txt = b
        return txt, neg, isdict

    def block(self, stmts, env, dicts):
        """lines of a terminating `do` block for the statement list (which must end in return / raise on every path)"""
        out = []
        env = dict(env)
        i = 0
        while i < len(stmts):
            s = stmts[i]
            rest = stmts[i + 1:]
            st = {"nt": 0, "dicts": set(dicts)}
            pre = []
            if isinstance(s, ast.Expr) and isinstance(s.value, ast.Constant) and isinstance(s.value.value, str):
                i += 1
                continue
            if isinstance(s, ast.ImportFrom):
                if s.level != 1 or s.module is not None:
                    self.no(s, "import form")
                for a in s.names:
                    if a.asname or a.name not in ("core", "client", "server", "errors"):
                        self.no(s, "import of " + a.name)
                    env[a.name] = ("static", importlib.import_module("Pyro5." + a.name))
                i += 1
                continue
            if isinstance(s, ast.Import):
                for a in s.names:
                    if a.asname or "." in a.name:
                        self.no(s, "import form")
                    m = importlib.import_module(a.name) if a.name in ("sqlite3",) else self.no(s, "import of " + a.name)
                    out.append("pyImport %s" % _lstr(a.name))
                    env[a.name] = ("static", m)
                i += 1
                continue
            if isinstance(s, ast.Assign):
                if len(s.targets) != 1:
                    self.no(s, "multiple targets")
                tg = s.targets[0]
                if isinstance(tg, ast.Tuple):
                    if (len(tg.elts) == 2 and all(isinstance(x, ast.Name) for x in tg.elts) and isinstance(s.value, ast.Call)
                            and isinstance(s.value.func, ast.Attribute) and s.value.func.attr == "split"):
                        sep, n = self.split_args(s.value)
                        x = self.atom(s.value.func.value, env, pre, st)
                        if x[0] != "val":
                            self.no(s)
                        a, b = self.local(tg.elts[0].id), self.local(tg.elts[1].id)
                        out += pre
                        out.append("let (%s, %s) ← pySplit2 %s '%s' %d" % (a, b, x[1], sep, n))
                        env[tg.elts[0].id] = ("str", a)
                        env[tg.elts[1].id] = ("str", b)
                        i += 1
                        continue
                    self.no(s, "unpacking")
                if not isinstance(tg, ast.Name):
                    self.no(s, "assignment target")
                k, txt, m = self.expr(s.value, env, pre, st)
                out += pre
                if k in ("static", "conv", "typeof", "registry"):
                    env[tg.id] = (k, txt)
                elif k == "inline":
                    self.no(s, "helper call outside `return`")
                elif k in ("val", "str", "obj", "exc", "kind"):
                    v = self.local(tg.id)
                    base = None
                    if k == "kind":
                        txt, base = txt
                    out.append(("let %s ← %s" if m else "let %s := %s") % (v, txt))
                    env[tg.id] = ("val", v) if k in ("val", "obj", "exc") else ("kind", (v, base)) if k == "kind" else (k, v)
                    if k in ("obj", "exc"):
                        env[tg.id] = (k, v)
                else:
                    self.no(s, "assignment of " + k)
                i += 1
                continue
            if isinstance(s, ast.Expr) and isinstance(s.value, ast.Call):
                c = s.value
                f = c.func
                # log.<level>(…)
                if isinstance(f, ast.Attribute) and isinstance(f.value, ast.Name) and f.value.id not in env \
                        and isinstance(self.resolve_global(f, f.value.id), logging.Logger) \
                        and f.attr in ("debug", "info", "warning", "error", "critical", "exception"):
                    for a in c.args:
                        self.atom(a, env, pre, st)
                    out += pre
                    out.append("pyLog")
                    i += 1
                    continue
                # obj.__setstate__(x)
                if isinstance(f, ast.Attribute) and f.attr == "__setstate__" and isinstance(f.value, ast.Name) \
                        and env.get(f.value.id, ("",))[0] == "obj" and len(c.args) == 1 and not c.keywords:
                    a = self.atom(c.args[0], env, pre, st)
                    if a[0] != "val":
                        self.no(s)
                    v = env[f.value.id][1]
                    out += pre
                    out.append("let %s ← pySetstate E %s %s" % (v, v, a[1]))
                    i += 1
                    continue
                self.no(s, "expression statement")
            if isinstance(s, ast.For):
                out += self.loop(s, env, st)
                i += 1
                continue
            if isinstance(s, ast.Return):
                if s.value is None:
                    self.no(s, "bare return")
                k, txt, m = self.expr(s.value, env, pre, st)
                if k == "inline":
                    out += pre
                    return out + self.inline(txt[0], txt[1], env, dicts, s)
                if k not in ("val", "obj", "exc"):
                    self.no(s, "return of " + k)
                out += pre
                out.append(txt if m else "pure %s" % txt)
                return out
            if isinstance(s, ast.Raise):
                if s.cause is not None or not isinstance(s.exc, ast.Call):
                    self.no(s, "raise form")
                c = self.expr(s.exc.func, env, pre, st)
                if c[0] != "static" or c[1] not in self.err_enum or s.exc.keywords:
                    self.no(s, "raise of a class outside SecurityError / SerializeError")
                for a in s.exc.args:
                    self.atom(a, env, pre, st)
                out += pre
                out.append("M.fail %s" % self.err_enum[c[1]])
                return out
            if isinstance(s, ast.If):
                norm = self.table_lookup(s, env)
                if norm is not None:
                    stmts = stmts[:i] + [norm] + rest
                    continue
                joined = self.join_var(s, rest, env)
                cond, neg, isdict = self.test(s.test, env, pre, st)
                out += pre
                if joined is not None:
                    # an `if` that only rebinds one existing local and falls through: `let v ← if c then … else …`
                    v = env[joined][1]
                    ret = [ast.copy_location(ast.Return(value=ast.Name(id=joined, ctx=ast.Load())), s)]
                    a, b = (s.orelse, s.body) if neg else (s.body, s.orelse)
                    da = set(dicts) | (self.and_dicts(s.test, env) if not neg else set())
                    out.append("let %s ← (if %s then do" % (v, cond))
                    out += ["    " + l for l in self.block(list(a) + ret, env, da)]
                    out.append("  else do")
                    out += ["    " + l for l in self.block(list(b) + ret, env, dicts)]
                    out[-1] += ")"
                    i += 1
                    continue
                a, b = (s.orelse, s.body) if neg else (s.body, s.orelse)
                da = set(dicts) | ({isdict} if isdict and not neg else set())
                db = set(dicts) | ({isdict} if isdict and neg else set())
                # `x = f(x)` under isinstance(x, dict) and …: the facts of an `and` test hold in the then-branch
                if not neg:
                    da |= self.and_dicts(s.test, env)
                out.append("if %s then do" % cond)
                out += ["  " + l for l in self.block(list(a) + rest, env, da)]
                out.append("else do")
                out += ["  " + l for l in self.block(list(b) + rest, env, db)]
                return out
            self.no(s, "statement")
        raise Untranslatable("%s.%s: a path falls off the end of the function" % (self.klass.__name__, self.fn.__name__))

    def join_var(self, s, rest, env):
        """the single existing value-local an `if` rebinds when neither branch returns, raises, loops or binds anything else"""
        if not rest:
            return None
        names = set()
        for part in (s.body, s.orelse):
            for st_ in part:
                if not (isinstance(st_, ast.Assign) and len(st_.targets) == 1 and isinstance(st_.targets[0], ast.Name)):
                    return None
                names.add(st_.targets[0].id)
        if len(names) != 1:
            return None
        n = names.pop()
        return n if env.get(n, ("",))[0] == "val" else None

    def and_dicts(self, t, env):
        out = set()
        vals = t.values if isinstance(t, ast.BoolOp) and isinstance(t.op, ast.And) else [t]
        for v in vals:
            if (isinstance(v, ast.Call) and isinstance(v.func, ast.Name) and v.func.id == "isinstance" and v.func.id not in env
                    and len(v.args) == 2 and isinstance(v.args[0], ast.Name) and isinstance(v.args[1], ast.Name)
                    and v.args[1].id == "dict" and "dict" not in env and env.get(v.args[0].id, ("",))[0] == "val"):
                out.add(env[v.args[0].id][1])
        return out

    def table_lookup(self, s, env):
        """`if x in T: return T[x]()` with T a local constant {str: class} table -> if/elif chain of `x == key: return Class()`"""
        t = s.test
        if not (isinstance(t, ast.Compare) and len(t.ops) == 1 and isinstance(t.ops[0], ast.In) and isinstance(t.left, ast.Name)
                and isinstance(t.comparators[0], ast.Name) and env.get(t.comparators[0].id, ("",))[0] == "static"
                and isinstance(env[t.comparators[0].id][1], dict) and env[t.comparators[0].id][1]
                and env.get(t.left.id, ("",))[0] == "val"):
            return None
        tbl = env[t.comparators[0].id][1]
        ok = (not s.orelse and len(s.body) == 1 and isinstance(s.body[0], ast.Return) and isinstance(s.body[0].value, ast.Call)
              and not s.body[0].value.args and not s.body[0].value.keywords and isinstance(s.body[0].value.func, ast.Subscript)
              and isinstance(s.body[0].value.func.value, ast.Name) and s.body[0].value.func.value.id == t.comparators[0].id
              and isinstance(s.body[0].value.func.slice, ast.Name) and s.body[0].value.func.slice.id == t.left.id)
        if not ok:
            self.no(s, "use of a constant class table other than `if x in T: return T[x]()`")
        node = []
        for key, klass in reversed(list(tbl.items())):
            test = ast.Compare(left=ast.Name(id=t.left.id, ctx=ast.Load()), ops=[ast.Eq()], comparators=[ast.Constant(value=key)])
            ret = ast.Return(value=ast.Call(func=_Static(klass), args=[], keywords=[]))
            node = [ast.copy_location(ast.If(test=test, body=[ret], orelse=node), s)]
            ast.fix_missing_locations(node[0])
        return node[0]

    def loop(self, s, env, st):
        """the two loop idioms: setattr of every item of a dict / filling a fresh dict with the mapped values of a dict"""
        if s.orelse or not (isinstance(s.target, ast.Tuple) and len(s.target.elts) == 2
                            and all(isinstance(x, ast.Name) for x in s.target.elts)):
            self.no(s, "loop shape")
        kname, vname = s.target.elts[0].id, s.target.elts[1].id
        it = s.iter
        if not (isinstance(it, ast.Call) and not it.args and not it.keywords and isinstance(it.func, ast.Attribute)
                and it.func.attr == "items") or len(s.body) != 1:
            self.no(s, "loop shape")
        pre = []
        src = self.atom(it.func.value, env, pre, st)
        if src[0] != "val":
            self.no(s, "loop source")
        b = s.body[0]
        if (isinstance(b, ast.Expr) and isinstance(b.value, ast.Call) and isinstance(b.value.func, ast.Name)
                and b.value.func.id == "setattr" and "setattr" not in env and not b.value.keywords and len(b.value.args) == 3
                and all(isinstance(a, ast.Name) for a in b.value.args) and env.get(b.value.args[0].id, ("",))[0] == "exc"
                and b.value.args[1].id == kname and b.value.args[2].id == vname and self.resolve_global(b, "setattr") is setattr):
            v = env[b.value.args[0].id][1]
            return pre + ["let %s ← pySetattrItems E %s %s" % (v, v, src[1])]
        if (isinstance(b, ast.Assign) and len(b.targets) == 1 and isinstance(b.targets[0], ast.Subscript)
                and isinstance(b.targets[0].value, ast.Name) and env.get(b.targets[0].value.id, ("",))[0] == "val"
                and isinstance(b.targets[0].slice, ast.Name) and b.targets[0].slice.id == kname):
            if src[1] not in st["dicts"]:
                self.no(s, "items() of a value not known to be a dict")
            f = self.mapped_fn(b.value, vname, env)
            v = env[b.targets[0].value.id][1]
            return pre + ["let %s ← pyDictMapInto %s %s %s" % (v, v, src[1], f)]
        self.no(s, "loop body")

    def inline(self, fn, args, env, dicts, node):
        """`return Helper(a, b)`: the helper's body with its parameters bound to the arguments (plain positional parameters only)"""
        if getattr(self, "_depth", 0) >= 3:
            self.no(node, "helper nesting")
        try:
            tree = ast.parse(textwrap.dedent(inspect.getsource(fn))).body[0]
        except (OSError, TypeError, SyntaxError):
            self.no(node, "helper source")
        a = tree.args
        if a.vararg or a.kwarg or a.kwonlyargs or a.defaults or a.posonlyargs or len(a.args) != len(args) or tree.decorator_list[1:]:
            self.no(node, "helper signature")
        is_static = isinstance(vars(self.klass).get(fn.__name__), staticmethod)
        if not is_static:
            self.no(node, "helper is not a staticmethod of the class")
        new_env = {}
        pre = []
        for p, x in zip(a.args, args):
            k = self.atom(x, env, pre, {"nt": 0, "dicts": set(dicts)})
            if k[0] not in ("static", "data", "val", "str", "kind"):
                self.no(node, "helper argument")
            new_env[p.arg] = k
        saved = self.scope
        self.nscopes += 1
        self.scope = self.nscopes
        self._depth = getattr(self, "_depth", 0) + 1
        try:
            return pre + self.block(tree.body, new_env, dicts)
        finally:
            self.scope = saved
            self._depth -= 1


def _fn_ast(fn):
    tree = ast.parse(textwrap.dedent(inspect.getsource(fn))).body[0]
    if not isinstance(tree, ast.FunctionDef):
        raise Untranslatable("not a plain function: %r" % fn)
    a = tree.args
    if a.vararg or a.kwarg or a.kwonlyargs or a.defaults or a.posonlyargs:
        raise Untranslatable("signature of %s" % fn.__name__)
    return tree


def _emit(name, sig, lines):
    return "def %s %s : M Val := do\n%s\n" % (name, sig, "\n".join("  " + l for l in lines))


def translate(mod):
    """Lean source of PyroModel/Gen/C04Src.lean from the live module Pyro5.serializers"""
    klass = mod.SerializerBase
    out = ["-- GENERATED by harness/props/c04_tr.py from the source of Pyro5/serializers.py (SerializerBase.make_exception,",
           "-- dict_to_class, recreate_classes) on every run — do not edit",
           "import PyroModel.ClassesSrc", "",
           "set_option linter.unusedVariables false", "",
           "namespace Pyro.Gen.C04Src", "",
           "open Pyro.Classes Pyro.Classes.Src", "open Pyro.Gen.C04 (Kind)", ""]
    # make_exception(exceptiontype, data)
    raw = vars(klass)["make_exception"]
    if not isinstance(raw, staticmethod):
        raise Untranslatable("make_exception is not a staticmethod")
    fn = raw.__func__
    tree = _fn_ast(fn)
    if len(tree.args.args) != 2:
        raise Untranslatable("make_exception signature")
    tr = FnTr(mod, klass, fn, "mkexc")
    env = {tree.args.args[0].arg: ("kind", ("p0", None)), tree.args.args[1].arg: ("data", None)}
    out.append("/-- SerializerBase.make_exception(exceptiontype, data) -/")
    out.append(_emit("makeExceptionSrc", "(E : Env) (p0 : Kind) (ks : List Key) (vs : List Val)", tr.block(tree.body, env, set())))
    # dict_to_class(cls, data)
    raw = vars(klass)["dict_to_class"]
    if not isinstance(raw, classmethod):
        raise Untranslatable("dict_to_class is not a classmethod")
    fn = raw.__func__
    tree = _fn_ast(fn)
    if len(tree.args.args) != 2:
        raise Untranslatable("dict_to_class signature")
    tr = FnTr(mod, klass, fn, "dtc")
    env = {tree.args.args[0].arg: ("cls", None), tree.args.args[1].arg: ("data", None)}
    out.append("/-- SerializerBase.dict_to_class(data); `self` = the recursive call `SerializerBase.dict_to_class` -/")
    out.append(_emit("dictToClassSrc", "(E : Env) (self : List Key → List Val → M Val) (ks : List Key) (vs : List Val)",
                     tr.block(tree.body, env, set())))
    # recreate_classes(self, literal)
    fn = vars(klass)["recreate_classes"]
    if not inspect.isfunction(fn):
        raise Untranslatable("recreate_classes is not a plain method")
    tree = _fn_ast(fn)
    if len(tree.args.args) != 2:
        raise Untranslatable("recreate_classes signature")
    tr = FnTr(mod, klass, fn, "rc")
    env = {tree.args.args[0].arg: ("self", None), tree.args.args[1].arg: ("val", "p1")}
    out.append("/-- SerializerBase.recreate_classes(literal); `rc` = the recursive call, `dtc` = `self.dict_to_class` -/")
    out.append(_emit("recreateSrc", "(rc : Val → M Val) (dtc : List Key → List Val → M Val) (p1 : Val)",
                     tr.block(tree.body, env, set())))
    out.append("/-- the transcribed dict_to_class with its recursive call unfolded `n` times (budget for the wrapper chain) -/\n"
               "def dictToClassFix (E : Env) : Nat → List Key → List Val → M Val\n"
               "  | 0 => fun _ _ => M.fail .fuel\n"
               "  | n + 1 => dictToClassSrc E (dictToClassFix E n)\n")
    out.append("/-- the transcribed recreate_classes with its recursive call unfolded `n` times -/\n"
               "def recreateFix (dtc : List Key → List Val → M Val) : Nat → Val → M Val\n"
               "  | 0 => fun _ => M.fail .fuel\n"
               "  | n + 1 => recreateSrc (recreateFix dtc n) dtc\n")
    out.append("end Pyro.Gen.C04Src")
    return "\n".join(out) + "\n"


if __name__ == "__main__":
    import sys
    sys.path.insert(0, sys.argv[1] if len(sys.argv) > 1 else "/repo")
    from Pyro5 import serializers
    print(translate(serializers))
