"""c10_tr.py — per-property translator for C10: python `ast` of the stream functions of Pyro5/server.py -> Lean text.

Shallow embedding over the model's own types (lean/PyroModel/Streams.lean + StreamsSrc.lean): the dict
`streaming_responses` is the model's `Table`, an entry tuple is an `Entry`, `raise X` is `Except.error` of the class
resolved through the real module, `next(stream)` is a three-way match on what the iterator still holds, `with lock:` is
a marker, user hooks are abstract operations.

The function is *symbolically executed* in continuation-passing style, so that what is emitted is its decision tree:
guard clauses / nested ifs / try-else forms, `not x in y` / `x not in y`, renamed locals and parameters, hoisted
module constants and helpers of the same class (inlined) all give the same text.  A condition that is already decided
on the path (same atom over the same table value) is not tested again; a loop-invariant test inside a loop over the key
snapshot is hoisted out of the loop (`for k: if c: A else: B` = `if c: for k: A else: for k: B`).

SOUND BY REFUSAL: every node kind, call target, attribute, operator that is not explicitly understood raises
`Untranslatable`.  Only docstrings, `log.*(...)` calls and annotations are skipped.
"""
import ast
import builtins
import collections.abc
import inspect
import logging
import textwrap


class Untranslatable(Exception):
    pass


def _no(what, node=None):
    raise Untranslatable(what + ("" if node is None else ": " + ast.unparse(node)[:120]))


# ---------------------------------------------------------------------------------------------------- symbolic values
class V(object):
    def __init__(self, **kw):
        self.__dict__.update(kw)


class Tbl(V): pass            # the stream table (the one mutable dict)
class TblMethod(V): pass      # name
class DaemonV(V): pass
class DObjV(V): pass
class LockV(V): pass
class DataV(V): pass
class TypeOfData(V): pass
class UuidV(V): pass
class NoneV(V): pass
class Opaque(V): pass         # a caught exception object bound by `as`
class Key(V): pass            # text : Nat
class Conn(V): pass           # text : Nat
class Owner(V): pass          # text : Option Nat
class Time(V): pass           # text : Nat
class IntV(V): pass           # text : Int
class ConstInt(V): pass       # n
class BoolC(V): pass          # b
class BoolV(V): pass          # atom, neg
class OptEntry(V): pass       # text, tbl, key
class EntryV(V): pass         # var, key
class IterV(V): pass          # key, rest
class ItemV(V): pass          # text
class Tup(V): pass            # items
class KeysV(V): pass          # tbl
class Real(V): pass           # obj
class BoundMethod(V): pass    # selfv, name
class CondV(V): pass          # node, env, table: a local bound to a pure test; substituted by value where it is used


class S(object):
    """path state: local variables, current table expression, decided atoms, decided lookups"""
    def __init__(self, env, table, known, optknown, consumed=False):
        self.env, self.table, self.known, self.optknown, self.consumed = env, table, known, optknown, consumed

    def w(self, **kw):
        d = dict(env=self.env, table=self.table, known=self.known, optknown=self.optknown, consumed=self.consumed)
        d.update(kw)
        return S(**d)

    def bind(self, name, v):
        e = dict(self.env)
        e[name] = v
        return self.w(env=e)

    def know(self, atom, val):
        k = dict(self.known)
        k[atom] = val
        return self.w(known=k)


VIEW_TYPES = {type({}.keys()), type({}.values()), type({}.items())}
CONFIG_ATTRS = {"ITER_STREAMING": ("bool", "cfg.streaming = true"), "ITER_STREAM_LIFETIME": ("int", "cfg.lifetime"),
                "ITER_STREAM_LINGER": ("int", "cfg.linger")}
# user-overridable hooks of Daemon: abstract operations of the model
HOOKS = {"clientDisconnect": "raises-if-hookFails", "housekeeping": "no-op"}


class Tr(object):
    def __init__(self, module, cls):
        self.module, self.cls = module, cls
        self.n = {}
        self.markers = []
        import Pyro5.callcontext
        import Pyro5.server
        self.real_config = Pyro5.server.config
        self.real_ctx = Pyro5.callcontext.current_context

    def fresh(self, p):
        self.n[p] = self.n.get(p, 0) + 1
        return "%s%d" % (p, self.n[p])

    # ------------------------------------------------------------------------------------------ expressions (pure)
    def ev(self, e, st):
        if isinstance(e, ast.Name):
            if e.id in st.env:
                return st.env[e.id]
            if e.id in self.module.__dict__:
                return self.real(self.module.__dict__[e.id], e)
            if hasattr(builtins, e.id):
                return Real(obj=getattr(builtins, e.id))
            _no("unbound name", e)
        if isinstance(e, ast.Constant):
            if e.value is None:
                return NoneV()
            if isinstance(e.value, bool):
                return BoolC(b=e.value)
            if isinstance(e.value, int):
                return ConstInt(n=e.value)
            if isinstance(e.value, str):
                return Real(obj=e.value)
            _no("constant", e)
        if isinstance(e, ast.Attribute):
            b = self.ev(e.value, st)
            return self.attr(b, e.attr, e)
        if isinstance(e, ast.Tuple):
            return Tup(items=[self.ev(x, st) for x in e.elts])
        if isinstance(e, ast.Subscript):
            b = self.ev(e.value, st)
            if isinstance(b, Tbl):
                _no("table lookup in a nested expression", e)
            b = self.as_entry(b, st, e)
            i = self.ev(e.slice, st)
            if not isinstance(i, ConstInt) or not 0 <= i.n <= 3:
                _no("entry index", e)
            return self.comps(b)[i.n]
        if isinstance(e, ast.Call):
            return self.call(e, st)
        if isinstance(e, ast.Compare) and len(e.ops) == 1:
            a, neg = self.atom(self.ev(e.left, st), e.ops[0], self.rhs(e.comparators[0], st), e, st)
            if a is None:
                _no("comparison as a value", e)
            return BoolV(atom=a, neg=neg)
        if isinstance(e, ast.BinOp) and isinstance(e.op, ast.Sub):
            return IntV(text="(%s - %s)" % (self.int_text(self.ev(e.left, st), e), self.int_text(self.ev(e.right, st), e)))
        _no("expression", e)

    def real(self, obj, node):
        if isinstance(obj, bool):
            return BoolC(b=obj)
        if isinstance(obj, int):
            return ConstInt(n=obj)       # module-level constants are the values they name
        return Real(obj=obj)

    def attr(self, b, name, node):
        if isinstance(b, DObjV):
            if name == "daemon":
                return DaemonV()
            if inspect.isfunction(getattr(self.cls, name, None)):
                return BoundMethod(selfv=b, name=name)      # helper of the same class: inlined at the call site
            _no("attribute of the daemon object", node)
        if isinstance(b, DaemonV):
            if name == "streaming_responses":
                return Tbl()
            if name == "_shutting_down":
                return BoolV(atom="shutting = true", neg=False)
            if name == "housekeeper_lock":
                return LockV(name=name)
            if inspect.isfunction(getattr(self.cls, name, None)):
                return BoundMethod(selfv=b, name=name)
            _no("attribute of the daemon", node)
        if isinstance(b, Tbl):
            if name in ("get", "pop", "keys"):
                return TblMethod(name=name)
            _no("dict method", node)
        if isinstance(b, Real):
            if b.obj is self.real_config:
                if name not in CONFIG_ATTRS:
                    _no("config item", node)
                kind, text = CONFIG_ATTRS[name]
                return BoolV(atom=text, neg=False) if kind == "bool" else IntV(text=text)
            if b.obj is self.real_ctx:
                if name == "client":
                    return Conn(text="conn")
                _no("context attribute", node)
            if not hasattr(b.obj, name):
                _no("unresolvable attribute", node)
            return self.real(getattr(b.obj, name), node)
        _no("attribute", node)

    def rhs(self, e, st):
        """right operand of a comparison: may be a closed expression over module-level names (a tuple of types)"""
        try:
            return self.ev(e, st)
        except Untranslatable:
            names = {n.id for n in ast.walk(e) if isinstance(n, ast.Name)}
            if any(n in st.env for n in names):
                raise
            try:
                return Real(obj=eval(compile(ast.Expression(e), "<c10_tr>", "eval"), dict(self.module.__dict__)))
            except Exception:
                _no("closed expression", e)

    def call(self, e, st):
        if e.keywords:
            _no("keyword arguments", e)
        f = self.ev(e.func, st)
        args = [self.ev(a, st) for a in e.args]
        if isinstance(f, TblMethod):
            if f.name == "get" and (len(args) == 1 or (len(args) == 2 and isinstance(args[1], NoneV))) and isinstance(args[0], Key):
                return OptEntry(text="Table.get %s %s" % (st.table, args[0].text), tbl=st.table, key=args[0].text)
            if f.name == "keys" and not args:
                return KeysV(tbl=st.table)
            _no("dict call", e)
        if isinstance(f, Real):
            o = f.obj
            if o is list and len(args) == 1 and isinstance(args[0], (KeysV, Tbl)):
                return KeysV(tbl=st.table if isinstance(args[0], Tbl) else args[0].tbl)
            import time as _time
            import uuid as _uuid
            if (o is _time.time or o == getattr(getattr(self.module, "time", None), "time", None)) and not args:
                return Time(text="now")
            if o is isinstance and len(args) == 2 and isinstance(args[0], DataV) and isinstance(args[1], Real) \
                    and args[1].obj is collections.abc.Iterator:
                return BoolV(atom="dIsIter = true", neg=False)
            if o is inspect.isgenerator and len(args) == 1 and isinstance(args[0], DataV):
                return BoolV(atom="dIsGen = true", neg=False)
            if o is type and len(args) == 1 and isinstance(args[0], DataV):
                return TypeOfData()
            if o is _uuid.uuid4 and not args:
                return UuidV()
            if o is str and len(args) == 1 and isinstance(args[0], UuidV):
                return Key(text="fresh")
        _no("call", e)

    def as_entry(self, v, st, node):
        if isinstance(v, EntryV):
            return v
        if isinstance(v, OptEntry) and st.optknown.get(v.text):
            return EntryV(var=st.optknown[v.text], key=v.key)
        _no("indexing something that is not known to be an entry", node)

    def comps(self, ent):
        return [Owner(text=ent.var + ".owner"), Time(text=ent.var + ".created"), Time(text=ent.var + ".linger"),
                IterV(key=ent.key, rest=ent.var + ".rest")]

    def int_text(self, v, node):
        if isinstance(v, ConstInt):
            return "(%d : Int)" % v.n
        if isinstance(v, Time):
            return "(%s : Int)" % v.text
        if isinstance(v, IntV):
            return v.text
        _no("not a number", node)

    def entry_lit(self, v, key, node):
        if not isinstance(v, Tup) or len(v.items) != 4:
            _no("table value is not a 4-tuple", node)
        o, c, l, r = v.items
        if isinstance(o, Owner):
            ot = o.text
        elif isinstance(o, Conn):
            ot = "some " + o.text
        elif isinstance(o, NoneV):
            ot = "none"
        else:
            _no("owner component", node)
        if not isinstance(c, Time):
            _no("creation time component", node)
        if isinstance(l, Time):
            lt = l.text
        elif isinstance(l, ConstInt) and l.n >= 0:
            lt = str(l.n)
        else:
            _no("linger component", node)
        if isinstance(r, IterV) and r.key == key:
            rt = r.rest
        elif isinstance(r, DataV):
            rt = "items"
        else:
            _no("iterator component (must be the iterator of this very stream)", node)
        return "({ owner := %s, created := %s, linger := %s, rest := %s } : Entry)" % (ot, c.text, lt, rt)

    # ------------------------------------------------------------------------------------------ conditions
    def atom(self, l, op, r, node, st):
        """(atom text, negated) of a single comparison; (None, _) when it needs a match instead"""
        if isinstance(op, (ast.In, ast.NotIn)):
            neg = isinstance(op, ast.NotIn)
            if isinstance(l, Key) and isinstance(r, Tbl):
                return "Src.contains %s %s = true" % (st.table, l.text), neg
            if isinstance(l, TypeOfData):
                ts = r.items if isinstance(r, Tup) else (r.obj if isinstance(r, Real) and isinstance(r.obj, tuple) else None)
                if ts is not None:
                    ts = {t.obj if isinstance(t, Real) else t for t in ts}
                    if ts == VIEW_TYPES:
                        return "dIsView = true", neg
            _no("membership test", node)
        if isinstance(op, (ast.Is, ast.IsNot)):
            neg = isinstance(op, ast.IsNot)
            if isinstance(r, NoneV) and isinstance(l, Owner):
                return "%s.isNone = true" % l.text, neg
            if isinstance(r, Conn) and isinstance(l, Owner):
                return "%s = some %s" % (l.text, r.text), neg
            if isinstance(r, NoneV) and isinstance(l, OptEntry):
                return None, not neg      # `info is None` = not truthy (entries are non-empty tuples)
            _no("identity test", node)
        if isinstance(op, (ast.Lt, ast.Gt, ast.LtE, ast.GtE)):
            a, b = self.int_text(l, node), self.int_text(r, node)
            if isinstance(op, ast.Lt):
                return "%s < %s" % (a, b), False
            if isinstance(op, ast.Gt):
                return "%s < %s" % (b, a), False
            if isinstance(op, ast.LtE):
                return "%s < %s" % (b, a), True
            return "%s < %s" % (a, b), True
        _no("comparison operator", node)

    def ite(self, atom, neg, st, kt, kf):
        if neg:
            kt, kf = kf, kt
        if atom in st.known:
            return (kt if st.known[atom] else kf)(st)
        return ("ite", atom, kt(st.know(atom, True)), kf(st.know(atom, False)))

    def match_opt(self, o, st, ksome, knone):
        if o.text in st.optknown:
            return (ksome if st.optknown[o.text] else knone)(st)
        var = self.fresh("e")
        c = "Src.contains %s %s = true" % (o.tbl, o.key)
        ok1 = dict(st.optknown)
        ok1[o.text] = var
        ok0 = dict(st.optknown)
        ok0[o.text] = ""
        return ("mopt", o.text, var, ksome(st.know(c, True).w(optknown=ok1)), knone(st.know(c, False).w(optknown=ok0)))

    def branch(self, e, st, kt, kf):
        if isinstance(e, ast.UnaryOp) and isinstance(e.op, ast.Not):
            return self.branch(e.operand, st, kf, kt)
        if isinstance(e, ast.BoolOp):
            first, rest = e.values[0], e.values[1:]
            more = rest[0] if len(rest) == 1 else ast.BoolOp(op=e.op, values=rest)
            if isinstance(e.op, ast.And):
                return self.branch(first, st, lambda s: self.branch(more, s, kt, kf), kf)
            return self.branch(first, st, kt, lambda s: self.branch(more, s, kt, kf))
        if isinstance(e, ast.Compare):
            if len(e.ops) > 1:      # a < b < c  =  a < b and b < c (operands here are pure)
                parts = []
                left = e.left
                for op, right in zip(e.ops, e.comparators):
                    parts.append(ast.Compare(left=left, ops=[op], comparators=[right]))
                    left = right
                return self.branch(ast.BoolOp(op=ast.And(), values=parts), st, kt, kf)
            l = self.ev(e.left, st)
            r = self.rhs(e.comparators[0], st)
            a, neg = self.atom(l, e.ops[0], r, e, st)
            if a is None:
                return self.match_opt(l, st, kf if neg else kt, kt if neg else kf)
            return self.ite(a, neg, st, kt, kf)
        v = self.ev(e, st)
        if isinstance(v, CondV):
            # the test is pure and was validated when it was bound: decide it over the values (locals, table) of that moment,
            # then go on with the current locals and table; what was learnt on the way (decided atoms / lookups) is kept
            back = lambda k: (lambda s: k(s.w(env=st.env, table=st.table)))
            return self.branch(v.node, st.w(env=v.env, table=v.table), back(kt), back(kf))
        if isinstance(v, BoolV):
            return self.ite(v.atom, v.neg, st, kt, kf)
        if isinstance(v, BoolC):
            return (kt if v.b else kf)(st)
        if isinstance(v, OptEntry):
            return self.match_opt(v, st, kt, kf)
        if isinstance(v, EntryV):
            return kt(st)
        if isinstance(v, Time):
            return self.ite("%s ≠ 0" % v.text, False, st, kt, kf)
        if isinstance(v, Tbl):
            return self.ite("(%s).isEmpty = true" % st.table, True, st, kt, kf)
        _no("condition", e)

    # ------------------------------------------------------------------------------------------ statements
    def block(self, stmts, st, K):
        """K = dict(next=, ret=, exc=, cont=, reraise=)"""
        if not stmts:
            return K["next"](st)
        s, rest = stmts[0], stmts[1:]
        K2 = dict(K)
        K2["next"] = lambda s2: self.block(rest, s2, K)
        return self.stmt(s, st, K2)

    def do_next(self, it, st, kok, kexc, node):
        if not isinstance(it, IterV):
            _no("next() of something that is not a stream's iterator", node)
        if st.consumed:
            _no("second next() on one path", node)
        v, tl, x = self.fresh("v"), self.fresh("tl"), self.fresh("x")
        ok = kok(ItemV(text=v), st.w(table="(Src.setRest %s %s %s)" % (st.table, it.key, tl), consumed=True))
        return ("mnext", it.rest, v, tl, x, ok, kexc(("stop",), st), kexc(("user", x), st))

    def lookup(self, key, st, ksome, kexc):
        """`d[k]`: KeyError when absent"""
        o = OptEntry(text="Table.get %s %s" % (st.table, key.text), tbl=st.table, key=key.text)
        return self.match_opt(o, st, lambda s: ksome(EntryV(var=s.optknown[o.text], key=key.text), s),
                              lambda s: kexc(("keyError",), s))

    def remove(self, key, strict, st, knext, kexc):
        erased = st.w(table="(Table.erase %s %s)" % (st.table, key.text))
        if not strict:
            return knext(erased)
        return self.ite("Src.contains %s %s = true" % (st.table, key.text), False, st,
                        lambda s: knext(s.w(table=erased.table)), lambda s: kexc(("keyError",), s))

    def is_next_call(self, e, st):
        return isinstance(e, ast.Call) and isinstance(e.func, ast.Name) and e.func.id == "next" and "next" not in st.env \
            and "next" not in self.module.__dict__ and len(e.args) == 1 and not e.keywords

    def is_test(self, e):
        return isinstance(e, ast.BoolOp) or (isinstance(e, ast.UnaryOp) and isinstance(e.op, ast.Not)) \
            or (isinstance(e, ast.Compare) and len(e.ops) > 1)

    def is_tbl_lookup(self, e, st):
        return isinstance(e, ast.Subscript) and isinstance(self.try_ev(e.value, st), Tbl)

    def try_ev(self, e, st):
        try:
            return self.ev(e, st)
        except Untranslatable:
            return None

    def assign_to(self, target, v, st, node):
        if isinstance(target, ast.Name):
            return st.bind(target.id, v)
        if isinstance(target, ast.Tuple) and all(isinstance(t, ast.Name) for t in target.elts):
            if isinstance(v, (EntryV, OptEntry)):
                items = self.comps(self.as_entry(v, st, node))
            elif isinstance(v, Tup):
                items = v.items
            else:
                _no("unpacking", node)
            if len(items) != len(target.elts):
                _no("unpacking arity", node)
            for t, x in zip(target.elts, items):
                st = st.bind(t.id, x)
            return st
        _no("assignment target", node)

    def value_then(self, e, st, K, k):
        """evaluate an expression that may be `next(x)` or `d[k]` (the two that can raise), then k(value, state)"""
        if self.is_next_call(e, st):
            return self.do_next(self.ev(e.args[0], st), st, k, K["exc"], e)
        if self.is_tbl_lookup(e, st):
            key = self.ev(e.slice, st)
            if not isinstance(key, Key):
                _no("table key", e)
            return self.lookup(key, st, k, K["exc"])
        return k(self.ev(e, st), st)

    def stmt(self, s, st, K):
        if isinstance(s, ast.Expr):
            e = s.value
            if isinstance(e, ast.Constant) and isinstance(e.value, str):
                return K["next"](st)                                      # docstring
            if isinstance(e, ast.Call):
                if isinstance(e.func, ast.Attribute) and isinstance(e.func.value, ast.Name) and e.func.value.id not in st.env \
                        and isinstance(self.module.__dict__.get(e.func.value.id), logging.Logger):
                    return K["next"](st)                                  # log.debug(...)
                if self.is_next_call(e, st):
                    return self.do_next(self.ev(e.args[0], st), st, lambda v, s2: K["next"](s2), K["exc"], e)
                f = self.try_ev(e.func, st)
                if isinstance(f, TblMethod) and f.name == "pop" and not e.keywords and len(e.args) in (1, 2):
                    key = self.ev(e.args[0], st)
                    if not isinstance(key, Key) or (len(e.args) == 2 and not isinstance(self.ev(e.args[1], st), NoneV)):
                        _no("pop arguments", e)
                    return self.remove(key, len(e.args) == 1, st, K["next"], K["exc"])
                if isinstance(f, BoundMethod):
                    return self.method_call(f, e, st, lambda v, s2: K["next"](s2), K)
            _no("expression statement", s)
        if isinstance(s, ast.AnnAssign) and s.value is not None and s.simple:
            s = ast.Assign(targets=[s.target], value=s.value)
        if isinstance(s, ast.Assign):
            if len(s.targets) != 1:
                _no("multiple assignment", s)
            t = s.targets[0]
            if isinstance(t, ast.Subscript):
                if not isinstance(self.ev(t.value, st), Tbl):
                    _no("item assignment to something else than the stream table", s)
                key = self.ev(t.slice, st)
                if not isinstance(key, Key):
                    _no("table key", s)
                lit = self.entry_lit(self.ev(s.value, st), key.text, s)
                return K["next"](st.w(table="(Table.set %s %s %s)" % (st.table, key.text, lit)))
            if isinstance(s.value, ast.Call) and isinstance(self.try_ev(s.value.func, st), BoundMethod):
                return self.method_call(self.ev(s.value.func, st), s.value, st,
                                        lambda v, s2: K["next"](self.assign_to(t, v, s2, s)), K)
            if isinstance(t, ast.Name) and self.is_test(s.value):
                # `flag = a < b < c` / `x = p or q` / `y = not z`: a local bound to a pure test, substituted by value at its uses.
                # Sound by refusal: the test is translated once here (result thrown away) so that anything not understood
                # in it is refused even if the local is never used.
                saved = dict(self.n)
                self.branch(s.value, st, lambda s2: ("tleaf", "T"), lambda s2: ("tleaf", "F"))
                self.n = saved
                return K["next"](st.bind(t.id, CondV(node=s.value, env=st.env, table=st.table)))
            return self.value_then(s.value, st, K, lambda v, s2: K["next"](self.assign_to(t, v, s2, s)))
        if isinstance(s, ast.If):
            return self.branch(s.test, st, lambda s2: self.block(s.body, s2, K), lambda s2: self.block(s.orelse, s2, K))
        if isinstance(s, ast.Return):
            if s.value is None:
                return K["ret"](NoneV(), st)
            return self.value_then(s.value, st, K, K["ret"])
        if isinstance(s, ast.Raise):
            if s.cause is not None:
                _no("raise from", s)
            if s.exc is None:
                if K.get("reraise") is None:
                    _no("bare raise outside a handler", s)
                return K["reraise"](st)
            c = s.exc.func if isinstance(s.exc, ast.Call) else s.exc
            cv = self.ev(c, st)
            if not (isinstance(cv, Real) and isinstance(cv.obj, type) and issubclass(cv.obj, BaseException)):
                _no("raise of something that is not an exception class", s)
            if cv.obj is StopIteration:
                return K["exc"](("stop",), st)
            if cv.obj is KeyError:
                return K["exc"](("keyError",), st)
            return K["exc"](("cls", cv.obj), st)
        if isinstance(s, ast.Delete):
            if len(s.targets) != 1 or not self.is_tbl_lookup(s.targets[0], st):
                _no("del", s)
            key = self.ev(s.targets[0].slice, st)
            if not isinstance(key, Key):
                _no("table key", s)
            return self.remove(key, True, st, K["next"], K["exc"])
        if isinstance(s, ast.Pass):
            return K["next"](st)
        if isinstance(s, ast.Continue):
            if K.get("cont") is None:
                _no("continue outside a loop", s)
            return K["cont"](st)
        if isinstance(s, ast.With):
            if len(s.items) != 1 or s.items[0].optional_vars is not None or not isinstance(self.ev(s.items[0].context_expr, st), LockV):
                _no("with", s)
            self.markers.append("with " + ast.unparse(s.items[0].context_expr))
            return self.block(s.body, st, K)          # marker only: the lock does not change what is computed
        if isinstance(s, ast.Try):
            return self.try_(s, st, K)
        if isinstance(s, ast.For):
            return self.for_(s, st, K)
        _no("statement", s)

    def catches(self, h, exc, st):
        if h.type is None:
            return True
        tv = self.ev(h.type, st)
        ts = tv.items if isinstance(tv, Tup) else [tv]
        res = False
        for t in ts:
            if not (isinstance(t, Real) and isinstance(t.obj, type) and issubclass(t.obj, BaseException)):
                _no("handler class", h.type)
            H = t.obj
            if exc[0] == "stop":
                res |= issubclass(StopIteration, H)
            elif exc[0] in ("user", "hook"):
                res |= issubclass(Exception, H)       # the iterator's / hook's own class sits directly under Exception
            elif exc[0] == "keyError":
                res |= issubclass(KeyError, H)
            else:
                res |= issubclass(exc[1], H)
        return res

    def try_(self, s, st, K):
        if s.finalbody:
            _no("finally", s)
        after = K["next"]

        def kexc(exc, s2):
            for h in s.handlers:
                if self.catches(h, exc, s2):
                    s3 = s2.bind(h.name, Opaque()) if h.name else s2
                    K3 = dict(K)
                    K3["next"] = after
                    K3["reraise"] = lambda s4: K["exc"](exc, s4)
                    return self.block(h.body, s3, K3)
            return K["exc"](exc, s2)
        Kb = dict(K)
        Kb["exc"] = kexc
        Kb["next"] = lambda s2: self.block(s.orelse, s2, K)     # else-part and what follows: outer handlers
        # a `return` inside the try body leaves through the outer K["ret"]: its value has been computed inside the body
        return self.block(s.body, st, Kb)

    def for_(self, s, st, K):
        if s.orelse or not isinstance(s.target, ast.Name):
            _no("for form", s)
        it = self.ev(s.iter, st)
        if not isinstance(it, KeysV) or it.tbl != st.table:
            _no("loop over something else than a snapshot of the current table's keys", s)
        saved = dict(self.n)
        tb, k = self.fresh("tb"), self.fresh("k")
        before = set(self._names())

        def leaf(s2):
            return ("tleaf", s2.table)
        Kb = dict(next=leaf, cont=leaf, ret=lambda v, s2: _no("return inside a loop", s),
                  exc=lambda exc, s2: _no("exception path inside a loop (%s)" % (exc[0],), s), reraise=None)
        body = self.block(s.body, st.bind(s.target.id, Key(text=k)).w(table=tb), Kb)
        bound = set(self._names()) - before | {tb, k}
        inv = self._invariant_atom(body, bound)
        if inv is not None:
            self.n = saved                                   # hoist the loop-invariant test and translate the loop again
            return self.ite(inv, False, st, lambda s2: self.for_(s, s2, K), lambda s2: self.for_(s, s2, K))
        tn = self.fresh("t")
        return ("loop", tn, tb, k, body, st.table, K["next"](st.w(table=tn)))

    def _names(self):
        return ["%s%d" % (p, i) for p, c in self.n.items() for i in range(1, c + 1)]

    def _invariant_atom(self, t, bound):
        if t[0] == "ite":
            import re
            if not (set(re.findall(r"[A-Za-z_][A-Za-z_0-9]*", t[1])) & bound):
                return t[1]
            return self._invariant_atom(t[2], bound) or self._invariant_atom(t[3], bound)
        if t[0] == "mopt":
            return self._invariant_atom(t[3], bound) or self._invariant_atom(t[4], bound)
        if t[0] == "mnext":
            return self._invariant_atom(t[5], bound) or self._invariant_atom(t[6], bound) or self._invariant_atom(t[7], bound)
        if t[0] == "loop":
            return self._invariant_atom(t[6], bound)
        return None

    def method_call(self, f, e, st, k, K):
        if e.keywords:
            _no("keyword arguments", e)
        fn = getattr(self.cls, f.name)
        if f.name in HOOKS and isinstance(f.selfv, DaemonV):
            if fn.__module__ != self.module.__name__:
                _no("hook defined elsewhere", e)
            self.markers.append("hook " + f.name)
            if HOOKS[f.name] == "no-op":
                return k(NoneV(), st)
            return self.ite("cfg.hookFails = true", False, st, lambda s2: K["exc"](("hook",), s2), lambda s2: k(NoneV(), s2))
        # a helper of the same class: inlined at the call site
        if fn.__module__ != self.module.__name__:
            _no("helper defined elsewhere", e)
        fd = _funcdef(fn)
        params = [a.arg for a in fd.args.args]
        if fd.args.vararg or fd.args.kwarg or fd.args.kwonlyargs or fd.args.defaults or len(params) != len(e.args) + 1:
            _no("helper signature", e)
        env = {params[0]: f.selfv}
        for p, a in zip(params[1:], e.args):
            env[p] = self.ev(a, st)
        caller_env = st.env
        K2 = dict(K)
        K2["ret"] = lambda v, s2: k(v, s2.w(env=caller_env))
        K2["next"] = lambda s2: k(NoneV(), s2.w(env=caller_env))
        K2["cont"] = None
        K2["reraise"] = None
        K2["exc"] = lambda exc, s2: K["exc"](exc, s2.w(env=caller_env))
        return self.block(fd.body, st.w(env=env), K2)


def _funcdef(fn):
    src = textwrap.dedent(inspect.getsource(fn))
    fd = ast.parse(src).body[0]
    if not isinstance(fd, ast.FunctionDef) or fd.decorator_list:
        raise Untranslatable("not a plain function: %r" % (fn,))
    return fd


# ---------------------------------------------------------------------------------------------------- emission
def _val_text(v):
    if isinstance(v, NoneV):
        return ".ok .none"
    if isinstance(v, ItemV):
        return ".ok (.item %s)" % v.text
    if isinstance(v, Tup) and len(v.items) == 2 and isinstance(v.items[0], BoolC):
        b = "true" if v.items[0].b else "false"
        x = v.items[1]
        if isinstance(x, Key):
            return ".ok (.flagId %s %s)" % (b, x.text)
        if isinstance(x, NoneV):
            return ".ok (.flagNone %s)" % b
        if isinstance(x, DataV):
            return ".ok (.flagData %s)" % b
    raise Untranslatable("return value outside the alphabet")


def _exc_text(exc):
    if exc[0] == "stop":
        return ".error .stop"
    if exc[0] == "user":
        return ".error (.user %s)" % exc[1]
    if exc[0] == "keyError":
        return ".error .keyError"
    if exc[0] == "hook":
        return ".error .hook"
    c = exc[1]
    return '.error (.cls "%s.%s")' % (c.__module__, c.__qualname__)


def emit(t, ind):
    p = "  " * ind
    if t[0] == "leaf":
        return "%s(%s, %s)" % (p, t[1], t[2])
    if t[0] == "tleaf":
        return "%s%s" % (p, t[1])
    if t[0] == "ite":
        return "%s(if %s then\n%s\n%selse\n%s)" % (p, t[1], emit(t[2], ind + 1), p, emit(t[3], ind + 1))
    if t[0] == "mopt":
        return "%s(match %s with\n%s| some %s =>\n%s\n%s| none =>\n%s)" % (p, t[1], p, t[2], emit(t[3], ind + 1), p, emit(t[4], ind + 1))
    if t[0] == "mnext":
        _, rest, v, tl, x, ok, stop, rs = t
        return "%s(match %s with\n%s| .val %s :: %s =>\n%s\n%s| [] =>\n%s\n%s| .raises %s :: _ =>\n%s)" % (
            p, rest, p, v, tl, emit(ok, ind + 1), p, emit(stop, ind + 1), p, x, emit(rs, ind + 1))
    if t[0] == "loop":
        _, tn, tb, k, body, src, cont = t
        return "%s(let %s := List.foldl (fun %s %s =>\n%s) %s (Src.keys %s);\n%s)" % (p, tn, tb, k, emit(body, ind + 2), src, src, emit(cont, ind))
    raise Untranslatable("emit " + t[0])


def translate(module, cls, fn, roles):
    """roles: one symbolic value per positional parameter"""
    fd = _funcdef(fn)
    params = [a.arg for a in fd.args.args]
    if fd.args.vararg or fd.args.kwarg or fd.args.kwonlyargs or fd.args.defaults or len(params) != len(roles):
        raise Untranslatable("signature of %s" % fn.__qualname__)
    tr = Tr(module, cls)
    st = S(dict(zip(params, roles)), "t0", {}, {})
    K = dict(next=lambda s: ("leaf", s.table, ".ok .none"),
             ret=lambda v, s: ("leaf", s.table, _val_text(v)),
             exc=lambda exc, s: ("leaf", s.table, _exc_text(exc)),
             cont=None, reraise=None)
    tree = tr.block(fd.body, st, K)
    return emit(tree, 1), tr.markers


SIGS = [
    ("getNextStreamItemSrc", "DaemonObject", "get_next_stream_item", "(t0 : Table) (id conn : Nat)",
     lambda: [DObjV(), Key(text="id")]),
    ("closeStreamSrc", "DaemonObject", "close_stream", "(t0 : Table) (id : Nat)",
     lambda: [DObjV(), Key(text="id")]),
    ("streamResponseSrc", "Daemon", "_streamResponse",
     "(cfg : Settings) (t0 : Table) (now fresh conn : Nat) (dIsIter dIsGen dIsView : Bool) (items : List Item)",
     lambda: [DaemonV(), DataV(), Conn(text="conn")]),
    ("clientDisconnectSrc", "Daemon", "_clientDisconnect", "(cfg : Settings) (t0 : Table) (now conn : Nat)",
     lambda: [DaemonV(), Conn(text="conn")]),
    ("housekeepingSrc", "Daemon", "_housekeeping", "(cfg : Settings) (shutting : Bool) (t0 : Table) (now : Nat)",
     lambda: [DaemonV()]),
]


def lean_defs():
    """Lean text (namespace Pyro.Gen.C10.Src) of the five transcribed functions, from the source as it is now"""
    import Pyro5.server as server
    out = ["namespace Pyro.Gen.C10.Src", "open Pyro.Streams", "set_option linter.unusedVariables false"]
    for name, cname, fname, sig, roles in SIGS:
        cls = getattr(server, cname)
        fn = cls.__dict__.get(fname)
        if not inspect.isfunction(fn):
            raise Untranslatable("%s.%s is not a plain function" % (cname, fname))
        body, markers = translate(server, cls, fn, roles())
        out.append("/-- transcribed from `%s.%s` (Pyro5/server.py)%s -/" % (
            cname, fname, "; markers: " + ", ".join(sorted(set(markers))) if markers else ""))
        out.append("def %s %s : Src.Out :=\n%s" % (name, sig, body))
    out.append("end Pyro.Gen.C10.Src")
    return "\n".join(out) + "\n"
