"""C17 — socket reads and writes are exact under fragmentation and transient errors."""
import errno
import json
import os
import time

import common
import fakes
from common import hx

ID = "C17"
LEAN_MODEL_TARGETS = ["drv_c17"]
LEAN_PROOF_TARGETS = ["PyroProps.C17", "PyroProps.C17Ast", "PyroProps.C17Src"]
AUDIT_FILES = ["PyroModel/Bytes.lean", "PyroModel/SockIO.lean", "PyroModel/SockIODelays.lean", "PyroProps/C17Src.lean", "PyroModel/PyIR.lean", "PyroModel/Gen/C17.lean", "PyroProps/C17.lean",
               "PyroProps/C17Ast.lean"]
THEOREMS = ["Pyro.C17.C17_recv_exact", "Pyro.C17.C17_recv_fail", "Pyro.C17.C17_recv_no_reorder",
            "Pyro.C17.C17_recv_total", "Pyro.C17.C17_send", "Pyro.C17.C17_send_total",
            "Pyro.C17.C17_gen_retry_set", "Pyro.C17.C17_gen_cap",
            # receive_data / send_data transcribed from the source on every run (py2ir.py) = the model, for all inputs
            "Pyro.C17Ast.recv_translated", "Pyro.C17Ast.send_translated", "Pyro.C17Ast.C17_source_recv_outcomes",
            "Pyro.C17Ast.C17_source_recv_exact", "Pyro.C17Ast.C17_source_recv_fail", "Pyro.C17Ast.C17_source_send",
            # round 5: __retrydelays transcribed by harness/props/c17_tr.py = the documented back-off sequence, for every k;
            # the loops with their sleeps counted; a non-blocking send over partial writes and retryable errors is complete
            "Pyro.C17Src.C17_gen_delay_unit", "Pyro.C17Src.C17_retrydelays_translated",
            "Pyro.C17Src.C17_source_backoff_never_exhausted", "Pyro.C17Src.C17_source_backoff_sequence",
            "Pyro.C17Src.C17_sleeps_erase_recv", "Pyro.C17Src.C17_sleeps_erase_send",
            "Pyro.C17Src.C17_recv_sleeps_exact", "Pyro.C17Src.C17_send_sleeps_exact", "Pyro.C17Src.C17_source_sleeps",
            "Pyro.C17Src.C17_send_nonblocking_complete", "Pyro.C17Src.C17_source_send_nonblocking_complete",
            "Pyro.C17Src.C17_send_blocking_one_call"]
SUITES = ["recv", "send", "delays"]
RULE = ("scripts of socket behaviours (deliver k / each retryable errno / fatal errno / timeout / eof) x request sizes "
        "0..70000 (crossing the 60000 cap) x MSG_WAITALL on/off x socket timeout None (blocking) / 0.0 / 0 / tiny / ordinary / long "
        "(send and recv), generated from VERIF_SEED; "
        "a case is non-trivial when the real call performed >= 2 socket calls (fragmentation or a retry really happened); "
        "distinct = distinct (kind, flags, size, script, stream length)")
ASSUMPTIONS = ["the kernel's behaviour per socket call is one of the script alphabet's events",
               "an OSError raised by a socket call carries an errno (the empty-args OSError is outside the alphabet)"]
TRUSTED = ["fakes.ScriptedSocket stands for the OS socket",
           "harness/props/c17_tr.py (generator -> Lean, refuses what it does not list) and float arithmetic of the back-off read as exact "
           "decimal arithmetic; validated on every run: the first 64 values of the real generator and every delay really slept "
           "are compared with the transcription evaluated by the driver",
           "harness/py2ir.py (one PyIR node per Python AST node) and the PyIR interpreter (lean/PyroModel/PyIR.lean) as the meaning "
           "of while/try/break/return/raise, len, min, slices and bytearray.extend; both are exercised on every run: the driver "
           "runs the interpreter on the transcription next to the model and the harness compares with the real function"]


def extract():
    """source facts -> Lean (PyroModel/Gen/C17.lean)"""
    common.repo_on_path()
    import ast
    from Pyro5 import socketutil
    src = open(socketutil.__file__).read()
    tree = ast.parse(src)
    retries = sorted(set(int(e) for e in socketutil.ERRNO_RETRIES))
    # the literal cap in sock.recv(min(<cap>, size - msglen))
    caps = []
    fn = [n for n in tree.body if isinstance(n, ast.FunctionDef) and n.name == "receive_data"][0]
    for node in ast.walk(fn):
        if isinstance(node, ast.Call) and getattr(node.func, "id", None) == "min":
            for a in node.args:
                if isinstance(a, ast.Constant) and isinstance(a.value, int):
                    caps.append(a.value)
                elif isinstance(a, ast.Name) and type(getattr(socketutil, a.id, None)) is int:
                    caps.append(getattr(socketutil, a.id))         # a module-level constant naming the cap
    # names of exceptions raised in receive_data / send_data, in source order
    def raised(fname):
        f = [n for n in tree.body if isinstance(n, ast.FunctionDef) and n.name == fname][0]
        out = []
        for node in ast.walk(f):
            if isinstance(node, ast.Raise) and node.exc is not None:
                c = node.exc
                if isinstance(c, ast.Call):
                    c = c.func
                out.append(getattr(c, "id", getattr(c, "attr", "?")))
        return out
    expected_retry = sorted({errno.EINTR, errno.EAGAIN, errno.EWOULDBLOCK, errno.EINPROGRESS})
    # the two functions themselves, transcribed statement by statement into the PyIR deep embedding
    import py2ir
    tr = py2ir.Tr(socketutil)
    recv_ast = py2ir.wrap(tr.function("receive_data", ["sock", "size"]))
    # the cap inside min(<cap>, size - msglen), read off the transcription (helpers inlined, constants resolved)
    import re as _re
    caps = [int(x) for x in _re.findall(r"\(\.min \(\.lit \(\.int (\d+)\)\)", recv_ast.replace("\n", " "))] or caps
    send_ast = py2ir.wrap(tr.function("send_data", ["sock", "data"]))
    # which exception classes the two functions construct, read off the transcriptions (local names do not matter)
    CLS = {"pyroTimeout": "TimeoutError", "connClosed": "ConnectionClosedError"}
    raised_by = lambda astx: [CLS.get(c, c) for c in _re.findall(r"\.mkExc \.(\w+)", astx)]
    recv_raises, send_raises = raised_by(recv_ast), raised_by(send_ast)
    # the back-off generator, translated from its source by the property's own translator (shallow embedding; refuses what it
    # does not understand: c17_tr.Untranslatable -> reported by the runner as a broken tie)
    from props import c17_tr
    delays = c17_tr.retrydelays(socketutil)
    return f"""-- GENERATED by harness/props/c17.py from {os.path.relpath(socketutil.__file__, common.REPO)} — do not edit
import PyroModel.PyIR
namespace Pyro.Gen.C17
open Pyro.PyIR
/-- `receive_data(sock, size)` as it is written now (harness/py2ir.py, one node per Python AST node) -/
def receiveData : Stmt :=
  {recv_ast}
/-- `send_data(sock, data)` as it is written now -/
def sendData : Stmt :=
  {send_ast}
/-- issubclass among the real exception classes (socket.timeout, OSError, Pyro5.errors.TimeoutError, ConnectionClosedError, ValueError) -/
{tr.subclass_table()}
/-- sorted, de-duplicated socketutil.ERRNO_RETRIES on this platform -/
def errnoRetries : List Nat := {retries}
/-- sorted {{EINTR, EAGAIN, EWOULDBLOCK, EINPROGRESS}} on this platform -/
def expectedRetries : List Nat := {expected_retry}
/-- integer literals inside min(...) calls of receive_data -/
def recvCaps : List Nat := {caps}
def recvRaises : List String := {json.dumps(recv_raises)}
def sendRaises : List String := {json.dumps(send_raises)}
end Pyro.Gen.C17
/-! `__retrydelays()` as it is written now (harness/props/c17_tr.py): prefix evaluated, loop body as a function of its locals -/
namespace Pyro.Gen.C17.Src
{delays["lean"]}end Pyro.Gen.C17.Src
"""


def _gen_script(rng, size, kind):
    n = rng.choice([0, 1, 2, 3, 5, 8, 13, 25])
    evs = []
    for _ in range(n):
        r = rng.random()
        if r < 0.62:
            mode = rng.random()
            if mode < 0.15:
                k = 0
            elif mode < 0.5:
                k = rng.randint(1, 8)
            elif mode < 0.8:
                k = rng.randint(1, max(1, size))
            else:
                k = rng.choice([size, size + 1, 59999, 60000, 60001, 10 ** 6])
            evs.append(("d", k))
        elif r < 0.84:
            evs.append(("r", None))
        elif r < 0.90:
            evs.append(("f", None))
        elif r < 0.95:
            evs.append(("p", rng.choice([0, 1, 2, max(0, size - 1), size, size + 3]), rng.random() < 0.5))
        else:
            evs.append(("t",))
    if rng.random() < 0.08:
        # a long run of retryable errors (the back-off must never give up on them), interleaved with small deliveries
        run = []
        for _ in range(rng.choice([12, 14, 15, 20, 40])):
            run.append(("r", None))
            if rng.random() < 0.3:
                run.append(("d", rng.randint(1, 3)))
        evs = evs[:2] + run + evs[2:]
    if rng.random() < 0.5:
        # make success likely: finish with generous deliveries
        evs += [("d", 10 ** 6)] * rng.randint(1, 3)
    return evs


def _script_str(evs):
    if not evs:
        return "-"
    def tok(e):
        if e[0] == "d":
            return "d%d" % e[1]
        if e[0] == "p":
            return "p%s%d" % ("r" if e[-1] else "f", e[1])
        return e[0]
    return ",".join(tok(e) for e in evs)


def _concretise(rng, evs, retries):
    out = []
    for e in evs:
        if e[0] == "r":
            out.append(("r", rng.choice(retries)))
        elif e[0] == "f":
            out.append(("f", rng.choice(fakes.FATAL_ERRNOS)))
        elif e[0] == "p":
            retry = bool(e[2])
            out.append(("p", e[1], rng.choice(retries) if retry else rng.choice(fakes.FATAL_ERRNOS), retry))
        else:
            out.append(e)
    return out


# socket configurations: gettimeout() of the scripted socket.  None = blocking; 0.0 / 0 = setblocking(False) (falsy but NOT blocking:
# send_data must take the manual loop); tiny, ordinary and long timeouts = timeout mode.
TIMEOUTS_NONBLOCKING = [0.0, 0.0, 0, 1e-9, 0.001, 0.05, 1.0, 1.0, 5.0, 300.0]


def _timeout_of(c):
    """the socket's timeout of a case (cases written before round 5 carry only `blocking`)"""
    if "timeout" in c:
        t = c["timeout"]
        return float(t) if isinstance(t, str) else t      # replay files carry floats as their repr (common.jsonable)
    if c["kind"] == "send":
        return None if c["blocking"] else 1.0
    return None


def _writes_suffice(script, n):
    """the partial writes of the script, taken in order, accept n bytes in total"""
    for e in script:
        if e[0] == "d":
            n -= min(e[1], n)
    return n == 0


def _real_recv(socketutil, errors, waitall, size, stream, script, timeout=None):
    sock = fakes.ScriptedSocket(stream, script, timeout=timeout)
    old = socketutil.USE_MSG_WAITALL
    socketutil.USE_MSG_WAITALL = waitall
    try:
        try:
            data = socketutil.receive_data(sock, size)
            res = ("ok", bytes(data))
        except errors.TimeoutError:
            res = ("timeout", None)
        except errors.ConnectionClosedError as x:
            pd = getattr(x, "partialData", None)
            res = ("closed", None if pd is None else bytes(pd))
        except fakes.ScriptEnd:
            res = ("scriptend", None)
        except BaseException as x:     # neither a result nor one of the two documented errors
            res = ("exc:" + type(x).__name__, None)
    finally:
        socketutil.USE_MSG_WAITALL = old
    return res, sock


def _real_send(socketutil, errors, timeout, data, script):
    sock = fakes.ScriptedSocket(b"", script, timeout=timeout)
    try:
        socketutil.send_data(sock, data)
        res = "ok"
    except errors.TimeoutError:
        res = "timeout"
    except errors.ConnectionClosedError:
        res = "closed"
    except fakes.ScriptEnd:
        res = "scriptend"
    except BaseException as x:
        res = "exc:" + type(x).__name__
    return res, sock


def _cases(ctx, name, n):
    rng = ctx.sub_rng(name)
    cases = []
    corpus = os.path.join(common.VERIF, "corpus", "C17")
    if os.path.isdir(corpus):
        for f in sorted(os.listdir(corpus)):
            cases.append(json.load(open(os.path.join(corpus, f))))
    sizes_small = [0, 1, 2, 3, 4, 5, 6, 34, 40, 100]
    for i in range(n):
        kind = "recv" if rng.random() < 0.65 else "send"
        r = rng.random()
        if r < 0.75:
            size = rng.choice(sizes_small + [rng.randint(0, 300)])
        elif r < 0.95:
            size = rng.randint(300, 5000)
        else:
            size = rng.choice([59999, 60000, 60001, 65000, 70000])
        evs = _gen_script(rng, size, kind)
        if kind == "recv":
            avail = rng.choice([size, size, size + rng.randint(0, 9), max(0, size - rng.randint(1, 5)), rng.randint(0, size + 3)])
            cases.append({"kind": "recv", "waitall": rng.random() < 0.5, "size": size, "avail": avail,
                          "script": evs, "sseed": rng.getrandbits(32),
                          "timeout": None if rng.random() < 0.4 else rng.choice(TIMEOUTS_NONBLOCKING)})
        else:
            blocking = rng.random() < 0.3
            cases.append({"kind": "send", "blocking": blocking, "size": size, "script": evs,
                          "sseed": rng.getrandbits(32),
                          "timeout": None if blocking else rng.choice(TIMEOUTS_NONBLOCKING)})
    return cases


def _stream(sseed, n):
    import random
    return random.Random(sseed).randbytes(n)


def _run(ctx, name, n, do_model):
    common.repo_on_path()
    from Pyro5 import socketutil, errors
    realtime = socketutil.time
    nosleep = socketutil.time = fakes.NoSleep(realtime)
    retries = list(socketutil.ERRNO_RETRIES)
    try:
        cases = _cases(ctx, name, n)
        lines, reals, slepts = [], [], []
        import random
        for c in cases:
            nosleep.slept = []
            rng = random.Random(c["sseed"])
            script = _concretise(rng, [tuple(e) for e in c["script"]], retries)
            if c["kind"] == "recv":
                stream = _stream(c["sseed"], c["avail"])
                res, sock = _real_recv(socketutil, errors, c["waitall"], c["size"], stream, script, _timeout_of(c))
                tag, data = res
                real = "%s %s %d %d s%d" % (tag, "none" if (tag == "closed" and data is None) else ("-" if data is None else hx(data)),
                                            len(stream) - sock.pos, sock.left(), len(nosleep.slept))
                lines.append("recv %d %d %s %s" % (c["waitall"], c["size"], hx(stream), _script_str(script)))
                # ---- D: the property itself, on the real code
                ctx.evaluations += 1
                ctx.count("recv:" + tag)
                if len(sock.calls) >= 2:
                    ctx.nontriv(("recv", c["waitall"], c["size"], _script_str(script), c["avail"]))
                if tag.startswith("exc:"):
                    ctx.fail("recv-unexpected-exception", "receive_data raised %s (neither data nor a connection-closed / timeout error); script %s"
                             % (tag[4:], _script_str(script)), c)
                if tag == "ok":
                    if data != stream[:c["size"]] or sock.pos != c["size"]:
                        ctx.fail("recv-ok-not-exact", "receive_data returned %d bytes for a request of %d (consumed %d); script %s"
                                 % (len(data), c["size"], sock.pos, _script_str(script)), c)
                elif tag == "closed" and data is not None:
                    if data != stream[:sock.pos] or len(data) >= c["size"]:
                        ctx.fail("recv-partialdata-wrong", "partialData is not the bytes received so far; script %s" % _script_str(script), c)
                # the error clauses: which error, and that nothing is attempted after a fatal error / timeout / end of stream
                tr = sock.trace
                for kind, want in (("t", "timeout"), ("f", "closed")):
                    if kind in tr:
                        i = tr.index(kind)
                        if i != len(tr) - 1 or tag != want:
                            ctx.fail("recv-%s-misreported" % kind, "after %s at socket call %d receive_data went on to %s (calls: %s); script %s"
                                     % ({"t": "a timeout", "f": "a fatal errno"}[kind], i + 1, tag, ",".join(tr), _script_str(script)), c)
                        break
                # (after an empty read the MSG_WAITALL branch falls into the plain loop and reads once more: that is allowed)
                if tr and tr[-1] == "eof" and tag not in ("closed", "scriptend"):
                    ctx.fail("recv-eof-misreported", "the peer closed early and receive_data ended in %s; script %s" % (tag, _script_str(script)), c)
                if tr and tr[-1] == "eof" and tag == "closed" and data is None:
                    ctx.fail("recv-eof-no-partialdata", "the connection-closed error raised when the peer closed early carries no partialData; script %s"
                             % _script_str(script), c)
                benign = all(e[0] == "r" or (e[0] == "d" and e[1] > 0) for e in script)
                ndel = sum(1 for e in script if e[0] == "d")
                if benign and len(stream) >= c["size"] and ndel >= c["size"] + 1 and tag != "ok":
                    ctx.fail("recv-benign-failed", "a script with only deliveries and retryable errors ended in %s" % tag, c)
            else:
                data = _stream(c["sseed"], c["size"])
                tmo = _timeout_of(c)
                res, sock = _real_send(socketutil, errors, tmo, data, script)
                real = "%s %s %d s%d" % (res, hx(sock.accepted), sock.left(), len(nosleep.slept))
                # the model's mode bit is "gettimeout() is None" - a timeout of 0.0 (setblocking(False)) is NOT blocking
                lines.append("send %d %s %s" % (tmo is None, hx(data), _script_str(script)))
                ctx.count("send-timeout:%r" % (tmo,))
                ctx.evaluations += 1
                ctx.count("send:" + res)
                if len(sock.calls) >= 2:
                    ctx.nontriv(("send", c["blocking"], c["size"], _script_str(script)))
                acc = bytes(sock.accepted)
                tr = sock.trace
                for kind, want in (("t", "timeout"), ("f", "closed")):
                    if kind in tr:
                        i = tr.index(kind)
                        if i != len(tr) - 1 or res != want:
                            ctx.fail("send-%s-misreported" % kind, "after %s at socket call %d send_data went on to %s (calls: %s); script %s"
                                     % ({"t": "a timeout", "f": "a fatal errno"}[kind], i + 1, res, ",".join(tr), _script_str(script)), c)
                        break
                if res.startswith("exc:"):
                    ctx.fail("send-unexpected-exception", "send_data raised %s; script %s" % (res[4:], _script_str(script)), c)
                if not data.startswith(acc):
                    ctx.fail("send-not-prefix", "bytes accepted by the peer are not a prefix of the buffer; script %s" % _script_str(script), c)
                if res == "ok" and acc != data:
                    ctx.fail("send-ok-incomplete", "send_data returned but the peer accepted %d of %d bytes; script %s"
                             % (len(acc), len(data), _script_str(script)), c)
                # "transmits every byte ... under partial writes and retryable errors": on a socket that is not in blocking mode
                # (gettimeout() is not None - would-block / try-again are the normal answers of the kernel there) a script made of
                # partial writes and retryable errors only, with enough writes, must get the whole buffer across
                benign = all(e[0] == "r" or (e[0] == "p" and e[3]) or (e[0] == "d" and e[1] > 0) for e in script)
                if tmo is not None and benign and _writes_suffice(script, len(data)) and res != "ok":
                    ctx.fail("send-benign-failed", "on a socket with timeout %r a script with only partial writes and retryable errors "
                             "ended in %s after %d of %d bytes; script %s" % (tmo, res, len(acc), len(data), _script_str(script)), c)
            reals.append(real)
            slepts.append(list(nosleep.slept))
            # the real time.sleep raises ValueError / TypeError / OverflowError for a delay that is negative, not a number or not
            # finite, and that exception would leave the transfer function in place of data or one of the two documented errors
            for d in nosleep.slept:
                if not (isinstance(d, (int, float)) and not isinstance(d, bool) and 0 <= d < float("inf")):
                    ctx.fail("backoff-invalid-delay", "%s slept %r after a retryable error (time.sleep raises for it); delays slept: %r; script %s"
                             % (c["kind"], d, nosleep.slept[:12], _script_str(script)), c)
                    break
            if len(ctx.samples) < 5 and len(sock.calls) >= 3 and c["size"] < 40:
                ctx.sample({"case": c, "real": real})
        if do_model:
            ndel = max([64] + [len(x) + 1 for x in slepts])
            outs = common.run_driver("drv_c17", lines + ["delays %d" % ndel])
            ctx.corr_cases += len(lines)
            for c, l, r, m in zip(cases, lines, reals, outs):
                if r != m:
                    ctx.mismatch(c["kind"], {"line": l if len(l) < 600 else l[:600] + "...", "case": c}, r[:300], m[:300])
            # ---- the back-off: transcription (evaluated by the driver) against the real generator and against every delay slept
            dl = outs[len(lines)].split()
            if len(dl) != 2 or not dl[0].isdigit():
                ctx.mismatch("delays", {"line": "delays %d" % ndel}, "<den> <values>", outs[len(lines)][:300])
            else:
                den = int(dl[0])
                model = [None if v == "stop" else int(v) / den for v in dl[1].split(",")]
                same = lambda a, b: a is not None and b is not None and isinstance(a, (int, float)) and abs(a - b) <= 1e-9
                import inspect, itertools
                gens = [o for nme, o in vars(socketutil).items() if inspect.isgeneratorfunction(o)
                        and nme.lstrip("_").lower() in ("retrydelays", "retry_delays")]
                real = list(itertools.islice(gens[0](), 64)) if len(gens) == 1 else []
                real += [None] * (64 - len(real))
                ctx.corr_cases += 1
                if not all(same(a, b) for a, b in zip(real, model)):
                    ctx.mismatch("delays", {"line": "delays 64"}, repr(real[:12]), repr(model[:12]))
                for c, sl in zip(cases, slepts):
                    if not all(same(a, b) for a, b in zip(sl, model)):
                        ctx.mismatch("delays", {"case": c}, repr(sl[:12]), repr(model[:len(sl)][:12]))
                        break
    finally:
        socketutil.time = realtime


def correspondence(ctx):
    _run(ctx, "corr", ctx.n(6000, 200000), True)


def oracle(ctx):
    # the oracle of step D runs inside _run on the same cases; in search mode it runs again on fresh ones
    if ctx.search_mode:
        _run(ctx, "search", ctx.n(20000, 200000), False)


def replay(ctx, case):
    f = case.get("failing_input") or {}
    c = f.get("case")
    if not c:
        print("replay file names no failing input:", case.get("no_longer_checks"))
        return 1
    common.repo_on_path()
    from Pyro5 import socketutil, errors
    import random
    nosleep = socketutil.time = fakes.NoSleep(socketutil.time)
    rng = random.Random(c["sseed"])
    script = _concretise(rng, [tuple(e) for e in c["script"]], list(socketutil.ERRNO_RETRIES))
    if c["kind"] == "recv":
        stream = _stream(c["sseed"], c["avail"])
        res, sock = _real_recv(socketutil, errors, c["waitall"], c["size"], stream, script, _timeout_of(c))
        print("receive_data(size=%d) over script %s -> %s, %r ; expected prefix %r" % (c["size"], _script_str(script), res[0], res[1], stream[:c["size"]]))
        bad = (res[0] == "ok" and res[1] != stream[:c["size"]]) or res[0].startswith("exc:")
    else:
        data = _stream(c["sseed"], c["size"])
        tmo = _timeout_of(c)
        res, sock = _real_send(socketutil, errors, tmo, data, script)
        print("send_data on a socket with timeout %r over script %s -> %s, accepted %r of %r" % (tmo, _script_str(script), res, bytes(sock.accepted)[:48], data[:48]))
        benign = all(e[0] == "r" or (e[0] == "p" and e[3]) or (e[0] == "d" and e[1] > 0) for e in script)
        bad = ((res == "ok" and bytes(sock.accepted) != data) or not data.startswith(bytes(sock.accepted))
               or (tmo is not None and benign and _writes_suffice(script, len(data)) and res != "ok"))
    if c["kind"] == "send" and res.startswith("exc:"):
        bad = True
    wrong = [d for d in nosleep.slept if not (isinstance(d, (int, float)) and not isinstance(d, bool) and 0 <= d < float("inf"))]
    if wrong:
        print("delays handed to time.sleep: %r - time.sleep raises for %r" % (nosleep.slept[:12], wrong[0]))
        bad = True
    print("VIOLATION reproduced" if bad else "not reproduced")
    return 1 if bad else 0
