"""C03 — a call returns its own reply or fails; never another call's answer."""
import json
import os

import common

ID = "C03"
LEAN_MODEL_TARGETS = ["drv_c03"]
LEAN_PROOF_TARGETS = ["PyroProps.C03", "PyroProps.C03Src"]
AUDIT_FILES = ["PyroModel/Call.lean", "PyroModel/Gen/C03.lean", "PyroProofs/Call.lean", "PyroProps/C03.lean",
               "PyroModel/CallOps.lean", "PyroModel/Gen/C03Src.lean", "PyroProps/C03Src.lean"]
THEOREMS = ["Pyro.C03.C03_own_reply_partial", "Pyro.C03.C03_own_reply_full_false",
            "Pyro.C03.C03_exec_once_partial", "Pyro.C03.C03_exec_once_full_false",
            "Pyro.C03.C03_exec_bound", "Pyro.C03.C03_oneway", "Pyro.C03.C03_recovers", "Pyro.C03.C03_fault_free", "Pyro.C03.C03_wrap",
            "Pyro.C03.C03_never_stuck", "Pyro.C03.C03_reachable_inv",
            "Pyro.C03.C03_seqcheck_needed", "Pyro.C03.C03_release_needed",
            "Pyro.C03.C03_gen_seq", "Pyro.C03.C03_gen_invoke", "Pyro.C03.C03_gen_retry", "Pyro.C03.C03_gen_paths",
            "Pyro.C03.C03_gen_server",
            # the transcription of Proxy._pyroInvoke (Gen/C03Src.lean, harness/props/c03_tr.py) = the hand model, and the
            # main theorems restated about it
            "Pyro.C03.C03_pyroInvoke_translated", "Pyro.C03.C03_call_translated", "Pyro.C03.C03_source_own_reply",
            "Pyro.C03.C03_source_oneway", "Pyro.C03.C03_source_released", "Pyro.C03.C03_source_recovers",
            "Pyro.C03.C03_gen_src_consts", "Pyro.C03.C03_remoteCall_translated"]
SUITES = ["history"]
RULE = ("histories of 1-40 calls (thorough: up to 70000, crossing the 16-bit wrap) on ONE real Proxy against the real Daemon over "
        "an in-memory transport; each call is normal / raising / stream-returning / oneway / batch / oneway batch / attribute "
        "read / attribute write / stream fetch; MAX_RETRIES 0,1,2; initial sequence number 0, near 65535 or random; the fault "
        "script gives every CONNECT and INVOKE message one of: delivered, reply lost, reply late (cut anywhere), reply cut at "
        "any offset + reset, reset before / after processing, stale reply of the a-th previous send replayed, stale CONNECTOK "
        "replayed, seq altered, reply duplicated, KeyboardInterrupt while waiting; the proxy's own _pyroMaxRetries may differ from "
        "config.MAX_RETRIES, it may run in wire-level response mode, and one BatchProxy object is re-used across submits.  Part is systematic (every kind x every "
        "fault x {on the handshake, on the first call, on a later call} x retries), part random from VERIF_SEED.  A history is "
        "non-trivial when at least one fault other than `delivered` was consumed and at least one call returned; distinct = "
        "distinct (retries, seq0 class, call kinds, consumed script)")
ASSUMPTIONS = [
    "fault model: one fault per request message, taken from the stated alphabet; the transport is otherwise an in-order byte stream",
    "C03_own_reply_partial assumes every replayed or still unread reply is younger than 65536 INVOKE sends (16-bit field); "
    "the excluded case is finding K2 (seq-alias-65536)",
    "the byte level (header parse, exact reads) is as proved for C06/C17; the model works on whole messages",
    "the method result identifies the call (token); payload corruption is outside the fault model",
    "stream iterators are bound to their connection by design: the recovery clause is not demanded of a stream fetch",
]
TRUSTED = ["harness/props/c03_net.py: in-memory transport between the real Proxy and the real Daemon "
           "(patched socketutil.create_socket; daemon side with its own copy of the thread-local call context; "
           "_OnewayCallThread.start joined)",
           "harness/props/c03_tr.py: translator of Proxy._pyroInvoke / _RemoteMethod.__call__ into Lean (sound by refusal) and "
           "lean/PyroModel/CallOps.lean: the operations (collaborators) its output is written against"]

CORPUS = os.path.join(common.VERIF, "corpus", "C03")
EVS = ["ok", "lo", "la", "cu", "rb", "ra", "st", "sh", "sq", "du", "in"]


# =====================================================================================================
# A: extractor  (harness/props/c03_extract.py: facts are obtained by probing the real objects, not from syntax)
# =====================================================================================================
def extract():
    from props import c03_extract, c03_tr
    # the source of Proxy._pyroInvoke / _RemoteMethod.__call__ transcribed into Lean (raises Untranslatable = broken tie)
    src = c03_tr.translate_all()
    path = os.path.join(common.VERIF, "lean", "PyroModel", "Gen", "C03Src.lean")
    old = open(path).read() if os.path.exists(path) else None
    if old != src:
        with open(path, "w") as f:
            f.write(src)
    return c03_extract.extract()


# =====================================================================================================
# history generation
# =====================================================================================================
def ev_str(e):
    e = tuple(e)
    if e[0] in ("st", "sq"):
        return "%s%d" % (e[0], e[1])
    return e[0]


def expand(case):
    """corpus / generated case -> (retries, seq0, calls, script) with run-length parts expanded"""
    calls = [tuple(c) for c in case.get("calls", [])]
    for kind, tok0, n in case.get("calls_rle", []):
        calls += [(kind, tok0 + i) for i in range(n)]
    script = [tuple(e) for e in case.get("script", [])]
    for e, n in case.get("script_rle", []):
        script += [tuple(e)] * n
    return case["retries"], case["seq0"], calls, script


def options(case):
    """how the proxy of this history is set up (the model does not depend on either: the proxy's OWN retry setting
    governs, and wire-level response mode only changes what is handed back after all checks)"""
    return {"gretries": case.get("gretries"), "raw": bool(case.get("raw")), "blob": bool(case.get("blob"))}


def model_line(retries, seq0, calls, script):
    cs = ",".join("%s%d" % (k, t) for k, t in calls) or "-"
    sc = ",".join(ev_str(e) for e in script) or "-"
    return "hist %d %d %s %s" % (retries, seq0, cs, sc)


def rand_event(rng, p_ok):
    if rng.random() < p_ok:
        return ("ok",)
    k = rng.choice(EVS[1:])
    if k in ("la", "cu"):
        return (k, rng.choice([0, 0, 1, 100, 149, 150, 151, 500, 900, 999, rng.randint(0, 999)]))
    if k == "st":
        return (k, rng.choice([0, 0, 0, 1, 1, 2, 3, 5, rng.randint(0, 12), 65534, 65535, 65536]))
    if k == "sq":
        return (k, rng.choice([0, 1, 2, 65533, 65534, 65535, rng.randint(0, 200000)]))
    return (k,)


def systematic_cases():
    """every kind x every fault x where it strikes x retries"""
    out = []
    tok = 0
    for retries in (0, 1, 2):
        for kind in "nxsobBgtfmM":
            for ev in [("ok",), ("lo",), ("la", 0), ("la", 400), ("cu", 0), ("cu", 700), ("rb",), ("ra",), ("st", 0), ("st", 1),
                       ("sh",), ("sq", 0), ("sq", 65534), ("du",), ("in",)]:
                for where in ("hs", "first", "later", "retry-hs"):
                    if where == "retry-hs" and (retries == 0 or kind not in "nxso"):
                        continue
                    ok = ("ok",)
                    if where == "hs":
                        calls = [(kind, tok + 1), ("n", tok + 2), ("n", tok + 3)]
                        script = [ev] + [ok] * 10
                    elif where == "first":
                        calls = [(kind, tok + 1), ("n", tok + 2), ("n", tok + 3)]
                        script = [ok, ev] + [ok] * 10
                    elif where == "later":
                        calls = [("n", tok + 1), ("n", tok + 2), (kind, tok + 3), ("n", tok + 4), ("n", tok + 5)]
                        script = [ok, ok, ok, ev] + [ok] * 10
                    else:
                        calls = [("n", tok + 1), (kind, tok + 2), ("n", tok + 3)]
                        script = [ok, ok, ("lo",), ev] + [ok] * 10
                    tok += 5
                    out.append({"retries": retries, "seq0": 65534 if (tok // 5) % 3 == 0 else 0, "calls": calls, "script": script})
    return out


def random_case(rng, big=False):
    retries = rng.choice([0, 0, 1, 1, 2])
    r = rng.random()
    if r < 0.6:
        seq0 = 0
    elif r < 0.9:
        seq0 = 65536 - rng.randint(1, 8)
    else:
        seq0 = rng.randint(0, 65535)
    n = rng.choice([1, 2, 3, 4, 6, 8, 12, 12, 20, 40]) if not big else rng.choice([200, 1000])
    kinds = "nnnnnnnxxsoooobbBggttffmM"
    tok0 = rng.randint(1, 1000) * 100
    calls = [(rng.choice(kinds), tok0 + i) for i in range(n)]
    p_ok = rng.choice([0.4, 0.6, 0.75, 0.9])
    m = n * (2 + 2 * retries) + 2
    if rng.random() < 0.05:
        m = rng.randint(0, max(1, n))
    script = [rand_event(rng, p_ok) for _ in range(m)]
    case = {"retries": retries, "seq0": seq0, "calls": calls, "script": script}
    if rng.random() < 0.4:
        case["gretries"] = rng.choice([0, 1, 2])          # config.MAX_RETRIES differs from the proxy's own setting
    if rng.random() < 0.25:
        case["raw"] = True                                 # wire-level response mode
    if rng.random() < 0.2:
        case["blob"] = True                                # arguments travel as a SerializedBlob
    return case


def setup_cases():
    """histories aimed at how the proxy is set up and used: its own retry setting against a different global one,
    wire-level response mode under reply-level faults, one BatchProxy object re-used across submits"""
    out = []
    ok = ("ok",)
    tok = 500000
    # proxy retries r, global g != r, a fault after the server processed the request
    for r in (0, 1, 2):
        for g in (0, 1, 2):
            if g == r:
                continue
            for kind in "nxso":
                for ev in [("lo",), ("la", 0), ("la", 300), ("ra",), ("cu", 500), ("rb",)]:
                    for pre in (0, 1):
                        calls = [("n", tok + 1)] * pre + [(kind, tok + 2), ("n", tok + 3)]
                        script = [ok] * (1 + pre) + [ev, ok, ev, ok, ev] + [ok] * 8
                        tok += 5
                        out.append({"retries": r, "gretries": g, "seq0": 0, "calls": calls, "script": script})
    # wire-level response mode under reply-level faults
    for r in (0, 1):
        for kind in "nxsgtfb":
            for ev in [("du",), ("st", 0), ("st", 1), ("sq", 0), ("sq", 65534), ("sh",), ("la", 0), ("in",)]:
                calls = [("n", tok + 1), ("n", tok + 2), (kind, tok + 3), ("n", tok + 4), (kind, tok + 5), ("n", tok + 6)]
                for where in (1, 2, 3):
                    script = [ok] * where + [ev] + [ok] * 12
                    out.append({"retries": r, "raw": True, "seq0": 65533 if tok % 2 else 0, "calls": calls, "script": script})
                tok += 10
    # a stream that is fetched, loses its connection, is fetched again after the reconnect and keeps being consumed
    for r in (0, 2):
        for ev in [("lo",), ("ra",), ("rb",), ("cu", 300), ("du",), ("st", 0), ("in",), ("la", 0)]:
            for victim in "nfo":
                calls = [("n", tok + 1), ("f", tok + 2), (victim, tok + 3), ("n", tok + 4), ("f", tok + 5), ("f", tok + 6),
                         ("n", tok + 7), ("f", tok + 8), ("f", tok + 9)]
                script = [ok, ok, ok, ev] + [ok] * 20
                tok += 10
                out.append({"retries": r, "seq0": 0, "calls": calls, "script": script})
    # failures that show while SENDING: the connection is reset under a oneway call (which notices nothing), the next
    # call fails on its send, the one after must be served again
    for r in (0, 1, 2):
        for quiet in "oB":
            for ev in [("ra",), ("cu", 0)]:
                for nxt in "nxgtbos":
                    calls = [("n", tok + 1), (quiet, tok + 2), (nxt, tok + 3), ("n", tok + 4), (nxt, tok + 5), ("n", tok + 6)]
                    script = [ok, ok, ev] + [ok] * 20
                    tok += 10
                    out.append({"retries": r, "seq0": 0, "calls": calls, "script": script})
    # stale metadata: calls of methods the object no longer has (oneway or not) between ordinary calls
    for r in (0, 1):
        for pat in ["Mn", "nMn", "MMnmn", "nmMon", "mn", "nMgMbn", "MfMn"]:
            for ev in [ok, ("lo",), ("du",), ("ra",)]:
                calls = [(k, tok + 1 + i) for i, k in enumerate(pat)]
                for where in (2, len(pat) + 1):
                    script = [ok] * where + [ev] + [ok] * 20
                    out.append({"retries": r, "seq0": 0, "calls": calls, "script": script})
                tok += 10
    # arguments that travel as a SerializedBlob
    for r in (0, 1):
        for raw in (False, True):
            for pat in ["non", "nxon", "osn", "onon", "noMn"]:
                for ev in [ok, ("lo",), ("du",), ("st", 0), ("ra",)]:
                    calls = [(k, tok + 1 + i) for i, k in enumerate(pat)]
                    script = [ok, ok, ev] + [ok] * 20
                    tok += 10
                    out.append({"retries": r, "raw": raw, "blob": True, "seq0": 0, "calls": calls, "script": script})
    # one BatchProxy object across submits
    for r in (0, 1):
        for pat in ["Bb", "BBb", "bBb", "BnBb", "BobBn", "bBBbn", "BxBgb", "BbBbBb"]:
            for ev in [ok, ("lo",), ("rb",), ("du",)]:
                calls = [(k, tok + 1 + i) for i, k in enumerate(pat)]
                for where in (1, len(pat)):
                    script = [ok] * where + [ev] + [ok] * 20
                    out.append({"retries": r, "seq0": 0, "calls": calls, "script": script})
                tok += 10
    return out


def corpus_cases():
    out = []
    if os.path.isdir(CORPUS):
        for f in sorted(os.listdir(CORPUS)):
            if f.endswith(".json"):
                c = json.load(open(os.path.join(CORPUS, f)))
                c["_file"] = f
                out.append(c)
    return out


def wrap_case(n_before, kinds="nnnoBgf"):
    """a long healthy-ish history crossing the 16-bit wrap with a few faults around it"""
    calls = [(kinds[i % len(kinds)], 1 + i) for i in range(n_before + 40)]
    return {"retries": 0, "seq0": 0, "calls": calls, "script": [],
            "script_rle": [[["ok"], n_before - 3], [["du"], 1], [["ok"], 3], [["st", 2], 1], [["ok"], 5], [["sq", 65534], 1], [["ok"], 60]]}


# =====================================================================================================
# C + D on one history
# =====================================================================================================
def canon(rec):
    """one call record of the real run -> the line the model driver prints"""
    tag = rec["tag"]
    if tag in ("returned", "raised"):
        inv = [m for m in rec["msgs"] if m["kind"] == "inv"]
        if rec["kind"] in ONEWAY_KINDS and tag == "returned" and rec["value"] is None and not inv:
            out = "none"
        elif inv and rec["kind"] not in ONEWAY_KINDS:
            out = "ret:%s:%d" % (inv[-1]["ckind"], inv[-1]["ctok"])
        else:
            out = "ret:?"
    elif tag == "end":
        return "end"
    else:
        out = tag
    return "%s %d %s %d %d %d %d" % (out, rec["delta"], rec["state"], rec["seq"], rec["connects"], rec["consumed"], rec["unread"])


ONEWAY_KINDS = "oBM"
RETRIED_KINDS = "nxsomM"       # go through _RemoteMethod.__call__
NO_METHOD_KINDS = "mM"         # the object no longer has the method: nothing may run on the server
FAIL_TAGS = ("fail:closed", "fail:timeout", "fail:protocol", "fail:intr", "fail:comm")
COMM_FAIL_TAGS = ("fail:closed", "fail:timeout", "fail:protocol", "fail:comm")     # fail:intr is the injected KeyboardInterrupt


def check_history(ctx, case, recs, net, retries):
    """step D: the property itself, on what the real proxy / daemon did (independent of the model)"""
    from props import c03_net as N
    seen = set()

    def fail(sig, desc, idx):
        if sig in seen:
            return
        seen.add(sig)
        n = sum(1 for f in ctx.failures if f["signature"] == sig)
        if n < 3:
            c = {k: v for k, v in case.items() if not k.startswith("_")}
            ctx.fail(sig, desc, {"history": c, "call": idx})

    if net.server_errors:
        fail("daemon-side-error", "the daemon raised while serving: %r" % (net.server_errors[0],), 0)
    prev = None
    faulty = False         # has the transport done anything but deliver so far?
    for rec in recs:
        kind, tok, tag, idx = rec["kind"], rec["tok"], rec["tag"], rec["idx"]
        if any(e[0] != "ok" for e in rec["events"]) or tag in ("end", "stuck"):
            faulty = True
        if tag in ("end", "stuck"):
            prev = None
            continue
        oneway = kind in ONEWAY_KINDS
        budget = 0 if kind in NO_METHOD_KINDS else 1 + (retries if kind in RETRIED_KINDS else 0)
        want = 0 if kind in NO_METHOD_KINDS else 1
        ident = N.content_identity(rec["value"], rec["exc"]) if tag in ("returned", "raised") else None
        inv = [m for m in rec["msgs"] if m["kind"] == "inv"]
        if tag == "error:StopIteration" and kind == "f":
            fail("stream-ended-locally", "stream fetch %d (f%d) raised StopIteration%s although the remote stream never ends: the "
                 "iterator was turned into an exhausted one" % (idx, tok, " without sending a request" if not rec["processed"] else ""), idx)
        elif tag.startswith("error:"):
            fail("non-comm-error", "call %d (%s%d) raised %r, neither its own reply nor a communication error" % (idx, kind, tok, rec["exc"]), idx)
        elif tag in ("returned", "raised") and not oneway:
            # (1) own reply: by content, and by the origin of the message the proxy consumed
            own_kind = {"n": "n", "x": "x", "s": "s", "b": "b", "g": "g", "f": "f", "t": None, "m": "m"}[kind]
            if kind == "m" and ident == ("m", None):
                ident = ("m", tok)      # the daemon's error reply for the missing method names no token; its origin is checked below
            origin = inv[-1] if inv else None
            foreign = None
            if kind == "t":
                if ident is not None:
                    foreign = "an attribute write returned %r" % (rec["value"],)
            elif ident is not None and ident[0] == "?" and tag == "raised" and origin is not None and origin["call"] == idx:
                # the daemon answered this very request with an error that the called method did not raise
                fail("stream-lost" if kind == "f" else "unexpected-remote-error",
                     "call %d (%s%d) was answered with %s instead of its result%s"
                     % (idx, kind, tok, ident[1], " (the stream it fetches from was discarded by the daemon)" if kind == "f" else ""), idx)
            elif ident != (own_kind, tok):
                foreign = "got the content of %r" % (ident,)
            if foreign is None and (origin is None or origin["call"] != idx):
                foreign = "consumed a reply that was produced for call %r" % (origin and origin["call"],)
            if foreign:
                age = (rec["sends"] - origin["send"]) if origin else -1
                sig = "seq-alias-65536" if (age > 0 and age % 65536 == 0) else "foreign-reply"
                fail(sig, "call %d (%s%d) returned a reply that is not its own: %s (reply is %d INVOKE sends old)"
                     % (idx, kind, tok, foreign, age), idx)
            # (2) a call that returns has run its method exactly once
            if rec["delta"] != want:
                if rec["delta"] >= 2 and retries >= 1 and kind in "nxs":
                    fail("retry-reexecutes", "MAX_RETRIES=%d: call %d (%s%d) returned after its method ran %d times "
                         "(an attempt whose request was processed failed and was re-sent)" % (retries, idx, kind, tok, rec["delta"]), idx)
                else:
                    fail("exec-count", "call %d (%s%d) returned but its method ran %d times (expected %d)" % (idx, kind, tok, rec["delta"], want), idx)
            if kind in "bB" and rec["subcounts"] != [rec["delta"]]:
                fail("exec-count", "batch %d: sub-calls ran %r times" % (idx, rec["subcounts"]), idx)
        elif tag in ("returned", "raised") and oneway:
            # (3) oneway: None, nothing consumed, executed once iff delivered, never more
            if tag == "raised" or rec["value"] is not None:
                fail("oneway-result", "oneway call %d returned %r / raised %r" % (idx, rec["value"], rec["exc"]), idx)
            if inv:
                fail("oneway-consumed", "oneway call %d consumed a reply message" % idx, idx)
            if rec["delta"] != want or rec["processed"] != 1:
                fail("oneway-exec", "oneway call %d returned; request delivered %d times, method ran %d times" % (idx, rec["processed"], rec["delta"]), idx)
        else:
            # failed
            if tag not in FAIL_TAGS:
                fail("non-comm-error", "call %d (%s%d) ended with %s" % (idx, kind, tok, tag), idx)
            if oneway and rec["delta"] > 1:
                fail("oneway-exec", "oneway call %d failed after its method ran %d times" % (idx, rec["delta"]), idx)
            if rec["delta"] > budget:
                fail("exec-bound", "call %d (%s%d) failed after its method ran %d times (allowed: %d)" % (idx, kind, tok, rec["delta"], budget), idx)
        if rec["delta"] > budget and tag in ("returned", "raised"):
            fail("exec-bound", "call %d (%s%d): method ran %d times (allowed: %d)" % (idx, kind, tok, rec["delta"], budget), idx)
        # (4) no call runs another call's method (again)
        if rec["foreign_execs"] != 0:
            fail("other-call-executed", "during call %d (%s%d) the server ran %d method execution(s) that belong to other calls"
                 % (idx, kind, tok, rec["foreign_execs"]), idx)
        # (6) no fault, no failure (C03_fault_free): as long as the transport has delivered every message of the history,
        #     every call (a stream fetch only when the proxy was connected) comes back with its own outcome
        if not faulty and tag not in ("returned", "raised") and (kind != "f" or (prev is not None and prev["state"] == "L")):
            fail("failed-without-fault", "call %d (%s%d) ended with %s (%r) although the transport has delivered every message so far"
                 % (idx, kind, tok, tag, rec["exc"]), idx)
        # (5) recovery: after a call failed with a communication error, the next call (any kind but a stream fetch, whose
        #     iterator is bound to the lost connection by design) is served correctly when the transport is healthy, i.e.
        #     when the next two events of the script at the start of the call (handshake, request) are both `delivered`.
        #     (C03_recovers: script ok :: ok :: s.)  The call need not have consumed them: failing without even trying
        #     the healthy transport is the failure looked for.
        if prev is not None and prev["tag"] in COMM_FAIL_TAGS and kind != "f" and len(rec["upcoming"]) == 2 \
                and all(e[0] == "ok" for e in rec["upcoming"]):
            good = (tag in ("returned", "raised")) and (oneway or (inv and inv[-1]["call"] == idx))
            if not good:
                fail("no-recovery", "call %d failed (%s); the next call %d (%s%d) over a healthy transport ended with %s "
                     "(proxy state before it: %s; %d script event(s) consumed)"
                     % (prev["idx"], prev["tag"], idx, kind, tok, tag, prev["state"], rec["consumed"]), idx)
        prev = rec


def run_cases(ctx, rig, cases, do_model, label):
    lines, reals, kept = [], [], []
    for case in cases:
        retries, seq0, calls, script = expand(case)
        recs, net = rig.history(retries, seq0, calls, script, **options(case))
        ctx.evaluations += 1
        real = ";".join(canon(r) for r in recs)
        check_history(ctx, case, recs, net, retries)
        # input distribution / non-triviality
        faults = [ev_str(e)[:2] for r in recs for e in r["events"]]
        for f in faults:
            ctx.count("ev:" + f)
        for r in recs:
            ctx.count("call:%s:%s" % (r["kind"], r["tag"].split(":")[0] if not r["tag"].startswith("fail") else r["tag"]))
        ctx.count("retries:%d" % retries)
        opt = options(case)
        ctx.count("global-retries:%s" % ("same" if opt["gretries"] in (None, retries) else "differs"))
        ctx.count("raw-wire-mode:%s" % opt["raw"])
        ctx.count("blob-arguments:%s" % opt["blob"])
        ctx.count("histories:" + label)
        if any(f != "ok" for f in faults) and any(r["tag"] in ("returned", "raised") for r in recs):
            cls = "0" if seq0 == 0 else ("w" if seq0 >= 65500 else "r")
            key = (retries, opt["gretries"], opt["raw"] + 2 * opt["blob"], cls, "".join(k for k, _ in calls[:len(recs)]),
                   ",".join(ev_str(e) for r in recs for e in r["events"]))
            if len(key[4]) <= 64:
                ctx.nontriv(key)
            else:
                ctx.nontriv(key[:4] + (len(calls), common.hash_str(key[5])))
        if len(calls) <= 5 and any(f not in ("ok",) for f in faults):
            ctx.sample({"line": model_line(retries, seq0, calls, script)[:300], "real": real[:300]})
        if do_model:
            lines.append(model_line(retries, seq0, calls, script))
            reals.append(real)
            kept.append(case)
    if do_model and lines:
        outs = common.run_driver("drv_c03", lines)
        ctx.corr_cases += len(lines)
        for case, l, r, m in zip(kept, lines, reals, outs):
            if r != m:
                rs, ms = r.split(";"), m.split(";")
                i = next((j for j in range(min(len(rs), len(ms))) if rs[j] != ms[j]), min(len(rs), len(ms)))
                c = {k: v for k, v in case.items() if not k.startswith("_")}
                if len(l) > 2000:
                    c = {"file": case.get("_file"), "retries": case["retries"], "seq0": case["seq0"]}
                ctx.mismatch("history", {"line": l if len(l) < 600 else l[:600] + "...", "case": c, "first_difference_at_call": i},
                             ";".join(rs[max(0, i - 1):i + 2])[:400], ";".join(ms[max(0, i - 1):i + 2])[:400])


def _with_rig(fn):
    from props import c03_net as N
    rig = N.Rig()
    try:
        return fn(rig)
    finally:
        rig.close()


def correspondence(ctx):
    def go(rig):
        corpus = corpus_cases()
        quick_corpus = [c for c in corpus if ctx.tier == "thorough" or not c.get("thorough_only")]
        run_cases(ctx, rig, quick_corpus, True, "corpus")
        run_cases(ctx, rig, systematic_cases(), True, "systematic")
        run_cases(ctx, rig, setup_cases(), True, "setup")
        rng = ctx.sub_rng("corr")
        run_cases(ctx, rig, [random_case(rng) for _ in range(ctx.n(1500, 40000))], True, "random")
        if ctx.tier == "thorough":
            run_cases(ctx, rig, [random_case(rng, big=True) for _ in range(60)], True, "random-long")
            run_cases(ctx, rig, [wrap_case(65536 - 20), wrap_case(2 * 65536 - 20, "nobBgtfxs")], True, "wrap-long")
    _with_rig(go)


def oracle(ctx):
    # step D runs inside run_cases on the same histories as step C.  In search mode: fresh, larger random part
    # plus the witnesses of the negative theorems (they are in the corpus and were replayed already).
    if ctx.search_mode:
        def go(rig):
            rng = ctx.sub_rng("search")
            run_cases(ctx, rig, corpus_cases(), False, "corpus")
            run_cases(ctx, rig, [random_case(rng) for _ in range(ctx.n(3000, 30000))], False, "search")
        _with_rig(go)


def replay(ctx, case):
    f = case.get("failing_input") or {}
    c = f.get("case")
    if not c:
        print("replay file names no failing input:", case.get("no_longer_checks"))
        return 1
    hist = c["history"]

    def go(rig):
        retries, seq0, calls, script = expand(hist)
        recs, net = rig.history(retries, seq0, calls, script, **options(hist))
        print("proxy._pyroMaxRetries=%d config.MAX_RETRIES=%r raw-wire-mode=%r blob-arguments=%r"
              % (retries, hist.get("gretries", retries), bool(hist.get("raw")), bool(hist.get("blob"))))
        show = recs if len(recs) <= 60 else recs[:5] + recs[-5:]
        for r in show:
            print("call %d %s%d events=%s -> %s value=%r exc=%r ; method ran %d time(s); proxy %s seq=%d"
                  % (r["idx"], r["kind"], r["tok"], [ev_str(e) for e in r["events"]], r["tag"], r["value"], r["exc"], r["delta"], r["state"], r["seq"]))
        sub = common.Ctx(ID, ctx.tier, ctx.seed)
        check_history(sub, hist, recs, net, retries)
        for x in sub.failures:
            print("  property violated [%s]: %s" % (x["signature"], x["desc"]))
        hit = any(x["signature"] == f.get("signature") for x in sub.failures)
        print("VIOLATION reproduced" if hit else "not reproduced")
        return 1 if hit else 0
    return _with_rig(go)
