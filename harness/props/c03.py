"""C03 — a call returns its own reply or fails; never another call's answer."""
import ast
import json
import os

import common

ID = "C03"
LEAN_MODEL_TARGETS = ["drv_c03"]
LEAN_PROOF_TARGETS = ["PyroProps.C03"]
AUDIT_FILES = ["PyroModel/Call.lean", "PyroModel/Gen/C03.lean", "PyroProofs/Call.lean", "PyroProps/C03.lean"]
THEOREMS = ["Pyro.C03.C03_own_reply_partial", "Pyro.C03.C03_own_reply_full_false",
            "Pyro.C03.C03_exec_once_partial", "Pyro.C03.C03_exec_once_full_false",
            "Pyro.C03.C03_exec_bound", "Pyro.C03.C03_oneway", "Pyro.C03.C03_recovers", "Pyro.C03.C03_wrap",
            "Pyro.C03.C03_never_stuck", "Pyro.C03.C03_reachable_inv",
            "Pyro.C03.C03_seqcheck_needed", "Pyro.C03.C03_release_needed",
            "Pyro.C03.C03_gen_seq", "Pyro.C03.C03_gen_invoke", "Pyro.C03.C03_gen_retry", "Pyro.C03.C03_gen_paths",
            "Pyro.C03.C03_gen_server"]
SUITES = ["history"]
RULE = ("histories of 1-40 calls (thorough: up to 70000, crossing the 16-bit wrap) on ONE real Proxy against the real Daemon over "
        "an in-memory transport; each call is normal / raising / stream-returning / oneway / batch / oneway batch / attribute "
        "read / attribute write / stream fetch; MAX_RETRIES 0,1,2; initial sequence number 0, near 65535 or random; the fault "
        "script gives every CONNECT and INVOKE message one of: delivered, reply lost, reply late (cut anywhere), reply cut at "
        "any offset + reset, reset before / after processing, stale reply of the a-th previous send replayed, stale CONNECTOK "
        "replayed, seq altered, reply duplicated, KeyboardInterrupt while waiting; the proxy's own _pyroMaxRetries may differ from "
        "config.MAX_RETRIES, it may run in wire-level response mode, and one BatchProxy object is re-used across submits.  Part is systematic (every kind x every "
        "fault x {on the handshake, on the first call, on a later call} x retries), part random from VERIF_SEED.  A history is "
        "non-trivial when at least one fault other than `delivered` was consumed and at least one call returned; distinct = "
        "distinct (retries, seq0 class, call kinds, consumed script)")
ASSUMPTIONS = [
    "fault model: one fault per request message, taken from the stated alphabet; the transport is otherwise an in-order byte stream",
    "C03_own_reply_partial assumes every replayed or still unread reply is younger than 65536 INVOKE sends (16-bit field); "
    "the excluded case is finding K2 (seq-alias-65536)",
    "the byte level (header parse, exact reads) is as proved for C06/C17; the model works on whole messages",
    "the method result identifies the call (token); payload corruption is outside the fault model",
    "stream iterators are bound to their connection by design: the recovery clause is not demanded of a stream fetch",
]
TRUSTED = ["harness/props/c03_net.py: in-memory transport between the real Proxy and the real Daemon "
           "(patched socketutil.create_socket; daemon side with its own copy of the thread-local call context; "
           "_OnewayCallThread.start joined)"]

CORPUS = os.path.join(common.VERIF, "corpus", "C03")
EVS = ["ok", "lo", "la", "cu", "rb", "ra", "st", "sh", "sq", "du", "in"]


# =====================================================================================================
# A: extractor
# =====================================================================================================
def _cls(tree, name):
    r = [n for n in tree.body if isinstance(n, ast.ClassDef) and n.name == name]
    if not r:
        raise ValueError("class %s not found" % name)
    return r[0]


def _fn(node, name):
    r = [n for n in node.body if isinstance(n, ast.FunctionDef) and n.name == name]
    if not r:
        raise ValueError("function %s not found" % name)
    return r[0]


def _attr_chain(n):
    out = []
    while isinstance(n, ast.Attribute):
        out.append(n.attr)
        n = n.value
    if isinstance(n, ast.Name):
        out.append(n.id)
    return ".".join(reversed(out))


def _exc_names(handler):
    t = handler.type
    elts = t.elts if isinstance(t, ast.Tuple) else [t]
    return [_attr_chain(e).split(".")[-1] for e in elts]


def _calls_in(node):
    return [n for n in ast.walk(node) if isinstance(n, ast.Call)]


def _accepts(fn_node):
    for c in _calls_in(fn_node):
        if _attr_chain(c.func).endswith("recv_stub"):
            return [e.attr for e in c.args[1].elts]
    raise ValueError("recv_stub call not found")


def _lean_strs(xs):
    return "[" + ", ".join(json.dumps(x) for x in xs) + "]"


def extract():
    common.repo_on_path()
    from Pyro5 import client, server, protocol, errors, config
    ctree = ast.parse(open(client.__file__).read())
    proxy = _cls(ctree, "Proxy")
    inv = _fn(proxy, "_pyroInvoke")
    tries = [n for n in inv.body if isinstance(n, ast.Try)]
    if len(tries) != 1:
        raise ValueError("_pyroInvoke: expected exactly one try statement")
    tr = tries[0]
    pre = inv.body[:inv.body.index(tr)]
    # --- before the try: connect when there is no connection, sequence increment
    pretry = []
    seq_inc = seq_mask = None
    for st in pre:
        if isinstance(st, ast.If) and isinstance(st.test, ast.Compare) and _attr_chain(st.test.left) == "self._pyroConnection" \
                and isinstance(st.test.ops[0], ast.Is) and any(_attr_chain(c.func).endswith("__pyroCreateConnection") for c in _calls_in(st)):
            pretry.append("connect-if-none")
        if isinstance(st, ast.Assign) and _attr_chain(st.targets[0]) == "self._pyroSeq":
            v = st.value
            if isinstance(v, ast.BinOp) and isinstance(v.op, ast.BitAnd) and isinstance(v.right, ast.Constant) \
                    and isinstance(v.left, ast.BinOp) and isinstance(v.left.op, ast.Add) \
                    and _attr_chain(v.left.left) == "self._pyroSeq" and isinstance(v.left.right, ast.Constant):
                seq_inc, seq_mask = v.left.right.value, v.right.value
                pretry.append("seq-increment")
    if seq_inc is None:
        raise ValueError("_pyroInvoke: `self._pyroSeq = (self._pyroSeq + c) & mask` not found before the try")
    # --- inside the try, in source order
    order = []
    for n in sorted((x for x in ast.walk(tr) if hasattr(x, "lineno") and x not in tr.handlers), key=lambda x: (x.lineno, x.col_offset)):
        if any(n in ast.walk(h) for h in tr.handlers):
            continue
        if isinstance(n, ast.Call):
            f = _attr_chain(n.func)
            if f == "self._pyroConnection.send":
                order.append("send")
            elif f.endswith("recv_stub"):
                order.append("recv")
            elif f.endswith("__pyroCheckSequence"):
                order.append("check-seq")
            elif f == "serializer.loads":
                order.append("loads")
        if isinstance(n, ast.If) and isinstance(n.test, ast.Compare) and _attr_chain(n.test.left) == "msg.serializer_id" \
                and any(isinstance(x, ast.Raise) for x in ast.walk(n)):
            order.append("serializer-check")
        if isinstance(n, ast.If) and _attr_chain(n.test) == "self._pyroRawWireResponse" and n.body and isinstance(n.body[0], ast.Return):
            order.append("raw-return")
        if isinstance(n, ast.If) and isinstance(n.test, ast.BinOp) and _attr_chain(n.test.right).endswith("FLAGS_ONEWAY") \
                and n.body and isinstance(n.body[0], ast.Return) and isinstance(n.body[0].value, ast.Constant) and n.body[0].value.value is None:
            order.append("oneway-return-none")
    if len(tr.handlers) != 1:
        raise ValueError("_pyroInvoke: expected one except clause")
    h = tr.handlers[0]
    handler = []
    for st in h.body:
        if isinstance(st, ast.Expr) and isinstance(st.value, ast.Call) and _attr_chain(st.value.func) == "self._pyroRelease":
            handler.append("release")
        elif isinstance(st, ast.Raise) and st.exc is None:
            handler.append("reraise")
        else:
            handler.append("other")
    # --- __pyroCheckSequence
    chk = _fn(proxy, "__pyroCheckSequence")
    cs = []
    st = chk.body[0]
    if isinstance(st, ast.If) and isinstance(st.test, ast.Compare):
        cs = [type(st.test.ops[0]).__name__, _attr_chain(st.test.left), _attr_chain(st.test.comparators[0])]
        cs += [_attr_chain(r.exc.func).split(".")[-1] for r in ast.walk(st) if isinstance(r, ast.Raise) and isinstance(r.exc, ast.Call)]
    # --- _pyroRelease sets the connection to None
    rel = _fn(proxy, "_pyroRelease")
    rel_clears = any(isinstance(n, ast.Assign) and _attr_chain(n.targets[0]) == "self._pyroConnection"
                     and isinstance(n.value, ast.Constant) and n.value.value is None for n in ast.walk(rel))
    # --- handshake
    cc = _fn(proxy, "__pyroCreateConnection")
    hs_accepts = _accepts(cc)
    hs_checks_seq = any(_attr_chain(c.func).endswith("__pyroCheckSequence") for c in _calls_in(cc))
    # --- retry loop
    rm = _fn(_cls(ctree, "_RemoteMethod"), "__call__")
    loop = [n for n in rm.body if isinstance(n, ast.For)]
    if len(loop) != 1:
        raise ValueError("_RemoteMethod.__call__: expected one for loop")
    it = loop[0].iter
    rng = []
    if isinstance(it, ast.Call) and _attr_chain(it.func) == "range" and len(it.args) == 1 and isinstance(it.args[0], ast.BinOp):
        b = it.args[0]
        rng = [_attr_chain(b.left), type(b.op).__name__, repr(getattr(b.right, "value", "?"))]
    rtry = [n for n in loop[0].body if isinstance(n, ast.Try)][0]
    retry_catches = _exc_names(rtry.handlers[0])
    # the handler re-raises only under `if attempt >= self.__max_retries`
    hb = rtry.handlers[0].body
    reraise = []
    if len(hb) == 1 and isinstance(hb[0], ast.If) and isinstance(hb[0].test, ast.Compare) and not hb[0].orelse:
        t = hb[0].test
        reraise = [_attr_chain(t.left), type(t.ops[0]).__name__, _attr_chain(t.comparators[0])]
        reraise += ["raise" if isinstance(x, ast.Raise) and x.exc is None else "other" for x in hb[0].body]
    # --- who calls _pyroInvoke directly, who goes through _RemoteMethod
    direct, via_remote = [], []
    for c in [n for n in ctree.body if isinstance(n, ast.ClassDef)]:
        for f in [n for n in c.body if isinstance(n, ast.FunctionDef)]:
            for call in _calls_in(f):
                ch = _attr_chain(call.func)
                if ch.endswith("._pyroInvoke"):
                    direct.append("%s.%s" % (c.name, f.name))
                if ch == "_RemoteMethod" and c.name == "Proxy":
                    via_remote.append("%s.%s" % (c.name, f.name))
    # the retry budget handed to _RemoteMethod is the proxy's own setting
    rm_args = [[(_attr_chain(a) or type(a).__name__) for a in call.args]
               for call in _calls_in(_fn(proxy, "__getattr__")) if _attr_chain(call.func) == "_RemoteMethod"]
    if len(rm_args) != 1:
        raise ValueError("Proxy.__getattr__: expected one _RemoteMethod(...) call")
    # BatchProxy.__call__: top-level statements (the recorded calls are cleared unconditionally after the submit)
    bshape = []
    for st in _fn(_cls(ctree, "BatchProxy"), "__call__").body:
        if isinstance(st, ast.Assign) and _attr_chain(st.targets[0]) == "self.__calls" and isinstance(st.value, ast.List) and not st.value.elts:
            bshape.append("clear-calls")
        elif isinstance(st, ast.Assign) and any(_attr_chain(c.func).endswith("_pyroInvokeBatch") for c in _calls_in(st)):
            bshape.append("submit")
        elif isinstance(st, ast.If):
            bshape.append("if:" + ",".join(sorted({type(x).__name__ for x in st.body})))
        elif isinstance(st, ast.Expr) and isinstance(st.value, ast.Call):
            bshape.append("call:" + _attr_chain(st.value.func).split(".")[-1])
        else:
            bshape.append(type(st).__name__)
    nxt = _fn(_cls(ctree, "_StreamResultIterator"), "__next__")
    precheck = any(isinstance(n, ast.If) and isinstance(n.test, ast.Compare) and _attr_chain(n.test.left) == "self.proxy._pyroConnection"
                   and isinstance(n.test.ops[0], ast.Is) and any(isinstance(r, ast.Raise) and "ConnectionClosedError" in ast.dump(r) for r in n.body)
                   for n in nxt.body)
    # metadata lookup in Proxy.__getattr__ / __setattr__ before anything is sent
    meta_lookup = []
    for name in ("__getattr__", "__setattr__"):
        f = _fn(proxy, name)
        ok = any(isinstance(n, ast.If) and any(_attr_chain(c.func) == "self._pyroGetMetadata" for c in _calls_in(n)) for n in f.body)
        if ok:
            meta_lookup.append(name)
    # --- errors hierarchy
    comm = sorted(n for n, v in vars(errors).items() if isinstance(v, type) and issubclass(v, errors.CommunicationError))
    # --- server: sequence number of every reply
    stree = ast.parse(open(server.__file__).read())
    daemon = _cls(stree, "Daemon")
    reply_seq = []
    for fname in ("handleRequest", "_sendExceptionResponse", "_handshake"):
        f = _fn(daemon, fname)
        for c in _calls_in(f):
            if _attr_chain(c.func) == "protocol.SendingMessage" and len(c.args) >= 3:
                t0 = _attr_chain(c.args[0]) or "var"
                if t0.endswith("MSG_PING"):
                    continue
                reply_seq.append("%s:%s" % (fname, _attr_chain(c.args[2]) or ast.dump(c.args[2])))
    hr = _fn(daemon, "handleRequest")
    seq_src = [_attr_chain(n.value) for n in ast.walk(hr) if isinstance(n, ast.Assign) and _attr_chain(n.targets[0]) == "request_seq"
               and not isinstance(n.value, ast.Constant)]
    exc_call = [_attr_chain(c.args[1]) for c in _calls_in(hr) if _attr_chain(c.func) == "self._sendExceptionResponse"]
    # oneway: `if request_flags & FLAGS_ONEWAY: return` precedes the reply
    oneway_noreply = False
    for n in ast.walk(hr):
        if isinstance(n, ast.If) and isinstance(n.test, ast.BinOp) and _attr_chain(n.test.left) == "request_flags" \
                and _attr_chain(n.test.right).endswith("FLAGS_ONEWAY") and n.body and isinstance(n.body[0], ast.Return) \
                and n.body[0].value is None and n.orelse and any(_attr_chain(c.func) == "conn.send" for c in _calls_in(ast.Module(body=n.orelse, type_ignores=[]))):
            oneway_noreply = True
    # --- server: get_next_stream_item re-attaches a lingering stream with linger timestamp 0
    dobj = _fn(_cls(stree, "DaemonObject"), "get_next_stream_item")
    reattach = []
    for n in ast.walk(dobj):
        if isinstance(n, ast.Assign) and isinstance(n.targets[0], ast.Subscript) and _attr_chain(n.targets[0].value) == "self.daemon.streaming_responses" \
                and isinstance(n.value, ast.Tuple):
            reattach.append([(_attr_chain(e) or (repr(e.value) if isinstance(e, ast.Constant) else type(e).__name__)) for e in n.value.elts])
    if len(reattach) != 1:
        raise ValueError("get_next_stream_item: expected one re-attach assignment")
    # --- protocol: the seq field is the 6th header field, 16 bit; type filter comes before the payload read
    import struct
    import re as _re
    fields = _re.findall(r"\d*[a-zA-Z]", protocol._header_format.lstrip("!<>=@"))
    ptree = ast.parse(open(protocol.__file__).read())
    sm = _fn(_cls(ptree, "SendingMessage"), "__init__")
    pack = [c for c in _calls_in(sm) if _attr_chain(c.func) == "struct.pack" and _attr_chain(c.args[0]) == "_header_format"]
    if len(pack) != 1:
        raise ValueError("SendingMessage: header struct.pack not found")
    pack_args = [(_attr_chain(a) or "expr") for a in pack[0].args[1:]]
    seq_pos = pack_args.index("seq")
    rs = _fn(ptree, "recv_stub")
    rs_order = []
    for n in sorted((x for x in ast.walk(rs) if hasattr(x, "lineno")), key=lambda x: (x.lineno, x.col_offset)):
        if isinstance(n, ast.Call) and _attr_chain(n.func) == "connection.recv":
            rs_order.append("recv")
        if isinstance(n, ast.If) and "accepted_msgtypes" in ast.dump(n.test) and any(isinstance(x, ast.Raise) for x in ast.walk(n)):
            rs_order.append("type-filter")
        if isinstance(n, ast.Call) and _attr_chain(n.func) == "msg.add_payload":
            rs_order.append("add-payload")
    b = lambda x: "true" if x else "false"
    return f"""-- GENERATED by harness/props/c03.py from Pyro5/client.py, server.py, protocol.py, errors.py — do not edit
namespace Pyro.Gen.C03
/-- `self._pyroSeq = (self._pyroSeq + seqInc) & seqMask` in Proxy._pyroInvoke -/
def seqInc : Nat := {seq_inc}
def seqMask : Nat := {seq_mask}
/-- statements of _pyroInvoke before its `try`, in order -/
def invokePreTry : List String := {_lean_strs(pretry)}
/-- marks inside the `try` of _pyroInvoke, in source order -/
def invokeTryOrder : List String := {_lean_strs(order)}
/-- message types _pyroInvoke passes to recv_stub -/
def invokeAccepts : List String := {_lean_strs(_accepts(tr))}
/-- exception classes of the `except` clause of _pyroInvoke, and what its body does -/
def invokeCatches : List String := {_lean_strs(_exc_names(h))}
def invokeHandler : List String := {_lean_strs(handler)}
/-- __pyroCheckSequence: comparison operator, operands, exception raised -/
def checkSeq : List String := {_lean_strs(cs)}
/-- _pyroRelease assigns None to self._pyroConnection -/
def releaseClears : Bool := {b(rel_clears)}
/-- message types the handshake passes to recv_stub; does __pyroCreateConnection check the sequence number? -/
def handshakeAccepts : List String := {_lean_strs(hs_accepts)}
def handshakeChecksSeq : Bool := {b(hs_checks_seq)}
/-- _RemoteMethod.__call__: `for attempt in range(<this>)`, the caught classes, the re-raise condition -/
def retryRange : List String := {_lean_strs(rng)}
def retryCatches : List String := {_lean_strs(retry_catches)}
def retryReraise : List String := {_lean_strs(reraise)}
/-- functions of client.py that call `_pyroInvoke` directly (sorted), and Proxy methods that build a _RemoteMethod -/
def directInvokers : List String := {_lean_strs(sorted(set(direct)))}
def remoteMethodBuilders : List String := {_lean_strs(sorted(set(via_remote)))}
/-- arguments of the `_RemoteMethod(...)` call in Proxy.__getattr__ (the last one is the retry budget) -/
def remoteMethodArgs : List String := {_lean_strs(rm_args[0])}
/-- top-level statements of BatchProxy.__call__, in order -/
def batchCallShape : List String := {_lean_strs(bshape)}
/-- Proxy methods that fetch the metadata first; _StreamResultIterator.__next__ refuses when there is no connection -/
def metaLookup : List String := {_lean_strs(meta_lookup)}
def streamPrecheck : Bool := {b(precheck)}
/-- names in Pyro5.errors that are subclasses of CommunicationError (sorted) -/
def commErrors : List String := {_lean_strs(comm)}
/-- sequence-number argument of every reply the daemon builds (function:expression), source of request_seq -/
def replySeqArgs : List String := {_lean_strs(reply_seq)}
def requestSeqSource : List String := {_lean_strs(seq_src)}
def excReplySeqArgs : List String := {_lean_strs(exc_call)}
def onewayNoReply : Bool := {b(oneway_noreply)}
/-- the tuple get_next_stream_item stores when it re-attaches a stream to the connection that fetches from it -/
def streamReattach : List String := {_lean_strs(reattach[0])}
/-- struct format character and byte width of the header's seq field -/
def seqFieldFormat : String := {json.dumps(fields[seq_pos])}
def seqFieldBytes : Nat := {struct.calcsize("!" + fields[seq_pos])}
/-- recv_stub: order of reads and the type filter -/
def recvStubOrder : List String := {_lean_strs(rs_order)}
def maxRetriesDefault : Nat := {int(config.MAX_RETRIES)}
end Pyro.Gen.C03
"""


# =====================================================================================================
# history generation
# =====================================================================================================
def ev_str(e):
    e = tuple(e)
    if e[0] in ("st", "sq"):
        return "%s%d" % (e[0], e[1])
    return e[0]


def expand(case):
    """corpus / generated case -> (retries, seq0, calls, script) with run-length parts expanded"""
    calls = [tuple(c) for c in case.get("calls", [])]
    for kind, tok0, n in case.get("calls_rle", []):
        calls += [(kind, tok0 + i) for i in range(n)]
    script = [tuple(e) for e in case.get("script", [])]
    for e, n in case.get("script_rle", []):
        script += [tuple(e)] * n
    return case["retries"], case["seq0"], calls, script


def options(case):
    """how the proxy of this history is set up (the model does not depend on either: the proxy's OWN retry setting
    governs, and wire-level response mode only changes what is handed back after all checks)"""
    return {"gretries": case.get("gretries"), "raw": bool(case.get("raw"))}


def model_line(retries, seq0, calls, script):
    cs = ",".join("%s%d" % (k, t) for k, t in calls) or "-"
    sc = ",".join(ev_str(e) for e in script) or "-"
    return "hist %d %d %s %s" % (retries, seq0, cs, sc)


def rand_event(rng, p_ok):
    if rng.random() < p_ok:
        return ("ok",)
    k = rng.choice(EVS[1:])
    if k in ("la", "cu"):
        return (k, rng.choice([0, 0, 1, 100, 149, 150, 151, 500, 900, 999, rng.randint(0, 999)]))
    if k == "st":
        return (k, rng.choice([0, 0, 0, 1, 1, 2, 3, 5, rng.randint(0, 12), 65534, 65535, 65536]))
    if k == "sq":
        return (k, rng.choice([0, 1, 2, 65533, 65534, 65535, rng.randint(0, 200000)]))
    return (k,)


def systematic_cases():
    """every kind x every fault x where it strikes x retries"""
    out = []
    tok = 0
    for retries in (0, 1, 2):
        for kind in "nxsobBgtf":
            for ev in [("ok",), ("lo",), ("la", 0), ("la", 400), ("cu", 0), ("cu", 700), ("rb",), ("ra",), ("st", 0), ("st", 1),
                       ("sh",), ("sq", 0), ("sq", 65534), ("du",), ("in",)]:
                for where in ("hs", "first", "later", "retry-hs"):
                    if where == "retry-hs" and (retries == 0 or kind not in "nxso"):
                        continue
                    ok = ("ok",)
                    if where == "hs":
                        calls = [(kind, tok + 1), ("n", tok + 2), ("n", tok + 3)]
                        script = [ev] + [ok] * 10
                    elif where == "first":
                        calls = [(kind, tok + 1), ("n", tok + 2), ("n", tok + 3)]
                        script = [ok, ev] + [ok] * 10
                    elif where == "later":
                        calls = [("n", tok + 1), ("n", tok + 2), (kind, tok + 3), ("n", tok + 4), ("n", tok + 5)]
                        script = [ok, ok, ok, ev] + [ok] * 10
                    else:
                        calls = [("n", tok + 1), (kind, tok + 2), ("n", tok + 3)]
                        script = [ok, ok, ("lo",), ev] + [ok] * 10
                    tok += 5
                    out.append({"retries": retries, "seq0": 65534 if (tok // 5) % 3 == 0 else 0, "calls": calls, "script": script})
    return out


def random_case(rng, big=False):
    retries = rng.choice([0, 0, 1, 1, 2])
    r = rng.random()
    if r < 0.6:
        seq0 = 0
    elif r < 0.9:
        seq0 = 65536 - rng.randint(1, 8)
    else:
        seq0 = rng.randint(0, 65535)
    n = rng.choice([1, 2, 3, 4, 6, 8, 12, 12, 20, 40]) if not big else rng.choice([200, 1000])
    kinds = "nnnnnnnxxsoooobbBggttff"
    tok0 = rng.randint(1, 1000) * 100
    calls = [(rng.choice(kinds), tok0 + i) for i in range(n)]
    p_ok = rng.choice([0.4, 0.6, 0.75, 0.9])
    m = n * (2 + 2 * retries) + 2
    if rng.random() < 0.05:
        m = rng.randint(0, max(1, n))
    script = [rand_event(rng, p_ok) for _ in range(m)]
    case = {"retries": retries, "seq0": seq0, "calls": calls, "script": script}
    if rng.random() < 0.4:
        case["gretries"] = rng.choice([0, 1, 2])          # config.MAX_RETRIES differs from the proxy's own setting
    if rng.random() < 0.25:
        case["raw"] = True                                 # wire-level response mode
    return case


def setup_cases():
    """histories aimed at how the proxy is set up and used: its own retry setting against a different global one,
    wire-level response mode under reply-level faults, one BatchProxy object re-used across submits"""
    out = []
    ok = ("ok",)
    tok = 500000
    # proxy retries r, global g != r, a fault after the server processed the request
    for r in (0, 1, 2):
        for g in (0, 1, 2):
            if g == r:
                continue
            for kind in "nxso":
                for ev in [("lo",), ("la", 0), ("la", 300), ("ra",), ("cu", 500), ("rb",)]:
                    for pre in (0, 1):
                        calls = [("n", tok + 1)] * pre + [(kind, tok + 2), ("n", tok + 3)]
                        script = [ok] * (1 + pre) + [ev, ok, ev, ok, ev] + [ok] * 8
                        tok += 5
                        out.append({"retries": r, "gretries": g, "seq0": 0, "calls": calls, "script": script})
    # wire-level response mode under reply-level faults
    for r in (0, 1):
        for kind in "nxsgtfb":
            for ev in [("du",), ("st", 0), ("st", 1), ("sq", 0), ("sq", 65534), ("sh",), ("la", 0), ("in",)]:
                calls = [("n", tok + 1), ("n", tok + 2), (kind, tok + 3), ("n", tok + 4), (kind, tok + 5), ("n", tok + 6)]
                for where in (1, 2, 3):
                    script = [ok] * where + [ev] + [ok] * 12
                    out.append({"retries": r, "raw": True, "seq0": 65533 if tok % 2 else 0, "calls": calls, "script": script})
                tok += 10
    # a stream that is fetched, loses its connection, is fetched again after the reconnect and keeps being consumed
    for r in (0, 2):
        for ev in [("lo",), ("ra",), ("rb",), ("cu", 300), ("du",), ("st", 0), ("in",), ("la", 0)]:
            for victim in "nfo":
                calls = [("n", tok + 1), ("f", tok + 2), (victim, tok + 3), ("n", tok + 4), ("f", tok + 5), ("f", tok + 6),
                         ("n", tok + 7), ("f", tok + 8), ("f", tok + 9)]
                script = [ok, ok, ok, ev] + [ok] * 20
                tok += 10
                out.append({"retries": r, "seq0": 0, "calls": calls, "script": script})
    # failures that show while SENDING: the connection is reset under a oneway call (which notices nothing), the next
    # call fails on its send, the one after must be served again
    for r in (0, 1, 2):
        for quiet in "oB":
            for ev in [("ra",), ("cu", 0)]:
                for nxt in "nxgtbos":
                    calls = [("n", tok + 1), (quiet, tok + 2), (nxt, tok + 3), ("n", tok + 4), (nxt, tok + 5), ("n", tok + 6)]
                    script = [ok, ok, ev] + [ok] * 20
                    tok += 10
                    out.append({"retries": r, "seq0": 0, "calls": calls, "script": script})
    # one BatchProxy object across submits
    for r in (0, 1):
        for pat in ["Bb", "BBb", "bBb", "BnBb", "BobBn", "bBBbn", "BxBgb", "BbBbBb"]:
            for ev in [ok, ("lo",), ("rb",), ("du",)]:
                calls = [(k, tok + 1 + i) for i, k in enumerate(pat)]
                for where in (1, len(pat)):
                    script = [ok] * where + [ev] + [ok] * 20
                    out.append({"retries": r, "seq0": 0, "calls": calls, "script": script})
                tok += 10
    return out


def corpus_cases():
    out = []
    if os.path.isdir(CORPUS):
        for f in sorted(os.listdir(CORPUS)):
            if f.endswith(".json"):
                c = json.load(open(os.path.join(CORPUS, f)))
                c["_file"] = f
                out.append(c)
    return out


def wrap_case(n_before, kinds="nnnoBgf"):
    """a long healthy-ish history crossing the 16-bit wrap with a few faults around it"""
    calls = [(kinds[i % len(kinds)], 1 + i) for i in range(n_before + 40)]
    return {"retries": 0, "seq0": 0, "calls": calls, "script": [],
            "script_rle": [[["ok"], n_before - 3], [["du"], 1], [["ok"], 3], [["st", 2], 1], [["ok"], 5], [["sq", 65534], 1], [["ok"], 60]]}


# =====================================================================================================
# C + D on one history
# =====================================================================================================
def canon(rec):
    """one call record of the real run -> the line the model driver prints"""
    tag = rec["tag"]
    if tag in ("returned", "raised"):
        inv = [m for m in rec["msgs"] if m["kind"] == "inv"]
        if rec["kind"] in "oB" and tag == "returned" and rec["value"] is None and not inv:
            out = "none"
        elif inv and rec["kind"] not in "oB":
            out = "ret:%s:%d" % (inv[-1]["ckind"], inv[-1]["ctok"])
        else:
            out = "ret:?"
    elif tag == "end":
        return "end"
    else:
        out = tag
    return "%s %d %s %d %d %d %d" % (out, rec["delta"], rec["state"], rec["seq"], rec["connects"], rec["consumed"], rec["unread"])


FAIL_TAGS = ("fail:closed", "fail:timeout", "fail:protocol", "fail:intr", "fail:comm")
COMM_FAIL_TAGS = ("fail:closed", "fail:timeout", "fail:protocol", "fail:comm")     # fail:intr is the injected KeyboardInterrupt


def check_history(ctx, case, recs, net, retries):
    """step D: the property itself, on what the real proxy / daemon did (independent of the model)"""
    from props import c03_net as N
    seen = set()

    def fail(sig, desc, idx):
        if sig in seen:
            return
        seen.add(sig)
        n = sum(1 for f in ctx.failures if f["signature"] == sig)
        if n < 3:
            c = {k: v for k, v in case.items() if not k.startswith("_")}
            ctx.fail(sig, desc, {"history": c, "call": idx})

    if net.server_errors:
        fail("daemon-side-error", "the daemon raised while serving: %r" % (net.server_errors[0],), 0)
    prev = None
    for rec in recs:
        kind, tok, tag, idx = rec["kind"], rec["tok"], rec["tag"], rec["idx"]
        if tag in ("end", "stuck"):
            prev = None
            continue
        oneway = kind in "oB"
        budget = 1 + (retries if kind in "nxso" else 0)
        ident = N.content_identity(rec["value"], rec["exc"]) if tag in ("returned", "raised") else None
        inv = [m for m in rec["msgs"] if m["kind"] == "inv"]
        if tag == "error:StopIteration" and kind == "f":
            fail("stream-ended-locally", "stream fetch %d (f%d) raised StopIteration%s although the remote stream never ends: the "
                 "iterator was turned into an exhausted one" % (idx, tok, " without sending a request" if not rec["processed"] else ""), idx)
        elif tag.startswith("error:"):
            fail("non-comm-error", "call %d (%s%d) raised %r, neither its own reply nor a communication error" % (idx, kind, tok, rec["exc"]), idx)
        elif tag in ("returned", "raised") and not oneway:
            # (1) own reply: by content, and by the origin of the message the proxy consumed
            own_kind = {"n": "n", "x": "x", "s": "s", "b": "b", "g": "g", "f": "f", "t": None}[kind]
            origin = inv[-1] if inv else None
            foreign = None
            if kind == "t":
                if ident is not None:
                    foreign = "an attribute write returned %r" % (rec["value"],)
            elif ident is not None and ident[0] == "?" and tag == "raised" and origin is not None and origin["call"] == idx:
                # the daemon answered this very request with an error that the called method did not raise
                fail("stream-lost" if kind == "f" else "unexpected-remote-error",
                     "call %d (%s%d) was answered with %s instead of its result%s"
                     % (idx, kind, tok, ident[1], " (the stream it fetches from was discarded by the daemon)" if kind == "f" else ""), idx)
            elif ident != (own_kind, tok):
                foreign = "got the content of %r" % (ident,)
            if foreign is None and (origin is None or origin["call"] != idx):
                foreign = "consumed a reply that was produced for call %r" % (origin and origin["call"],)
            if foreign:
                age = (rec["sends"] - origin["send"]) if origin else -1
                sig = "seq-alias-65536" if (age > 0 and age % 65536 == 0) else "foreign-reply"
                fail(sig, "call %d (%s%d) returned a reply that is not its own: %s (reply is %d INVOKE sends old)"
                     % (idx, kind, tok, foreign, age), idx)
            # (2) a call that returns has run its method exactly once
            if rec["delta"] != 1:
                if rec["delta"] >= 2 and retries >= 1 and kind in "nxs":
                    fail("retry-reexecutes", "MAX_RETRIES=%d: call %d (%s%d) returned after its method ran %d times "
                         "(an attempt whose request was processed failed and was re-sent)" % (retries, idx, kind, tok, rec["delta"]), idx)
                else:
                    fail("exec-count", "call %d (%s%d) returned but its method ran %d times" % (idx, kind, tok, rec["delta"]), idx)
            if kind in "bB" and rec["subcounts"] != [rec["delta"]]:
                fail("exec-count", "batch %d: sub-calls ran %r times" % (idx, rec["subcounts"]), idx)
        elif tag in ("returned", "raised") and oneway:
            # (3) oneway: None, nothing consumed, executed once iff delivered, never more
            if tag == "raised" or rec["value"] is not None:
                fail("oneway-result", "oneway call %d returned %r / raised %r" % (idx, rec["value"], rec["exc"]), idx)
            if inv:
                fail("oneway-consumed", "oneway call %d consumed a reply message" % idx, idx)
            if rec["delta"] != 1 or rec["processed"] != 1:
                fail("oneway-exec", "oneway call %d returned; request delivered %d times, method ran %d times" % (idx, rec["processed"], rec["delta"]), idx)
        else:
            # failed
            if tag not in FAIL_TAGS:
                fail("non-comm-error", "call %d (%s%d) ended with %s" % (idx, kind, tok, tag), idx)
            if oneway and rec["delta"] > 1:
                fail("oneway-exec", "oneway call %d failed after its method ran %d times" % (idx, rec["delta"]), idx)
            if rec["delta"] > budget:
                fail("exec-bound", "call %d (%s%d) failed after its method ran %d times (allowed: %d)" % (idx, kind, tok, rec["delta"], budget), idx)
        if rec["delta"] > budget and tag in ("returned", "raised"):
            fail("exec-bound", "call %d (%s%d): method ran %d times (allowed: %d)" % (idx, kind, tok, rec["delta"], budget), idx)
        # (4) no call runs another call's method (again)
        if rec["foreign_execs"] != 0:
            fail("other-call-executed", "during call %d (%s%d) the server ran %d method execution(s) that belong to other calls"
                 % (idx, kind, tok, rec["foreign_execs"]), idx)
        # (5) recovery: after a call failed with a communication error, the next call (any kind but a stream fetch, whose
        #     iterator is bound to the lost connection by design) is served correctly when the transport is healthy, i.e.
        #     when the next two events of the script at the start of the call (handshake, request) are both `delivered`.
        #     (C03_recovers: script ok :: ok :: s.)  The call need not have consumed them: failing without even trying
        #     the healthy transport is the failure looked for.
        if prev is not None and prev["tag"] in COMM_FAIL_TAGS and kind != "f" and len(rec["upcoming"]) == 2 \
                and all(e[0] == "ok" for e in rec["upcoming"]):
            good = (tag in ("returned", "raised")) and (oneway or (inv and inv[-1]["call"] == idx))
            if not good:
                fail("no-recovery", "call %d failed (%s); the next call %d (%s%d) over a healthy transport ended with %s "
                     "(proxy state before it: %s; %d script event(s) consumed)"
                     % (prev["idx"], prev["tag"], idx, kind, tok, tag, prev["state"], rec["consumed"]), idx)
        prev = rec


def run_cases(ctx, rig, cases, do_model, label):
    lines, reals, kept = [], [], []
    for case in cases:
        retries, seq0, calls, script = expand(case)
        recs, net = rig.history(retries, seq0, calls, script, **options(case))
        ctx.evaluations += 1
        real = ";".join(canon(r) for r in recs)
        check_history(ctx, case, recs, net, retries)
        # input distribution / non-triviality
        faults = [ev_str(e)[:2] for r in recs for e in r["events"]]
        for f in faults:
            ctx.count("ev:" + f)
        for r in recs:
            ctx.count("call:%s:%s" % (r["kind"], r["tag"].split(":")[0] if not r["tag"].startswith("fail") else r["tag"]))
        ctx.count("retries:%d" % retries)
        opt = options(case)
        ctx.count("global-retries:%s" % ("same" if opt["gretries"] in (None, retries) else "differs"))
        ctx.count("raw-wire-mode:%s" % opt["raw"])
        ctx.count("histories:" + label)
        if any(f != "ok" for f in faults) and any(r["tag"] in ("returned", "raised") for r in recs):
            cls = "0" if seq0 == 0 else ("w" if seq0 >= 65500 else "r")
            key = (retries, opt["gretries"], opt["raw"], cls, "".join(k for k, _ in calls[:len(recs)]),
                   ",".join(ev_str(e) for r in recs for e in r["events"]))
            if len(key[4]) <= 64:
                ctx.nontriv(key)
            else:
                ctx.nontriv(key[:4] + (len(calls), common.hash_str(key[5])))
        if len(calls) <= 5 and any(f not in ("ok",) for f in faults):
            ctx.sample({"line": model_line(retries, seq0, calls, script)[:300], "real": real[:300]})
        if do_model:
            lines.append(model_line(retries, seq0, calls, script))
            reals.append(real)
            kept.append(case)
    if do_model and lines:
        outs = common.run_driver("drv_c03", lines)
        ctx.corr_cases += len(lines)
        for case, l, r, m in zip(kept, lines, reals, outs):
            if r != m:
                rs, ms = r.split(";"), m.split(";")
                i = next((j for j in range(min(len(rs), len(ms))) if rs[j] != ms[j]), min(len(rs), len(ms)))
                c = {k: v for k, v in case.items() if not k.startswith("_")}
                if len(l) > 2000:
                    c = {"file": case.get("_file"), "retries": case["retries"], "seq0": case["seq0"]}
                ctx.mismatch("history", {"line": l if len(l) < 600 else l[:600] + "...", "case": c, "first_difference_at_call": i},
                             ";".join(rs[max(0, i - 1):i + 2])[:400], ";".join(ms[max(0, i - 1):i + 2])[:400])


def _with_rig(fn):
    from props import c03_net as N
    rig = N.Rig()
    try:
        return fn(rig)
    finally:
        rig.close()


def correspondence(ctx):
    def go(rig):
        corpus = corpus_cases()
        quick_corpus = [c for c in corpus if ctx.tier == "thorough" or not c.get("thorough_only")]
        run_cases(ctx, rig, quick_corpus, True, "corpus")
        run_cases(ctx, rig, systematic_cases(), True, "systematic")
        run_cases(ctx, rig, setup_cases(), True, "setup")
        rng = ctx.sub_rng("corr")
        run_cases(ctx, rig, [random_case(rng) for _ in range(ctx.n(1500, 40000))], True, "random")
        if ctx.tier == "thorough":
            run_cases(ctx, rig, [random_case(rng, big=True) for _ in range(60)], True, "random-long")
            run_cases(ctx, rig, [wrap_case(65536 - 20), wrap_case(2 * 65536 - 20, "nobBgtfxs")], True, "wrap-long")
    _with_rig(go)


def oracle(ctx):
    # step D runs inside run_cases on the same histories as step C.  In search mode: fresh, larger random part
    # plus the witnesses of the negative theorems (they are in the corpus and were replayed already).
    if ctx.search_mode:
        def go(rig):
            rng = ctx.sub_rng("search")
            run_cases(ctx, rig, corpus_cases(), False, "corpus")
            run_cases(ctx, rig, [random_case(rng) for _ in range(ctx.n(3000, 30000))], False, "search")
        _with_rig(go)


def replay(ctx, case):
    f = case.get("failing_input") or {}
    c = f.get("case")
    if not c:
        print("replay file names no failing input:", case.get("no_longer_checks"))
        return 1
    hist = c["history"]

    def go(rig):
        retries, seq0, calls, script = expand(hist)
        recs, net = rig.history(retries, seq0, calls, script, **options(hist))
        print("proxy._pyroMaxRetries=%d config.MAX_RETRIES=%r raw-wire-mode=%r" % (retries, hist.get("gretries", retries), bool(hist.get("raw"))))
        show = recs if len(recs) <= 60 else recs[:5] + recs[-5:]
        for r in show:
            print("call %d %s%d events=%s -> %s value=%r exc=%r ; method ran %d time(s); proxy %s seq=%d"
                  % (r["idx"], r["kind"], r["tok"], [ev_str(e) for e in r["events"]], r["tag"], r["value"], r["exc"], r["delta"], r["state"], r["seq"]))
        sub = common.Ctx(ID, ctx.tier, ctx.seed)
        check_history(sub, hist, recs, net, retries)
        for x in sub.failures:
            print("  property violated [%s]: %s" % (x["signature"], x["desc"]))
        hit = any(x["signature"] == f.get("signature") for x in sub.failures)
        print("VIOLATION reproduced" if hit else "not reproduced")
        return 1 if hit else 0
    return _with_rig(go)
