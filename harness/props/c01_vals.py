"""C01 helpers: Python value <-> canonical tree <-> driver tokens; the structure-aware value generator."""
import datetime
import decimal
import math
import struct
import uuid

NAN_BITS = 0x7ff8000000000000
NEG_ZERO = 0x8000000000000000
INF_BITS = 0x7ff0000000000000
NINF_BITS = 0xfff0000000000000
MAX_ORD = 3652059


class InstBase(object):
    """instances of generated user classes (module and class name chosen by the generator)"""


_classes = {}


def make_inst(clsname, fields):
    module, _, name = clsname.rpartition(".")
    cls = _classes.get(clsname)
    if cls is None:
        cls = type(name, (InstBase,), {"__module__": module})
        _classes[clsname] = cls
    o = cls()
    o.__dict__.update(fields)
    return o


def fbits(f):
    if f != f:
        return NAN_BITS
    return struct.unpack("<Q", struct.pack("<d", f))[0]


def from_bits(b):
    return struct.unpack("<d", struct.pack("<Q", b))[0]


class Unsupported(Exception):
    pass


def tree(v):
    """canonical tree of a Python value, containers in iteration order (model input)"""
    try:
        import msgpack
        ext = msgpack.ExtType
    except ImportError:     # pragma: no cover
        ext = ()
    t = type(v)
    if v is None:
        return ("N",)
    if t is bool:
        return ("T",) if v else ("F",)
    if t is int:
        return ("I", v)
    if t is float:
        return ("D", fbits(v))
    if t is str:
        return ("S", v)
    if t is bytes:
        return ("B", v)
    if t is bytearray:
        return ("Y", bytes(v))
    if ext and t is ext:
        return ("X", v.code, bytes(v.data))
    if t is list:
        return ("L", [tree(x) for x in v])
    if t is tuple:
        return ("U", [tree(x) for x in v])
    if t is set:
        return ("E", [tree(x) for x in v])
    if t is frozenset:
        return ("Z", [tree(x) for x in v])
    if t is dict:
        return ("M", [(tree(k), tree(x)) for k, x in v.items()])
    if t is complex:
        return ("C", fbits(v.real), fbits(v.imag))
    if t is uuid.UUID:
        return ("G", str(v))
    if t is decimal.Decimal:
        return ("Q", str(v))
    if t is datetime.date:
        return ("A", v.toordinal())
    if t is datetime.datetime:
        return ("DT", v.isoformat())      # Python-only (never sent to the model)
    if isinstance(v, InstBase):
        return ("O", t.__module__ + "." + t.__name__, [(tree(k), tree(x)) for k, x in vars(v).items()])
    raise Unsupported(repr(t))


def _sorted_items(items):
    """dict items in a canonical order: by the key's repr; by the whole item's repr only if two normalised keys coincide
    (the value's repr is not computed otherwise: deeply nested values would make that quadratic)"""
    if len(items) <= 1:
        return tuple(items)
    keys = [repr(a) for a, _ in items]
    if len(set(keys)) == len(keys):
        return tuple(x for _, x in sorted(zip(keys, items), key=lambda p: p[0]))
    return tuple(sorted(items, key=repr))


def norm(tr, loose_complex=False):
    """order-insensitive form: set elements and dict items sorted"""
    k = tr[0]
    if k in ("L", "U"):
        return (k, tuple(norm(x, loose_complex) for x in tr[1]))
    if k in ("E", "Z"):
        return (k, tuple(sorted((norm(x, loose_complex) for x in tr[1]), key=repr)))
    if k == "M":
        return (k, _sorted_items([(norm(a, loose_complex), norm(b, loose_complex)) for a, b in tr[1]]))
    if k == "O":
        return (k, tr[1], _sorted_items([(norm(a, loose_complex), norm(b, loose_complex)) for a, b in tr[2]]))
    if k == "C" and loose_complex:
        return (k, 0 if tr[1] == NEG_ZERO else tr[1], 0 if tr[2] == NEG_ZERO else tr[2])
    return tuple(tr)


def cps(s):
    return ",".join(str(ord(c)) for c in s) if s else "-"


def hx(b):
    return bytes(b).hex() if b else "-"


def tokens(tr, out=None):
    """driver tokens of a tree"""
    if out is None:
        out = []
    k = tr[0]
    if k in ("N", "T", "F"):
        out.append(k)
    elif k == "I":
        out.append("I%d" % tr[1])
    elif k == "D":
        out.append("D%d" % tr[1])
    elif k == "S":
        out.append("S" + cps(tr[1]))
    elif k in ("B", "Y"):
        out.append(k + hx(tr[1]))
    elif k in ("L", "U", "E", "Z"):
        out.append("%s%d" % (k, len(tr[1])))
        for x in tr[1]:
            tokens(x, out)
    elif k == "M":
        out.append("M%d" % len(tr[1]))
        for a, b in tr[1]:
            tokens(a, out)
            tokens(b, out)
    elif k == "C":
        out.append("C%d/%d" % (tr[1], tr[2]))
    elif k in ("G", "Q"):
        out.append(k + cps(tr[1]))
    elif k == "A":
        out.append("A%d" % tr[1])
    elif k == "X":
        out.append("X%d/%s" % (tr[1], hx(tr[2])))
    elif k == "O":
        out.append("O%s/%d" % (cps(tr[1]), len(tr[2])))
        for a, b in tr[2]:
            tokens(a, out)
            tokens(b, out)
    else:
        raise Unsupported(k)
    return out


def _uncps(s):
    return "" if s == "-" else "".join(chr(int(c)) for c in s.split(","))


def _unhx(s):
    return b"" if s == "-" else bytes.fromhex(s)


def parse(toks, i=0):
    """tokens -> (tree, next index)"""
    t = toks[i]
    k, body = t[0], t[1:]
    i += 1
    if k in ("N", "T", "F"):
        return (k,), i
    if k in ("I", "D", "A"):
        return (k, int(body)), i
    if k in ("S", "G", "Q"):
        return (k, _uncps(body)), i
    if k in ("B", "Y"):
        return (k, _unhx(body)), i
    if k in ("L", "U", "E", "Z"):
        xs = []
        for _ in range(int(body)):
            x, i = parse(toks, i)
            xs.append(x)
        return (k, xs), i
    if k == "M":
        xs = []
        for _ in range(int(body)):
            a, i = parse(toks, i)
            b, i = parse(toks, i)
            xs.append((a, b))
        return (k, xs), i
    if k == "C":
        a, b = body.split("/")
        return (k, int(a), int(b)), i
    if k == "X":
        a, b = body.split("/")
        return (k, int(a), _unhx(b)), i
    if k == "O":
        a, b = body.split("/")
        xs = []
        for _ in range(int(b)):
            x, i = parse(toks, i)
            y, i = parse(toks, i)
            xs.append((x, y))
        return (k, _uncps(a), xs), i
    raise Unsupported(t)


def untree(tr):
    """tree -> Python value (for corpus witnesses / replays)"""
    import msgpack
    k = tr[0]
    if k == "N":
        return None
    if k in ("T", "F"):
        return k == "T"
    if k == "I":
        return int(tr[1])
    if k == "D":
        return from_bits(tr[1])
    if k == "S":
        return tr[1]
    if k == "B":
        return bytes(tr[1])
    if k == "Y":
        return bytearray(tr[1])
    if k == "L":
        return [untree(x) for x in tr[1]]
    if k == "U":
        return tuple(untree(x) for x in tr[1])
    if k == "E":
        return {untree(x) for x in tr[1]}
    if k == "Z":
        return frozenset(untree(x) for x in tr[1])
    if k == "M":
        return {untree(a): untree(b) for a, b in tr[1]}
    if k == "C":
        return complex(from_bits(tr[1]), from_bits(tr[2]))
    if k == "G":
        return uuid.UUID(tr[1])
    if k == "Q":
        return decimal.Decimal(tr[1])
    if k == "A":
        return datetime.date.fromordinal(tr[1])
    if k == "X":
        return msgpack.ExtType(tr[1], tr[2])
    if k == "O":
        return make_inst(tr[1], {untree(a): untree(b) for a, b in tr[2]})
    raise Unsupported(k)


def contains(tr, pred):
    if pred(tr):
        return True
    k = tr[0]
    if k in ("L", "U", "E", "Z"):
        return any(contains(x, pred) for x in tr[1])
    if k == "M":
        return any(contains(a, pred) or contains(b, pred) for a, b in tr[1])
    if k == "O":
        return any(contains(a, pred) or contains(b, pred) for a, b in tr[2])
    return False


def is_lossless(tr):
    """the lossless core of the property statement"""
    k = tr[0]
    if k in ("N", "T", "F", "I", "D", "S"):
        return True
    if k == "L":
        return all(is_lossless(x) for x in tr[1])
    if k == "M":
        return all(a[0] == "S" and a[1] != "__class__" and is_lossless(b) for a, b in tr[1])
    return False


def oom_expected(ser, tr):
    """inputs the model declares outside its domain (float arithmetic / float repr inside the codec)"""
    def finite_float_key(t):
        return t[0] == "M" and any(a[0] == "D" and a[1] not in (NAN_BITS, INF_BITS, NINF_BITS) for a, _ in t[1])

    def negzero_complex(t):
        return t[0] == "C" and (t[1] == NEG_ZERO or t[2] == NEG_ZERO)
    if ser == "json" and contains(tr, finite_float_key):
        return True
    if ser == "serpent" and contains(tr, negzero_complex):
        return True
    return False


# ------------------------------------------------------------------------------------------------
# generator
# ------------------------------------------------------------------------------------------------
TEXTS = ["", "a", "k", "héllo", "\x00", "a\x00b", "\U0001F600", "日本語", " x", "'quote\"", "back\\slash", "\n\t\r",
         "__class__x", "_class_", "__class_", "class", "__exception__", "object", "params", "kwargs", "data", "encoding",
         "\x7f\x80\xff", "퟿", "\U0010ffff", "nan", "value", "state"]
CLASSNAMES = ["x.Y", "verifmod.Pt", "a__b.C", "pkg.sub.Thing", "float", "complex", "builtins.object"]
FLOATS = [0.0, -0.0, 1.5, -2.25, 1e308, -1e308, 5e-324, 2.2250738585072014e-308, 0.1, 1 / 3, 1e16, 123456789.125,
          float("inf"), float("-inf"), float("nan")]
INTS = [0, 1, -1, 7, 255, 256, -128, 2 ** 31 - 1, 2 ** 31, -2 ** 31, 2 ** 32, 2 ** 53, 2 ** 53 + 1, 2 ** 63 - 1, 2 ** 63,
        -2 ** 63, -2 ** 63 - 1, 2 ** 64 - 1, 2 ** 64, 2 ** 70, -2 ** 70, 10 ** 40, -10 ** 40, 2 ** 200, 2 ** 2000, -2 ** 2000 + 1]


def gen_text(rng):
    r = rng.random()
    if r < 0.45:
        return rng.choice(TEXTS)
    if r < 0.8:
        return "".join(rng.choice("abcxyz019 _-.é\x00€😀") for _ in range(rng.randint(0, 12)))
    n = rng.choice([1, 2, 40, 90, 99, 100, 101, 110, 300])
    out = []
    while len(out) < n:
        c = rng.choice([rng.randint(0, 0x7f), rng.randint(0x80, 0x7ff), rng.randint(0x800, 0xffff), rng.randint(0x10000, 0x10ffff)])
        if 0xd800 <= c <= 0xdfff:
            continue
        out.append(chr(c))
    return "".join(out)


def gen_int(rng):
    r = rng.random()
    if r < 0.5:
        return rng.choice(INTS)
    if r < 0.8:
        return rng.randint(-1000, 1000)
    b = rng.choice([62, 63, 64, 65, 128, 777, 2000])
    z = rng.getrandbits(b)
    return -z if rng.random() < 0.5 else z


def gen_float(rng):
    if rng.random() < 0.6:
        return rng.choice(FLOATS)
    f = from_bits(rng.getrandbits(64))
    if f != f:
        return float("nan")
    return f


def gen_date(rng):
    return datetime.date.fromordinal(rng.choice([1, 2, MAX_ORD, MAX_ORD - 1, 730120, 737426, 719163, 693596,
                                                  rng.randint(1, MAX_ORD), rng.randint(1, MAX_ORD)]))


def gen_decimal(rng):
    return decimal.Decimal(rng.choice(["0", "1.50", "-0", "1E+5", "NaN", "-Infinity", "3.14159265358979323846264338327950288",
                                       "0.000", "-12.5e-7", "123456789012345678901234567890"]))


def gen_uuid(rng):
    return uuid.UUID(int=rng.choice([0, 5, 2 ** 128 - 1, rng.getrandbits(128)]))


def gen_complex(rng, for_model):
    while True:
        c = complex(gen_float(rng), gen_float(rng))
        if for_model and rng.random() < 0.97 and (fbits(c.real) == NEG_ZERO or fbits(c.imag) == NEG_ZERO):
            continue
        return c


def gen_hashable(rng, depth, for_model):
    r = rng.random()
    if r < 0.3:
        return gen_text(rng)
    if r < 0.5:
        return gen_int(rng)
    if r < 0.56:
        return rng.random() < 0.5
    if r < 0.6:
        return None
    if r < 0.68:
        f = gen_float(rng)
        if for_model and rng.random() < 0.9 and f == f and abs(f) != float("inf"):
            return gen_int(rng)      # finite float keys are outside the model under json
        return f
    if r < 0.75:
        return bytes(rng.getrandbits(8) for _ in range(rng.choice([0, 1, 2, 3, 4, 7])))
    if r < 0.9 and depth > 0:
        return tuple(gen_hashable(rng, depth - 1, for_model) for _ in range(rng.choice([0, 1, 2, 3])))
    if r < 0.92 and depth > 0:
        return frozenset(gen_hashable(rng, depth - 1, for_model) for _ in range(rng.choice([0, 1, 2])))
    if r < 0.94:
        return gen_complex(rng, for_model)
    if r < 0.96:
        return gen_uuid(rng)
    if r < 0.98:
        return gen_decimal(rng)
    return gen_date(rng)


def gen_lossless(rng, depth):
    """a value of the lossless core: None, bool, int, float, valid text, list, str-keyed dict (no '__class__')"""
    r = rng.random()
    if depth <= 0 or r < 0.45:
        q = rng.random()
        if q < 0.1:
            return None
        if q < 0.2:
            return rng.random() < 0.5
        if q < 0.5:
            return gen_int(rng)
        if q < 0.7:
            return gen_float(rng)
        return gen_text(rng)
    if r < 0.75:
        return [gen_lossless(rng, depth - 1) for _ in range(rng.choice([0, 1, 2, 3, 5]))]
    d = {}
    for _ in range(rng.choice([0, 1, 2, 3, 4])):
        k = gen_text(rng)
        if k == "__class__":
            continue
        d[k] = gen_lossless(rng, depth - 1)
    return d


def gen_value(rng, depth, for_model=True):
    """a value of the generated domain of the property (quantifier text), incl. error-path shapes"""
    r = rng.random()
    if depth <= 0 or r < 0.4:
        q = rng.random()
        if q < 0.05:
            return None
        if q < 0.1:
            return rng.random() < 0.5
        if q < 0.28:
            return gen_int(rng)
        if q < 0.4:
            return gen_float(rng)
        if q < 0.58:
            return gen_text(rng)
        if q < 0.66:
            return bytes(rng.getrandbits(8) for _ in range(rng.choice([0, 1, 2, 3, 4, 5, 6, 30, 99, 120])))
        if q < 0.71:
            return bytearray(rng.getrandbits(8) for _ in range(rng.choice([0, 1, 3, 50])))
        if q < 0.79:
            return gen_complex(rng, for_model)
        if q < 0.85:
            return gen_uuid(rng)
        if q < 0.91:
            return gen_decimal(rng)
        return gen_date(rng)
    if r < 0.52:
        return [gen_value(rng, depth - 1, for_model) for _ in range(rng.choice([0, 1, 2, 3, 4]))]
    if r < 0.62:
        return tuple(gen_value(rng, depth - 1, for_model) for _ in range(rng.choice([0, 1, 2, 3])))
    if r < 0.70:
        return {gen_hashable(rng, 2, for_model) for _ in range(rng.choice([0, 1, 2, 3]))}
    if r < 0.74:
        return frozenset(gen_hashable(rng, 2, for_model) for _ in range(rng.choice([0, 1, 2])))
    if r < 0.93:
        d = {}
        q = rng.random()
        for _ in range(rng.choice([0, 1, 2, 3, 4])):
            if q < 0.7:
                k = gen_text(rng)
            else:
                k = gen_hashable(rng, 2, for_model)
            d[k] = gen_value(rng, depth - 1, for_model)
        if rng.random() < 0.08:
            d["__class__"] = rng.choice(CLASSNAMES)
            if d["__class__"] == "float" and rng.random() < 0.7:
                d["value"] = "nan"
        return d
    if r < 0.97:
        lossless = gen_lossless(rng, depth - 1)
        return lossless
    fields = {}
    for _ in range(rng.choice([0, 1, 2, 3])):
        fields[rng.choice(["x", "y", "name", "_p", "data", "items"])] = gen_value(rng, depth - 1, for_model)
    return make_inst(rng.choice(CLASSNAMES[:4]), fields)


DEEP_LEAVES = [float("nan"), float("inf"), -0.0, 2 ** 70, -1, "h\u00e9llo", "", None, True, [], {}, 1.5]
DEEP_LEAVES_ANY = [uuid.UUID(int=5), decimal.Decimal("2.50"), b"ab\xff", complex(1.5, 2.0), datetime.date(2020, 1, 2), (1, "a")]


def gen_deep(rng, lossless=True, max_depth=180):
    """(value, depth): a small leaf wrapped in `depth` containers (depth spread over 2..max_depth, every range of nesting
    a message can have - not only the 0..6 of the recursive generators).  lossless: lists and str-keyed dicts only."""
    depth = rng.choice([rng.randint(2, 20), rng.randint(20, 60), rng.randint(60, 100), rng.randint(100, 140),
                        rng.randint(140, max_depth)])
    depth = min(depth, max_depth)
    q = rng.random()
    if q < 0.5:
        v = rng.choice(DEEP_LEAVES)
    elif q < 0.8 or lossless:
        v = gen_lossless(rng, 1)
    else:
        v = rng.choice(DEEP_LEAVES_ANY)
    style = rng.choice(["list", "dict", "mixed", "mixed", "wide"] + ([] if lossless else ["tuple", "any"]))
    for i in range(depth):
        k = style
        if style == "mixed":
            k = rng.choice(["list", "dict"])
        elif style == "any":
            k = rng.choice(["list", "dict", "tuple"])
        elif style == "wide":
            k = rng.choice(["list2", "dict2"])
        if k == "list":
            v = [v]
        elif k == "tuple":
            v = (v,)
        elif k == "dict":
            v = {rng.choice(["k", "value", "x"]): v}
        elif k == "list2":
            v = [rng.choice(DEEP_LEAVES), v] if rng.random() < 0.5 else [v, rng.choice(DEEP_LEAVES)]
        else:
            v = {"a": rng.choice(DEEP_LEAVES), "k": v}
    return v, depth
