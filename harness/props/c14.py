"""C14 — the name server is a faithful map, identical on both storage back-ends.

Step C: generated histories are run on the real NameServer(MemoryStorage()), the real
NameServer(SqlStorage(file)) (through a fault-injecting stand-in for the sqlite3 module) and on the Lean
model (drv_c14, back-ends mem / sql / spec); canonical results are diffed token by token.
Step D: the same histories are judged on the real code alone against a plain Python dict (`Ref`), which is
the property statement written out; reopen points and statement failures are judged there too.
"""
import ast
import json
import os
import re
import shutil
import sqlite3 as real_sqlite3
import tempfile
import warnings

import common
from common import cps

ID = "C14"
LEAN_MODEL_TARGETS = ["drv_c14"]
LEAN_PROOF_TARGETS = ["PyroProps.C14", "PyroProps.C14Src"]
AUDIT_FILES = ["PyroModel/NameServer.lean", "PyroModel/Sql.lean", "PyroModel/Gen/C14.lean",
               "PyroProofs/NSLists.lean", "PyroProofs/NSRefine.lean", "PyroProofs/NSMem.lean",
               "PyroProofs/NSSql.lean", "PyroProps/C14.lean",
               "PyroModel/NsSrc.lean", "PyroModel/Gen/C14Src.lean", "PyroProps/C14Src.lean"]
THEOREMS = ["Pyro.C14.C14_mem_refines", "Pyro.C14.C14_sql_refines", "Pyro.C14.C14_backends_equal",
            "Pyro.C14.C14_counts", "Pyro.C14.C14_counts_mem", "Pyro.C14.C14_counts_sql", "Pyro.C14.C14_ns_protected",
            "Pyro.C14.C14_atomic", "Pyro.C14.C14_atomic_inv", "Pyro.C14.C14_reopen",
            "Pyro.C14.C14_fresh_empty", "Pyro.C14.C14_overlap_serial",
            "Pyro.C14.C14_literal_names", "Pyro.C14.C14_like_not_literal", "Pyro.C14.C14_meta_all_raw_differs",
            "Pyro.C14.C14_gen_sql", "Pyro.C14.C14_gen_cover", "Pyro.C14.C14_gen_texts", "Pyro.C14.C14_gen_schema",
            "Pyro.C14.C14_gen_nsname",
            # the transcription of NameServer's methods (harness/props/c14_tr.py -> Gen/C14Src.lean) = the model
            "Pyro.C14.C14_count_translated", "Pyro.C14.C14_lookup_translated", "Pyro.C14.C14_register_translated",
            "Pyro.C14.C14_setMeta_translated", "Pyro.C14.C14_list_translated", "Pyro.C14.C14_yplookup_translated",
            "Pyro.C14.C14_remove_translated", "Pyro.C14.C14_ns_translated",
            "Pyro.C14.C14_source_step_refines", "Pyro.C14.C14_source_mem_refines", "Pyro.C14.C14_source_sql_refines",
            "Pyro.C14.C14_source_backends_equal", "Pyro.C14.C14_source_atomic", "Pyro.C14.C14_source_counts",
            "Pyro.C14.C14_source_ns_protected", "Pyro.C14.C14_faulty_history", "Pyro.C14.C14_source_faulty_history"]
SUITES = ["mem", "default", "sql", "sql-faults", "spec", "like", "mem-src", "sql-src"]
RULE = ("histories of 4..30 operations (register safe/unsafe with tag lists incl. duplicates, set_metadata, lookup, "
        "remove by name/prefix/regex and combinations, list, yplookup all/any, count, reopen) over a per-history universe of "
        "confusable names (case pairs, '_' and '%' variants, regex metacharacters, non-ASCII, the empty string, the name "
        "server's own name), generated from VERIF_SEED; for sampled operations every statement index (and every explicit "
        "commit) is tried as a failure point; a history is non-trivial when on the real sqlite back-end some prefix / regex / "
        "metadata query or removal selected a non-empty proper subset of a map holding >= 2 entries; distinct = distinct "
        "operation-token sequence; every history is also run on a default-constructed NameServer() and a second NameServer() "
        "created afterwards must be empty and independent; overlap suite: for a table of call pairs (all kinds x mutating "
        "kinds on shared names) plus generated pairs, client B's call arrives at every storage access of client A's call "
        "(B runs until it returns or waits for the name server's lock), both back-ends; the outcome must be one of the two "
        "sequential orders on a plain map")
ASSUMPTIONS = [
    "sqlite executes each modelled statement with the relational meaning written in PyroModel/Sql.lean (validated by the sql suite)",
    "an exception inside `with sqlite3.connect(f) as db:` rolls the whole transaction back (sqlite's guarantee; exercised by fault injection)",
    "re.match and core.URI are deterministic functions of their text arguments (supplied to the model as tables)",
    "URI texts in the histories satisfy str(URI(t)) == t (checked when the pool is built; C19 covers the rest)",
    "names / tags are well-formed unicode without NUL and lone surrogates (sqlite cannot store those)",
    "crash points are statement-level failures; torn pages / power loss are sqlite's own guarantee",
]
TRUSTED = ["HookLock / hooked storage subclasses of the overlap suite (report accesses, otherwise delegate)",
           "the sqlite3 stand-in module (counts / fails execute and commit calls, otherwise delegates)",
           "Python `dict` reference map `Ref` in harness/props/c14.py (the property statement written out)"]

NS_NAME = "Pyro.NameServer"


# ----------------------------------------------------------------------------------------------------
# step A: extractor
# ----------------------------------------------------------------------------------------------------
def _lean_str(s):
    if not s.isascii():
        raise ValueError("non-ASCII text in an extracted fact: %r" % s)
    return json.dumps(s)  # JSON string syntax is valid Lean string syntax for ASCII text


def _norm_ws(s):
    return " ".join(s.split())


def _norm_sql(s):
    """whitespace collapsed; a parameter list `IN (?,?,?)` of any length written as the source template does"""
    return re.sub(r"IN \((?:\?\s*,\s*)*\?\)", "IN ({seq})", _norm_ws(s))


_SQL_HEAD = re.compile(r"\s*(SELECT|INSERT|DELETE|UPDATE|REPLACE|PRAGMA|CREATE|ALTER|DROP|VACUUM|BEGIN|COMMIT|ROLLBACK|ATTACH)\b", re.I)

U1, U2 = "PYRO:o@h:1", "PYRO:p@h:2"
# (kind, str arguments, wm, all): the calls made on the real SqlStorage, in this order, starting from an empty database.
# Every statement of every modelled method is executed by at least one of them (obligation C14_gen_cover), every
# `if` of those methods is taken both ways.
PROBES = [
    ("setItem", ["a_", U1, "t", "u"], False, False),
    ("setItem", ["ab", U1], False, False),
    ("setItem", ["AB", U1, "t"], False, False),
    ("getItem", ["a_"], False, False),
    ("getItem", ["zz"], False, False),
    ("setItem", ["a_", U2, "v"], False, False),          # overwrite: old row and its tags deleted, new rowid
    ("setItem", ["ab", U2], False, False),               # overwrite without tags
    ("len", [], False, False),
    ("contains", ["AB"], False, False),
    ("contains", ["ab_"], False, False),
    ("iter", [], False, False),
    ("optPrefix", ["a"], True, False),
    ("optPrefix", ["a_"], False, False),
    ("optPrefix", ["A%"], True, False),
    ("optRegex", ["a.*"], True, False),
    ("optMeta", ["t", "t", "v"], True, False),           # metadata_any, duplicate tag
    ("optMeta", ["v"], False, False),
    ("optMeta", ["t", "t"], True, True),                 # metadata_all, duplicate tag
    ("optMeta", ["v", "t", "v"], False, True),
    ("everything", [], True, False),
    ("everything", [], False, False),
    ("delItem", ["AB"], False, False),
    ("delItem", ["zz"], False, False),
    ("setItem", ["n3", U1, "x"], False, False),          # reuses the rowid freed by the deletion above
    ("removeItems", ["ab", "zz", "a_"], False, False),
    ("everything", [], True, False),
]


def _probe_call(st, kind, strs, wm, all_):
    try:
        if kind == "getItem":
            return st[strs[0]]
        if kind == "setItem":
            st[strs[0]] = (strs[1], set(strs[2:]) or None)
        elif kind == "len":
            return len(st)
        elif kind == "contains":
            return strs[0] in st
        elif kind == "delItem":
            del st[strs[0]]
        elif kind == "iter":
            return list(iter(st))
        elif kind == "optPrefix":
            return st.optimized_prefix_list(strs[0], wm)
        elif kind == "optRegex":
            return st.optimized_regex_list(strs[0], wm)
        elif kind == "optMeta":
            if all_:
                return st.optimized_metadata_search(metadata_all=list(strs), return_metadata=wm)
            return st.optimized_metadata_search(metadata_any=list(strs), return_metadata=wm)
        elif kind == "removeItems":
            st.remove_items(list(strs))
        elif kind == "everything":
            return st.everything(wm)
        else:
            raise ValueError(kind)
    except KeyError:
        return None


def _lean_events(events):
    def arg(a):
        if isinstance(a, bool) or not isinstance(a, (int, str)):
            raise ValueError("statement parameter of unexpected type: %r" % (a,))
        return ".inl %d" % a if isinstance(a, int) else ".inr %s" % [ord(c) for c in a]
    return "[" + ", ".join("(%s, [%s])" % (_lean_str(t), ", ".join(arg(a) for a in ps)) for t, ps in events) + "]"


def extract():
    """
    Facts are obtained by running the real code, not by reading its shape: the statements (text, parameter values,
    connection discipline) that every SqlStorage method really executes on a fixed table of calls, the schema sqlite
    reports, what reopening executes.  One fact is lexical: the set of SQL texts occurring anywhere in the module.
    """
    common.repo_on_path()
    from Pyro5 import nameserver, core
    faults = Faults()
    old = nameserver.sqlite3
    base = "/dev/shm" if os.path.isdir("/dev/shm") and os.access("/dev/shm", os.W_OK) else None
    tmp = tempfile.mkdtemp(prefix="verif-c14x-", dir=base)
    nameserver.sqlite3 = SqliteShim(faults)
    try:
        path = os.path.join(tmp, "probe.sqlite")
        st = nameserver.SqlStorage(path)
        db = real_sqlite3.connect(path)
        schema = [_norm_ws(r[0]) for r in db.execute("SELECT sql FROM sqlite_master WHERE type='table' ORDER BY name").fetchall()]
        db.close()
        rows = []
        for kind, strs, wm, all_ in PROBES:
            faults.reset()
            _probe_call(st, kind, strs, wm, all_)
            ev = [(_norm_sql(t), list(ps)) for t, ps in faults.events]
            rows.append("  (%s, %s, %s, %s, %s)" % (_lean_str(kind), [[ord(c) for c in x] for x in strs], str(bool(wm)).lower(),
                                                   str(bool(all_)).lower(), "none" if not ev else "some " + _lean_events(ev)))
        faults.reset()
        before = sorted(real_sqlite3.connect(path).execute("SELECT id, name, uri FROM pyro_names").fetchall())
        nameserver.SqlStorage(path)
        reopen = [_norm_sql(t) for t, _ in faults.events]
        faults.reset()
        after = sorted(real_sqlite3.connect(path).execute("SELECT id, name, uri FROM pyro_names").fetchall())
        reopen_same = before == after
    finally:
        nameserver.sqlite3 = old
        shutil.rmtree(tmp, ignore_errors=True)
    # lexical: every SQL text that occurs as a string constant anywhere in the module
    tree = ast.parse(open(nameserver.__file__).read())
    docstrings = set()
    for n in ast.walk(tree):
        if isinstance(n, (ast.Module, ast.ClassDef, ast.FunctionDef, ast.AsyncFunctionDef)) and n.body \
                and isinstance(n.body[0], ast.Expr) and isinstance(n.body[0].value, ast.Constant):
            docstrings.add(id(n.body[0].value))
    texts = sorted({_norm_ws(n.value) for n in ast.walk(tree)
                    if isinstance(n, ast.Constant) and isinstance(n.value, str) and id(n) not in docstrings
                    and _SQL_HEAD.match(n.value)})

    def lst(xs):
        return "[" + ", ".join(_lean_str(x) for x in xs) + "]"

    probe_rows = (",%s" % chr(10)).join(rows)
    text = f"""-- GENERATED by harness/props/c14.py by running {os.path.relpath(nameserver.__file__, common.REPO)} — do not edit
namespace Pyro.Gen.C14
/-- code points of core.NAMESERVER_NAME -/
def nsName : List Nat := {[ord(c) for c in core.NAMESERVER_NAME]}
/-- (method, str arguments, return_metadata, metadata_all?, what the real SqlStorage executed for that call:
    `none` = no connection opened; else "CONNECT" (with any non-default connect arguments), each statement (text with
    whitespace collapsed and `IN (?,..)` written `IN ({{seq}})`; parameter values), "COMMIT" per explicit commit(),
    "EXIT" when the connection's `with` block ends).  The calls were made in this order on one database file. -/
def probes : List (String × List (List Nat) × Bool × Bool × Option (List (String × List (Nat ⊕ List Nat)))) := [
{probe_rows}]
/-- what sqlite reports as the schema of a database created by SqlStorage (tables by name) -/
def schema : List String := {lst(schema)}
/-- what `SqlStorage(dbfile)` executes on an existing database, and whether pyro_names was left as it was -/
def reopenTrace : List String := {lst(reopen)}
def reopenKeepsRows : Bool := {str(reopen_same).lower()}
/-- every SQL text occurring as a string constant anywhere in nameserver.py (whitespace collapsed, sorted) -/
def sqlTexts : List String := {lst(texts)}
end Pyro.Gen.C14
"""
    # the NameServer methods themselves, transcribed statement by statement (shallow embedding over the model's
    # storage interface); PyroProps/C14Src.lean proves the transcription equal to the hand-written model
    from props import c14_tr
    gen = os.path.join(common.LEAN, "PyroModel", "Gen")
    try:
        src = c14_tr.translate(nameserver)
    except c14_tr.Untranslatable:
        # keep the probed facts current, leave the last transcription in place, report the tie as broken
        common.write_if_changed(os.path.join(gen, "C14.lean"), text)
        raise
    common.write_if_changed(os.path.join(gen, "C14Src.lean"), src)
    return text


# ----------------------------------------------------------------------------------------------------
# stand-in for the sqlite3 module inside Pyro5.nameserver (fault injection + statement counting)
# ----------------------------------------------------------------------------------------------------
class Faults:
    def __init__(self):
        self.reset()

    def reset(self):
        self.count = 0          # statements (execute / explicit commit) seen since reset
        self.fail_at = None     # index of the statement that raises
        self.after = False      # raise after really executing it (statement had its effect, then the error)
        self.fired = False
        self.events = []        # (text, parameters) of every statement; markers CONNECT / COMMIT / EXIT

    def hit(self, text, params=()):
        i = self.count
        self.count += 1
        self.events.append((text, tuple(params)))
        return self.fail_at is not None and i == self.fail_at

    def mark(self, text):
        self.events.append((text, ()))


class _Cursor:
    def __init__(self, cur, faults):
        self._cur = cur
        self._f = faults

    def execute(self, sql, *args):
        fire = self._f.hit(sql, args[0] if args else ())
        if fire and not self._f.after:
            self._f.fired = True
            raise real_sqlite3.OperationalError("injected failure")
        r = self._cur.execute(sql, *args)
        if fire:
            self._f.fired = True
            raise real_sqlite3.OperationalError("injected failure")
        return r

    def __getattr__(self, name):
        return getattr(self._cur, name)


class _Conn:
    def __init__(self, conn, faults):
        self._conn = conn
        self._f = faults

    def execute(self, sql, *args):
        fire = self._f.hit(sql, args[0] if args else ())
        if fire and not self._f.after:
            self._f.fired = True
            raise real_sqlite3.OperationalError("injected failure")
        r = self._conn.execute(sql, *args)
        if fire:
            self._f.fired = True
            raise real_sqlite3.OperationalError("injected failure")
        return r

    def cursor(self):
        return _Cursor(self._conn.cursor(), self._f)

    def commit(self):
        if self._f.hit("COMMIT"):
            self._f.fired = True
            raise real_sqlite3.OperationalError("injected failure")
        return self._conn.commit()

    def __enter__(self):
        self._conn.__enter__()
        return self

    def __exit__(self, *exc):
        self._f.mark("EXIT")
        try:
            return self._conn.__exit__(*exc)
        finally:
            self._conn.close()

    def __getattr__(self, name):
        return getattr(self._conn, name)


class SqliteShim:
    """looks like the sqlite3 module to Pyro5.nameserver"""

    def __init__(self, faults):
        self.faults = faults

    def connect(self, *a, **kw):
        extra = list(a[1:]) + ["%s=%r" % kv for kv in sorted(kw.items())]
        self.faults.mark("CONNECT" + "".join(" " + str(x) for x in extra))
        return _Conn(real_sqlite3.connect(*a, **kw), self.faults)

    def __getattr__(self, name):
        return getattr(real_sqlite3, name)


# ----------------------------------------------------------------------------------------------------
# operations: JSON-able dicts <-> driver tokens <-> calls on the real name server
# ----------------------------------------------------------------------------------------------------
def t_str(s):
    return cps(s)


def t_opt(s):
    return "~" if s is None else cps(s)


def t_meta(m):
    if m is None:
        return "~"
    if "S" in m:
        return "S1" if m["S"] else "S0"
    return "L" + "/".join(cps(t) for t in m["L"])


def py_meta(m):
    if m is None:
        return None
    if "S" in m:
        return m["S"]
    return list(m["L"])


def tok(op):
    k = op["k"]
    if k == "count":
        t = "count"
    elif k == "look":
        t = "look:%s:%d" % (t_str(op["name"]), op["wm"])
    elif k == "reg":
        t = "reg:%s:%s:%d:%s" % (t_str(op["name"]), t_str(op["uri"]), op["safe"], t_meta(op["meta"]))
    elif k == "setm":
        t = "setm:%s:%s" % (t_str(op["name"]), t_meta(op["meta"]))
    elif k == "rm":
        t = "rm:%s:%s:%s" % (t_opt(op["name"]), t_opt(op["prefix"]), t_opt(op["regex"]))
    elif k == "list":
        t = "list:%s:%s:%d" % (t_opt(op["prefix"]), t_opt(op["regex"]), op["wm"])
    elif k == "yp":
        t = "yp:%s:%s:%d" % (t_meta(op["all"]), t_meta(op["any"]), op["wm"])
    elif k == "reopen":
        t = "reopen"
    else:
        raise ValueError(k)
    return t


def show_tags(tags):
    tags = sorted(tags)
    return "/".join(cps(t) for t in tags) if tags else "~"


def show_listing(d):
    """d: name -> uri text | (uri text, tag collection)"""
    if not d:
        return "d~"
    out = []
    for name in sorted(d):
        v = d[name]
        if isinstance(v, str):
            out.append("%s>%s>~" % (cps(name), cps(v)))
        else:
            out.append("%s>%s>%s" % (cps(name), cps(v[0]), show_tags(v[1])))
    return "d" + ";".join(out)


def _unc(t):
    return "" if t == "-" else "".join(chr(int(x)) for x in t.split(","))


def pretty(token):
    """result token -> readable text (for messages only)"""
    try:
        if token in ("N", "R") or token.startswith("E"):
            return {"N": "None", "R": "reopened"}.get(token, token[1:] + " error")
        if token.startswith("n"):
            return token[1:]
        if token.startswith("u"):
            return repr(_unc(token[1:]))
        tags = lambda t: "{}" if t == "~" else "{" + ", ".join(repr(_unc(x)) for x in t.split("/")) + "}"
        if token.startswith("m"):
            u, t = token[1:].split("|")
            return "(%r, %s)" % (_unc(u), tags(t))
        if token == "d~":
            return "{}"
        if token.startswith("d"):
            out = []
            for ent in token[1:].split(";"):
                n, u, t = ent.split(">")
                out.append("%r: %s" % (_unc(n), repr(_unc(u)) if t == "~" else "(%r, %s)" % (_unc(u), tags(t))))
            return "{" + ", ".join(out) + "}"
    except Exception:
        pass
    return token


def call_real(ns, op, errors):
    """run one operation on a real NameServer; canonical result token"""
    k = op["k"]
    try:
        if k == "count":
            return "n%d" % ns.count()
        if k == "look":
            r = ns.lookup(op["name"], return_metadata=bool(op["wm"]))
            if op["wm"]:
                return "m%s|%s" % (cps(str(r[0])), show_tags(r[1]))
            return "u" + cps(str(r))
        if k == "reg":
            r = ns.register(op["name"], op["uri"], safe=bool(op["safe"]), metadata=py_meta(op["meta"]))
            return "N" if r is None else "?%r" % (r,)
        if k == "setm":
            r = ns.set_metadata(op["name"], py_meta(op["meta"]))
            return "N" if r is None else "?%r" % (r,)
        if k == "rm":
            return "n%d" % ns.remove(name=op["name"], prefix=op["prefix"], regex=op["regex"])
        if k == "list":
            return show_listing(ns.list(prefix=op["prefix"], regex=op["regex"], return_metadata=bool(op["wm"])))
        if k == "yp":
            return show_listing(ns.yplookup(meta_all=py_meta(op["all"]), meta_any=py_meta(op["any"]), return_metadata=bool(op["wm"])))
        raise ValueError(k)
    except errors.NamingError as x:
        return "Estorage" if str(x).startswith("sqlite error in ") else "Enaming"
    except errors.PyroError as x:
        return "Epyro" if type(x) is errors.PyroError else "Eother:" + type(x).__name__
    except TypeError:
        return "Etype"
    except ValueError:
        return "Evalue"
    except KeyError:
        return "Ekey"
    except Exception as x:   # anything else never equals a model token
        return "Eother:" + type(x).__name__


class Ref:
    """The property statement written out: a plain map name -> (uri text, frozenset of tags)."""

    def __init__(self, core):
        self.m = {}
        self.core = core

    @staticmethod
    def _tags(meta):
        return frozenset(meta["L"]) if meta is not None and "L" in meta else frozenset()

    @staticmethod
    def _truthy(meta):
        return meta is not None and bool(meta.get("S") if "S" in meta else meta["L"])

    def _uri_ok(self, text):
        try:
            self.core.URI(text)
            return True
        except Exception:
            return False

    def _select(self, pred, wm):
        return show_listing({n: ((u, t) if wm else u) for n, (u, t) in self.m.items() if pred(n, t)})

    def apply(self, op):
        k, m = op["k"], self.m
        if k == "count":
            return "n%d" % len(m)
        if k == "look":
            if op["name"] not in m:
                return "Enaming"
            u, t = m[op["name"]]
            if not self._uri_ok(u):
                return "Epyro"
            return ("m%s|%s" % (cps(u), show_tags(t))) if op["wm"] else "u" + cps(u)
        if k == "reg":
            if not self._uri_ok(op["uri"]):
                return "Epyro"
            if op["meta"] is not None and "S" in op["meta"]:
                return "Etype"
            if op["safe"] and op["name"] in m:
                return "Enaming"
            m[op["name"]] = (op["uri"], self._tags(op["meta"]))
            return "N"
        if k == "setm":
            if op["meta"] is not None and "S" in op["meta"]:
                return "Etype"
            if op["name"] not in m:
                return "Enaming"
            m[op["name"]] = (m[op["name"]][0], self._tags(op["meta"]))
            return "N"
        if k == "rm":
            name, prefix, regex = op["name"], op["prefix"], op["regex"]
            if name and name in m and name != NS_NAME:
                del m[name]
                return "n1"
            if prefix:
                victims = [n for n in m if n.startswith(prefix) and n != NS_NAME]
            elif regex:
                try:
                    rx = re.compile(regex)
                except re.error:
                    return "Enaming"
                victims = [n for n in m if rx.match(n) and n != NS_NAME]
            else:
                victims = []
            for n in victims:
                del m[n]
            return "n%d" % len(victims)
        if k == "list":
            prefix, regex, wm = op["prefix"], op["regex"], op["wm"]
            if prefix and regex:
                return "Evalue"
            if prefix:
                return self._select(lambda n, t: n.startswith(prefix), wm)
            if regex:
                try:
                    rx = re.compile(regex)
                except re.error:
                    return "Enaming"
                return self._select(lambda n, t: rx.match(n) is not None, wm)
            return self._select(lambda n, t: True, wm)
        if k == "yp":
            a, b, wm = op["all"], op["any"], op["wm"]
            if self._truthy(a) and self._truthy(b):
                return "Evalue"
            if self._truthy(a):
                if "S" in a:
                    return "Etype"
                want = self._tags(a)
                return self._select(lambda n, t: want <= t, wm)
            if self._truthy(b):
                if "S" in b:
                    return "Etype"
                want = self._tags(b)
                return self._select(lambda n, t: bool(want & t), wm)
            return "d~"
        raise ValueError(k)

    def snapshot(self):
        return show_listing(dict(self.m)) + " n%d" % len(self.m)


EMPTY_SNAPSHOT = "d~ n0"


def real_snapshot(ns):
    return show_listing(ns.list(return_metadata=True)) + " n%d" % ns.count()


# ----------------------------------------------------------------------------------------------------
# generator
# ----------------------------------------------------------------------------------------------------
FRAGS = ["a", "A", "b", "B", "ab", "AB", "Ab", "a_", "a%", "_", "%", "x", "X", "é", "É", "ß", "Ω", "ω", "日本", "😀",
         ".", "*", "(", ")", "[", "]", "\\", "^", "$", "+", "?", "|", " ", "'", "\"", "-", ",", ";", "=", "/", ":", "@", "~",
         "test.", "Test.", "Pyro.", "pyro.", "Pyro", "NameServer", "0", "1", "\n", "\t"]
TAGS = ["t", "T", "t_", "t%", "%", "_", "", "é", "É", "x y", "a", "b", "c", "class:Pyro5.nameserver.NameServer", "😀", "a,b", "'"]
URI_GOOD = ["PYRO:obj@host:1", "PYRO:o2@localhost:9090", "PYRO:Pyro.NameServer@h:9090", "PYRO:o@./u:/tmp/sock",
            "PYRONAME:x", "PYRO:O@HOST:1", "PYRO:obj_1@h-1.example.org:65535", "PYRO:é@h:2", "PYROMETA:a,b"]
URI_BAD = ["", "bogus", "PYRO:", "http://x/y", "PYRO:o@h", "PYRO:o@h:x", " PYRO:o@h:1", "pyro:o@h:1"]
# numeric-looking texts (integer / real literals in several spellings): a storage that gives its columns a numeric
# affinity would store them as numbers ('007', '7', '7.0' collapse, '1e2' becomes 100, keys come back as int)
NUMERIC = ["7", "007", "7.0", "7.", "07.00", "1e2", "100", "1E2", "-1", "-1.0", "+5", "5", "0x10", "16", " 7", "7 ", "\u0661",
           "0", "00", "-0", "0.0", ".5", "0.5", "1_0", "10", "9007199254740993", "1e400", "nan", "inf", "7a", "7.0.0"]
REGEX_FIXED = [".", ".*", "a", "A", "[aA]", "a|b", "(", "[", "*", "a_", "%", "(?i)a", "\\w+", "^$", "a.", "\\.", "[^a]",
               ".*_", "(a", "a{2", "\\", "Pyro", "Pyro\\.NameServer", "(?i)pyro\\..*", ".*Server$", "\\d", "é", "(?i)é"]


def _swapcase_ascii(s):
    return "".join(c.swapcase() if c.isascii() else c for c in s)


def _variants(rng, s):
    out = [s, _swapcase_ascii(s), s.upper() if s.isascii() else s, s.lower() if s.isascii() else s]
    if s:
        i = rng.randrange(len(s))
        out.append(s[:i] + "_" + s[i + 1:])
        out.append(s[:i] + "%" + s[i + 1:])
        out.append(s[:i] + "%")
        out.append(s[:i])
        out.append(s + rng.choice(FRAGS))
        out.append(s[:i] + rng.choice(FRAGS) + s[i:])
    return out


def _uri_pools(core):
    good = []
    for t in URI_GOOD:
        try:
            if str(core.URI(t)) == t:
                good.append(t)
        except Exception:
            pass
    bad = []
    for t in URI_BAD:
        try:
            core.URI(t)
        except Exception:
            bad.append(t)
    if not good:
        raise RuntimeError("no usable URI texts")
    return good, bad


def gen_history(rng, pools, maxops=30):
    good, bad = pools
    # universe of confusable names
    base = "".join(rng.choice(FRAGS) for _ in range(rng.choice([1, 1, 2, 2, 3])))
    uni = []
    for v in _variants(rng, base):
        if v not in uni:
            uni.append(v)
    for _ in range(rng.randint(0, 3)):
        uni.append("".join(rng.choice(FRAGS) for _ in range(rng.choice([0, 1, 2, 3]))))
    if rng.random() < 0.6:
        uni += [NS_NAME] + rng.sample(_variants(rng, NS_NAME), 3)
    numeric = rng.random() < 0.3
    if numeric:
        # a universe of numeric-looking names (and some ordinary ones), numeric-looking tags
        uni = rng.sample(NUMERIC, rng.randint(4, 9)) + uni[:rng.randint(0, 3)]
    uni = list(dict.fromkeys(uni))
    tags = rng.sample(TAGS, rng.randint(2, 5))
    if numeric or rng.random() < 0.15:
        tags = rng.sample(NUMERIC, rng.randint(2, 5)) + tags[:rng.randint(0, 2)]

    def name():
        return rng.choice(uni) if rng.random() < 0.93 else "".join(rng.choice(FRAGS) for _ in range(rng.randint(0, 2)))

    def taglist(allow_empty=True):
        n = rng.choice([0, 1, 1, 2, 2, 3] if allow_empty else [1, 1, 2, 2, 3])
        l = [rng.choice(tags) for _ in range(n)]
        if l and rng.random() < 0.35:
            l.insert(rng.randrange(len(l) + 1), rng.choice(l))      # a duplicate
        return l

    def meta(for_query=False):
        r = rng.random()
        if r < (0.12 if for_query else 0.25):
            return None
        if r < (0.16 if for_query else 0.30):
            return {"S": rng.choice(["", "t", "tag"])}
        return {"L": taglist(allow_empty=not for_query or rng.random() < 0.2)}

    def prefix():
        n = name()
        r = rng.random()
        if r < 0.45:
            p = n[:rng.randint(0, len(n))]
        elif r < 0.75:
            p = rng.choice(_variants(rng, n[:rng.randint(0, len(n))]))
        else:
            p = n
        return p

    def regex():
        r = rng.random()
        if r < 0.4:
            return rng.choice(REGEX_FIXED)
        n = name()
        if r < 0.6:
            return re.escape(n)
        if r < 0.75:
            return n            # raw name: may or may not compile
        if r < 0.9:
            return re.escape(n[:rng.randint(0, len(n))]) + ".*"
        return "(?i)" + re.escape(n)

    ops = []
    if rng.random() < 0.5:
        ops.append({"k": "reg", "name": NS_NAME, "uri": "PYRO:Pyro.NameServer@h:9090" if "PYRO:Pyro.NameServer@h:9090" in good else good[0],
                    "safe": 0, "meta": {"L": ["class:Pyro5.nameserver.NameServer"]}})
    n_ops = rng.randint(4, maxops)
    warm = rng.randint(2, 7)
    for i in range(n_ops):
        r = rng.random()
        if i < warm or r < 0.30:
            uri = rng.choice(good) if rng.random() < 0.9 or not bad else rng.choice(bad)
            ops.append({"k": "reg", "name": name(), "uri": uri, "safe": int(rng.random() < 0.3), "meta": meta()})
        elif r < 0.38:
            ops.append({"k": "setm", "name": name(), "meta": meta()})
        elif r < 0.47:
            ops.append({"k": "look", "name": name(), "wm": int(rng.random() < 0.5)})
        elif r < 0.63:
            q = rng.random()
            o = {"k": "rm", "name": None, "prefix": None, "regex": None}
            if q < 0.3:
                o["name"] = name()
            elif q < 0.6:
                o["prefix"] = prefix()
            elif q < 0.8:
                o["regex"] = regex()
            else:
                o["name"] = rng.choice([None, "", name()])
                o["prefix"] = rng.choice([None, "", prefix()])
                o["regex"] = rng.choice([None, "", regex()])
            ops.append(o)
        elif r < 0.77:
            q = rng.random()
            o = {"k": "list", "prefix": None, "regex": None, "wm": int(rng.random() < 0.5)}
            if q < 0.45:
                o["prefix"] = prefix()
            elif q < 0.75:
                o["regex"] = regex()
            elif q < 0.85:
                o["prefix"] = rng.choice(["", prefix()])
                o["regex"] = rng.choice(["", regex()])
            ops.append(o)
        elif r < 0.90:
            q = rng.random()
            o = {"k": "yp", "all": None, "any": None, "wm": int(rng.random() < 0.6)}
            if q < 0.45:
                o["all"] = meta(True)
            elif q < 0.85:
                o["any"] = meta(True)
            else:
                o["all"] = meta(True)
                o["any"] = meta(True)
            ops.append(o)
        elif r < 0.95:
            ops.append({"k": "count"})
        else:
            ops.append({"k": "reopen"})
    return ops


def env_tables(ops, core):
    """what the model needs to know about core.URI and re for this history"""
    names = list(dict.fromkeys(o["name"] for o in ops if o["k"] == "reg"))
    bad = []
    for o in ops:
        if o["k"] == "reg" and o["uri"] not in bad:
            try:
                core.URI(o["uri"])
            except Exception:
                bad.append(o["uri"])
    res = []
    for o in ops:
        r = o.get("regex") if o["k"] in ("rm", "list") else None
        if r and r not in res:
            res.append(r)
    ents = []
    for r in res:
        try:
            rx = re.compile(r)
        except re.error:
            ents.append("%s=0=~" % cps(r))
            continue
        ms = [n for n in names if rx.match(n)]
        ents.append("%s=1=%s" % (cps(r), "/".join(cps(n) for n in ms) if ms else "~"))
    return ("/".join(cps(u) for u in bad) if bad else "~"), (";".join(ents) if ents else "~")


MUTATING = ("reg", "setm", "rm")


# ----------------------------------------------------------------------------------------------------
# running one history on the real code (both back-ends) + the reference map
# ----------------------------------------------------------------------------------------------------
class Real:
    """patched module state shared by the suites; use as a context manager"""

    def __enter__(self):
        common.repo_on_path()
        from Pyro5 import nameserver, core, errors
        self.nameserver, self.core, self.errors = nameserver, core, errors
        self._warn = warnings.catch_warnings()
        self._warn.__enter__()
        warnings.simplefilter("ignore")      # generated regexes may trigger FutureWarning in re.compile
        self.faults = Faults()
        self._old = nameserver.sqlite3
        nameserver.sqlite3 = SqliteShim(self.faults)
        base = "/dev/shm" if os.path.isdir("/dev/shm") and os.access("/dev/shm", os.W_OK) else None
        self.dir = tempfile.mkdtemp(prefix="verif-c14-", dir=base)
        self.nfile = 0
        self.dflt_dead = False     # set once NameServer() instances were seen to share state (reported once, not per history)
        self.pools = _uri_pools(core)
        return self

    def __exit__(self, *exc):
        self.nameserver.sqlite3 = self._old
        shutil.rmtree(self.dir, ignore_errors=True)
        self._warn.__exit__(None, None, None)

    def new_file(self):
        self.nfile += 1
        return os.path.join(self.dir, "h%d.sqlite" % self.nfile)


def _names_of(token):
    if not token.startswith("d") or token == "d~":
        return set()
    return {e.split(">")[0] for e in token[1:].split(";")}


def classify(op, backend, what, got="", expect="", ns=None, errors=None):
    """stable signature of a failing operation"""
    k = op["k"]
    if backend == "sql" and what == "result":
        if op.get("prefix") and ((k == "list" and got.startswith("d") and expect.startswith("d") and _names_of(got) > _names_of(expect))
                                 or (k == "rm" and got.startswith("n") and expect.startswith("n") and int(got[1:]) > int(expect[1:]))):
            return "sql-prefix-not-literal"      # matched more than the literal prefix
        if k == "yp" and op.get("all") and "L" in op["all"] and len(set(op["all"]["L"])) != len(op["all"]["L"]) and ns is not None:
            dedup = dict(op, all={"L": sorted(set(op["all"]["L"]))})
            if call_real(ns, dedup, errors) == expect:
                return "sql-meta-all-duplicate"  # the same query without the repeated tag is answered correctly
    return "%s-%s-%s" % (backend, k, what)


def run_history(R, ops, fault_plan, rng_after, do_mem=True):
    """
    Run `ops` on real mem + real sql + Ref.  fault_plan: set of op indices whose every statement index is tried as a
    failure point first.  Returns (tokens, mem_out, sql_out, failures, stats): `tokens` is the expanded token list for
    the model's sql back-end (with op@k attempts), outputs are aligned lists of result tokens (sql with #count).
    """
    ns_mod, core, errors = R.nameserver, R.core, R.errors
    path = R.new_file()
    F = R.faults
    F.reset()
    sql = ns_mod.NameServer(ns_mod.SqlStorage(path))
    mem = ns_mod.NameServer(ns_mod.MemoryStorage()) if do_mem else None
    ref = Ref(core)
    sql_tokens, sql_out, mem_tokens, mem_out = [], [], [], []
    dflt_tokens, dflt_out = [], []
    failures = []
    stats = {"nontrivial": False, "faults": 0}
    mem_alive, sql_alive = do_mem, True
    # a name server created the way applications do it, `NameServer()`: every instance is its own, initially empty, map
    dflt = None
    dflt_alive = do_mem and not R.dflt_dead
    if dflt_alive:
        dflt = ns_mod.NameServer()
        s0 = real_snapshot(dflt)
        if s0 != EMPTY_SNAPSHOT:
            failures.append(("default-ns-not-fresh", "a new NameServer() already holds %s (left there by an earlier NameServer() instance)"
                             % pretty(s0.split(" ")[0])[:300], -1, "dflt"))
            dflt_alive = False
            R.dflt_dead = True
    try:
        for idx, op in enumerate(ops):
            if op["k"] == "reopen":
                if sql_alive:
                    before = real_snapshot(sql)
                    F.reset()
                    sql = ns_mod.NameServer(ns_mod.SqlStorage(path))
                    sql_tokens.append("reopen")
                    sql_out.append("R")
                    after = real_snapshot(sql)
                    if after != before or after != ref.snapshot():
                        failures.append(("sql-reopen-differs", "after reopening the database the map is %s, before %s, reference %s"
                                         % (after[:200], before[:200], ref.snapshot()[:200]), idx, "sql"))
                        sql_alive = False
                continue
            t = tok(op)
            expect = ref.apply(op)
            if dflt_alive:
                got = call_real(dflt, op, errors)
                dflt_tokens.append(t)
                dflt_out.append(got + "#0")
                if got != expect:
                    failures.append((classify(op, "dflt", "result", got, expect), "NameServer(): %s -> %s, a plain map answers %s" % (describe(op), pretty(got)[:300], pretty(expect)[:300]), idx, "dflt"))
                    dflt_alive = False
            if mem_alive:
                got = call_real(mem, op, errors)
                mem_tokens.append(t)
                mem_out.append(got + "#0")
                if got != expect:
                    failures.append((classify(op, "mem", "result", got, expect), "memory back-end: %s -> %s, a plain map answers %s" % (describe(op), pretty(got)[:300], pretty(expect)[:300]), idx, "mem"))
                    mem_alive = False
            if sql_alive:
                if idx in fault_plan:
                    # every statement index as a failure point, until the operation runs through
                    k = 0
                    F.reset()
                    before = real_snapshot(sql)
                    while True:
                        F.reset()
                        F.fail_at = k
                        F.after = bool(rng_after.getrandbits(1))
                        got = call_real(sql, op, errors)
                        fired, cnt = F.fired, F.count
                        F.reset()
                        if not fired:
                            # k is beyond the last statement: this was the real execution
                            sql_tokens.append("%s@%d" % (t, k))
                            sql_out.append("%s#%d" % (got, cnt))
                            break
                        stats["faults"] += 1
                        sql_tokens.append("%s@%d" % (t, k))
                        sql_out.append(got)
                        after = real_snapshot(sql)
                        if got != "Estorage":
                            failures.append(("sql-fault-not-raised", "%s with statement %d failing returned %s instead of raising" % (describe(op), k, pretty(got)[:200]), idx, "sql"))
                            sql_alive = False
                            break
                        if after != before:
                            failures.append(("sql-fault-has-effect", "%s with statement %d failing raised but changed the map: %s -> %s" % (describe(op), k, before[:300], after[:300]), idx, "sql"))
                            sql_alive = False
                            break
                        k += 1
                        if k > 400:
                            raise RuntimeError("fault loop does not terminate")
                    if not sql_alive:
                        continue
                else:
                    F.reset()
                    got = call_real(sql, op, errors)
                    sql_tokens.append(t)
                    sql_out.append("%s#%d" % (got, F.count))
                    F.reset()
                if got != expect:
                    failures.append((classify(op, "sql", "result", got, expect, sql, errors), "sqlite back-end: %s -> %s, a plain map answers %s" % (describe(op), pretty(got)[:300], pretty(expect)[:300]), idx, "sql"))
                    sql_alive = False
                elif op["k"] in ("list", "yp", "rm") and len(ref.m) >= 1:
                    if expect.startswith("d") and expect != "d~" and expect.count(";") + 1 < len(ref.m):
                        stats["nontrivial"] = True
                    if op["k"] == "rm" and expect not in ("n0",) and expect.startswith("n") and len(ref.m) >= 1:
                        stats["nontrivial"] = True
        # final state
        if sql_alive:
            F.reset()
            s = real_snapshot(sql)
            if s != ref.snapshot():
                failures.append(("sql-final-state", "final map on sqlite %s, reference %s" % (s[:300], ref.snapshot()[:300]), len(ops), "sql"))
        if mem_alive:
            s = real_snapshot(mem)
            if s != ref.snapshot():
                failures.append(("mem-final-state", "final map in memory %s, reference %s" % (s[:300], ref.snapshot()[:300]), len(ops), "mem"))
        if dflt_alive:
            s = real_snapshot(dflt)
            if s != ref.snapshot():
                failures.append(("dflt-final-state", "final map of NameServer() %s, reference %s" % (s[:300], ref.snapshot()[:300]), len(ops), "dflt"))
            else:
                # a second instance created now is empty, and creating / using it does not touch the first
                other = ns_mod.NameServer()
                s2 = real_snapshot(other)
                if s2 != EMPTY_SNAPSHOT:
                    failures.append(("default-ns-not-fresh", "after this history on one NameServer(), a second new NameServer() holds %s; every name server is its own, initially empty, map"
                                     % pretty(s2.split(" ")[0])[:300], len(ops), "dflt"))
                    R.dflt_dead = True
                else:
                    call_real(other, {"k": "reg", "name": "fresh.probe", "uri": R.pools[0][0], "safe": 0, "meta": None}, errors)
                    if real_snapshot(dflt) != s:
                        failures.append(("default-ns-not-fresh", "registering a name in a second NameServer() changed the first one", len(ops), "dflt"))
                        R.dflt_dead = True
    finally:
        F.reset()
        for suffix in ("", "-journal", "-wal", "-shm"):
            try:
                os.unlink(path + suffix)
            except OSError:
                pass
    return {"sql_tokens": sql_tokens, "sql_out": sql_out, "mem_tokens": mem_tokens, "mem_out": mem_out,
            "dflt_tokens": dflt_tokens, "dflt_out": dflt_out,
            "failures": failures, "stats": stats, "mem_alive": mem_alive, "sql_alive": sql_alive}


def describe(op):
    o = {k: v for k, v in op.items() if k != "k"}
    return "%s(%s)" % ({"reg": "register", "setm": "set_metadata", "look": "lookup", "rm": "remove", "list": "list",
                        "yp": "yplookup", "count": "count"}.get(op["k"], op["k"]),
                       ", ".join("%s=%r" % (k, py_meta(v) if k in ("meta", "all", "any") else v) for k, v in o.items()))


def shrink(R, ops, signature, budget=150):
    """greedy removal of operations while the same signature is still reported"""
    import random
    cur = list(ops)

    def fails(cand):
        r = run_history(R, cand, set(range(len(cand))) if signature.startswith("sql-fault") else set(), random.Random(0), do_mem=signature.startswith("mem"))
        return any(f[0] == signature for f in r["failures"])
    i = len(cur) - 1
    while i >= 0 and budget > 0:
        cand = cur[:i] + cur[i + 1:]
        budget -= 1
        if cand and fails(cand):
            cur = cand
        i -= 1
    return cur


def _corpus():
    d = os.path.join(common.VERIF, "corpus", "C14")
    out = []
    if os.path.isdir(d):
        for f in sorted(os.listdir(d)):
            if f.endswith(".json"):
                c = json.load(open(os.path.join(d, f)))
                c["_file"] = f
                out.append(c)
    return out


def _run(ctx, name, n, do_model, directed=False):
    rng = ctx.sub_rng(name)
    rng_after = ctx.sub_rng(name + "/after")
    with Real() as R:
        hist = []
        for c in _corpus():
            if "ops" in c:
                hist.append((c["ops"], set(c.get("faults", [])), "corpus:" + c["_file"]))
        for i in range(n):
            ops = gen_history(rng, R.pools, maxops=30 if not directed else 14)
            r = rng.random()
            if r < 0.45:
                plan = set()
            elif r < 0.85:
                plan = {j for j, o in enumerate(ops) if o["k"] in MUTATING and rng.random() < 0.5}
            else:
                plan = {j for j, o in enumerate(ops) if rng.random() < 0.4}
            hist.append((ops, plan, "gen"))
        lines, meta = [], []
        shrunk = {}
        prev_ops = []
        for ops, plan, origin in hist:
            res = run_history(R, ops, plan, rng_after)
            ctx.evaluations += 1
            for o in ops:
                ctx.count("op:" + o["k"])
            for t in res["sql_out"]:
                ctx.count("sql-result:" + re.match(r"[A-Za-z]+|.", t).group(0)[:9])
            ctx.count("fault-attempts", res["stats"]["faults"])
            if res["stats"]["nontrivial"]:
                ctx.nontriv(" ".join(tok(o) for o in ops))
            if len(ctx.samples) < 4 and res["stats"]["nontrivial"] and len(ops) <= 12:
                ctx.sample({"ops": [describe(o) for o in ops], "sqlite": res["sql_out"]})
            for sig, desc, idx, backend in res["failures"]:
                case = {"ops": ops[:idx + 1] if 0 <= idx < len(ops) else ops, "faults": sorted(j for j in plan if j <= idx), "origin": origin, "backend": backend}
                if sig == "default-ns-not-fresh":
                    case = {"ops": [o for o in (prev_ops if idx < 0 else ops) if o["k"] != "reopen"], "faults": [], "origin": origin, "backend": "dflt"}
                elif shrunk.get(sig, 0) < 2 and len(case["ops"]) > 3 and not origin.startswith("corpus"):
                    shrunk[sig] = shrunk.get(sig, 0) + 1
                    small = shrink(R, case["ops"], sig)
                    case = {"ops": small, "faults": list(range(len(small))) if sig.startswith("sql-fault") else [], "origin": origin + "+shrunk", "backend": backend}
                ctx.fail(sig, desc, case)
            prev_ops = ops
            if do_model:
                bad, tab = env_tables(ops, R.core)
                if res["dflt_tokens"]:
                    lines.append("hist mem %s %s %s" % (bad, tab, " ".join(res["dflt_tokens"])))
                    meta.append(("default", ops, res["dflt_out"], True))
                if res["mem_tokens"]:
                    lines.append("hist mem %s %s %s" % (bad, tab, " ".join(res["mem_tokens"])))
                    meta.append(("mem", ops, res["mem_out"], res["mem_alive"]))
                    lines.append("hist spec %s %s %s" % (bad, tab, " ".join(res["mem_tokens"])))
                    meta.append(("spec", ops, res["mem_out"], res["mem_alive"]))
                    # the transcription of NameServer's methods (Gen/C14Src.lean) evaluated next to the model
                    lines.append("hist memsrc %s %s %s" % (bad, tab, " ".join(res["mem_tokens"])))
                    meta.append(("mem-src", ops, res["mem_out"], res["mem_alive"]))
                if res["sql_tokens"]:
                    lines.append("hist sql %s %s %s" % (bad, tab, " ".join(res["sql_tokens"])))
                    meta.append(("sql", ops, res["sql_out"], res["sql_alive"]))
                    lines.append("hist sqlsrc %s %s %s" % (bad, tab, " ".join(res["sql_tokens"])))
                    meta.append(("sql-src", ops, res["sql_out"], res["sql_alive"]))
        if do_model and lines:
            outs = common.run_driver("drv_c14", lines)
            ctx.corr_cases += len(lines)
            for line, (backend, ops, real, alive), out in zip(lines, meta, outs):
                mt = out.split(" ") if out != "-" else []
                toks = line.split(" ")[4:]
                if backend == "spec":
                    # the spec has no statement counts; the real memory back-end is the comparison
                    pass
                n_cmp = len(real)
                for j in range(n_cmp):
                    m = mt[j] if j < len(mt) else "<missing>"
                    r = real[j]
                    if m != r:
                        suite = backend
                        if backend == "sql" and "@" in toks[j] and (r == "Estorage" or m == "Estorage"):
                            suite = "sql-faults"
                        ctx.mismatch(suite, {"line": line if len(line) < 1500 else line[:1500] + "...", "op": toks[j], "index": j,
                                             "ops": ops}, r[:400], m[:400])
                        break


# ----------------------------------------------------------------------------------------------------
# two clients whose calls overlap: the second call arrives while the first is at one of its storage accesses
# ----------------------------------------------------------------------------------------------------
import threading

HOOKED = ["__getitem__", "__setitem__", "__delitem__", "__contains__", "__len__", "__iter__", "optimized_prefix_list",
          "optimized_regex_list", "optimized_metadata_search", "everything", "remove_items"]


class HookLock:
    """stands in for NameServer.lock (re-entrant); tells the rig when a thread is about to wait for it"""

    def __init__(self):
        self._l = threading.RLock()
        self.on_block = None

    def acquire(self, blocking=True, timeout=-1):
        if self._l.acquire(False):
            return True
        if not blocking:
            return False
        if self.on_block is not None:
            self.on_block()
        return self._l.acquire()

    def release(self):
        self._l.release()

    def __enter__(self):
        self.acquire()
        return self

    def __exit__(self, *exc):
        self._l.release()


def hooked_storage(base):
    """subclass of a real storage class: every interface method first reports to `self.rig_hook` (if set)"""
    ns = {"rig_hook": None}
    for m in HOOKED:
        def make(m):
            orig = getattr(base, m)

            def method(self, *a, **kw):
                h = self.__dict__.get("rig_hook") if not isinstance(self, dict) else getattr(self, "rig_hook", None)
                if h is not None:
                    h(m)
                return orig(self, *a, **kw)
            method.__name__ = m
            return method
        ns[m] = make(m)
    return type("Hooked" + base.__name__, (base,), ns)


def run_overlap(R, backend, init, a, b, k):
    """
    Fresh name server holding `init`; client A calls `a`; when A (its thread) is about to make its k-th storage access,
    client B's call `b` arrives and runs until it returns or has to wait for the name server's lock; then A goes on.
    Returns (fired, result of a, result of b, final snapshot).  No sleeps, no timeouts: fully determined by (a, b, k).
    """
    ns_mod, errors = R.nameserver, R.errors
    key = "hooked_" + backend
    if key not in R.__dict__:
        R.__dict__[key] = hooked_storage(ns_mod.MemoryStorage if backend == "mem" else ns_mod.SqlStorage)
    cls = R.__dict__[key]
    path = None
    if backend == "mem":
        st = cls()
    else:
        path = R.new_file()
        st = cls(path)
    R.faults.reset()
    try:
        ns = ns_mod.NameServer(st)
        for o in init:
            call_real(ns, o, errors)
        lock = HookLock()
        ns.lock = lock
        me = threading.get_ident()
        state = {"n": 0, "fired": False, "b": None}
        parked = threading.Event()      # B returned, or B is waiting for the lock
        result = {}

        def b_body():
            try:
                result["b"] = call_real(ns, b, errors)
            finally:
                parked.set()

        def on_block():
            if threading.get_ident() != me:
                parked.set()

        def hook(method):
            if threading.get_ident() != me or state["fired"]:
                return
            if state["n"] == k:
                state["fired"] = True
                t = threading.Thread(target=b_body, name="c14-client-b", daemon=True)
                state["b"] = t
                t.start()
                parked.wait()
            state["n"] += 1

        lock.on_block = on_block
        st.rig_hook = hook
        ra = call_real(ns, a, errors)
        st.rig_hook = None
        if state["b"] is not None:
            state["b"].join()
        lock.on_block = None
        ns.lock = threading.RLock()
        return state["fired"], ra, result.get("b"), real_snapshot(ns)
    finally:
        R.faults.reset()
        if path:
            for suffix in ("", "-journal", "-wal", "-shm"):
                try:
                    os.unlink(path + suffix)
                except OSError:
                    pass


def serial_outcomes(core, init, a, b):
    """what a plain map allows for two overlapping calls: one of the two orders (C14_overlap_serial)"""
    outs = []
    for first, second in ((a, b), (b, a)):
        ref = Ref(core)
        for o in init:
            ref.apply(o)
        r1 = ref.apply(first)
        r2 = ref.apply(second)
        ra, rb = (r1, r2) if first is a else (r2, r1)
        outs.append((ra, rb, ref.snapshot()))
    return outs


def judge_overlap(R, backend, init, a, b, k):
    """returns (fired, failure or None)"""
    fired, ra, rb, snap = run_overlap(R, backend, init, a, b, k)
    if not fired:
        return False, None
    allowed = serial_outcomes(R.core, init, a, b)
    if (ra, rb, snap) in allowed:
        return True, None
    sig = "overlap-not-serial:%s+%s" % (a["k"], b["k"])
    desc = ("%s back-end: %s was at its storage access no. %d when %s arrived; results %s / %s, final map %s; "
            "in either order a plain map gives %s / %s -> %s   or   %s / %s -> %s"
            % ("memory" if backend == "mem" else "sqlite", describe(a), k, describe(b), pretty(ra), pretty(rb), pretty(snap.split(" ")[0])[:200],
               pretty(allowed[0][0]), pretty(allowed[0][1]), pretty(allowed[0][2].split(" ")[0])[:200],
               pretty(allowed[1][0]), pretty(allowed[1][1]), pretty(allowed[1][2].split(" ")[0])[:200]))
    return True, (sig, desc, {"overlap": True, "backend": backend, "init": init, "a": a, "b": b, "k": k})


def _overlap_cases(rng, pools, n):
    good = pools[0]
    u1, u2 = good[0], good[-1]
    init = [{"k": "reg", "name": "obj", "uri": u1, "safe": 0, "meta": {"L": ["t0"]}},
            {"k": "reg", "name": "obj.two", "uri": u1, "safe": 0, "meta": {"L": ["t0", "t1"]}},
            {"k": "reg", "name": NS_NAME, "uri": u1, "safe": 0, "meta": None}]
    table = [
        {"k": "reg", "name": "obj", "uri": u2, "safe": 0, "meta": {"L": ["n"]}},
        {"k": "reg", "name": "obj", "uri": u2, "safe": 1, "meta": None},
        {"k": "reg", "name": "new", "uri": u2, "safe": 1, "meta": {"L": ["t0"]}},
        {"k": "setm", "name": "obj", "meta": {"L": ["t1"]}},
        {"k": "setm", "name": "new", "meta": None},
        {"k": "rm", "name": "obj", "prefix": None, "regex": None},
        {"k": "rm", "name": None, "prefix": "obj", "regex": None},
        {"k": "rm", "name": None, "prefix": None, "regex": "o.*"},
        {"k": "look", "name": "obj", "wm": 1},
        {"k": "list", "prefix": "ob", "regex": None, "wm": 1},
        {"k": "list", "prefix": None, "regex": "obj.*", "wm": 0},
        {"k": "yp", "all": {"L": ["t0"]}, "any": None, "wm": 1},
        {"k": "count"},
    ]
    mutating = [o for o in table if o["k"] in MUTATING]
    cases = [(init, a, b) for a in table for b in mutating]
    for _ in range(n):
        ops = [o for o in gen_history(rng, pools, maxops=8) if o["k"] != "reopen"]
        if len(ops) < 3:
            continue
        a, b = ops[-2], ops[-1]
        if b["k"] not in MUTATING and a["k"] in MUTATING:
            a, b = b, a
        cases.append((ops[:-2], a, b))
    return cases


def _overlap_suite(ctx, name, n):
    rng = ctx.sub_rng(name)
    with Real() as R:
        cases = []
        for c in _corpus():
            if c.get("overlap"):
                cases.append((c["init"], c["a"], c["b"], c.get("backend"), c.get("k")))
        cases += [(i, a, b, None, None) for i, a, b in _overlap_cases(rng, R.pools, n)]
        reported = set()
        for init, a, b, only_backend, only_k in cases:
            for backend in ("mem", "sql"):
                if only_backend and backend != only_backend:
                    continue
                k = 0
                while k < 60:
                    if only_k is not None:
                        k = only_k
                    fired, failure = judge_overlap(R, backend, init, a, b, k)
                    if not fired:
                        break
                    ctx.evaluations += 1
                    ctx.count("overlap:%s+%s" % (a["k"], b["k"]))
                    ctx.nontriv(("overlap", backend, [tok(o) for o in init], tok(a), tok(b), k))
                    if failure and (failure[0], backend) not in reported:
                        reported.add((failure[0], backend))
                        ctx.fail(*failure)
                    if only_k is not None:
                        break
                    k += 1


def _like_suite(ctx, n):
    """the LIKE model used by the negative theorem vs sqlite's LIKE"""
    rng = ctx.sub_rng("like")
    alpha = ["a", "A", "b", "B", "_", "%", "é", "É", "z", "Z", "@", "[", "`", "{", "😀", ".", "ß", "0"]
    db = real_sqlite3.connect(":memory:")
    cases, lines, reals = [], [], []
    try:
        for i in range(n):
            p = "".join(rng.choice(alpha) for _ in range(rng.randint(0, 5)))
            s = "".join(rng.choice(alpha) for _ in range(rng.randint(0, 6)))
            if rng.random() < 0.5:
                p = p + "%"
            if rng.random() < 0.3:
                s = _swapcase_ascii(p.replace("%", rng.choice(["", "ab", "_"])).replace("_", rng.choice(alpha[:4])))
            real = db.execute("SELECT ? LIKE ?", (s, p)).fetchone()[0]
            lines.append("like %s %s" % (cps(p), cps(s)))
            reals.append(str(real))
            cases.append((p, s))
    finally:
        db.close()
    outs = common.run_driver("drv_c14", lines)
    ctx.corr_cases += len(lines)
    for (p, s), r, m in zip(cases, reals, outs):
        ctx.count("like:" + r)
        if r != m:
            ctx.mismatch("like", {"pattern": p, "string": s}, r, m)


def correspondence(ctx):
    _run(ctx, "corr", ctx.n(700, 20000), True)
    _like_suite(ctx, ctx.n(3000, 60000))


def oracle(ctx):
    # step D for sequential histories ran inside _run on the same histories; in search mode it runs again on fresh,
    # shorter, more confusable ones.  Overlapping calls of two clients are judged here (real code only).
    if ctx.search_mode:
        _run(ctx, "search", ctx.n(700, 7000), False, directed=True)
        _overlap_suite(ctx, "overlap-search", ctx.n(150, 1500))
    else:
        _overlap_suite(ctx, "overlap", ctx.n(60, 1500))


def replay(ctx, case):
    f = case.get("failing_input") or {}
    c = f.get("case") or case.get("case") or (case if ("ops" in case or "overlap" in case) else None)
    if not c:
        print("replay file names no failing input:", case.get("no_longer_checks"))
        return 1
    import random
    reproduced = 0
    if c.get("overlap"):
        with Real() as R:
            for o in c["init"]:
                print("   init:", describe(o))
            fired, failure = judge_overlap(R, c["backend"], c["init"], c["a"], c["b"], c["k"])
            if failure:
                print("FAIL [%s] %s" % (failure[0], failure[1]))
                reproduced = 1
            else:
                print("client B's call %s at storage access %d of %s: %s" % (describe(c["b"]), c["k"], describe(c["a"]),
                                                                             "serial outcome" if fired else "access index not reached"))
        print("VIOLATION reproduced" if reproduced else "not reproduced")
        return 1 if reproduced else 0
    with Real() as R:
        res = run_history(R, c["ops"], set(c.get("faults", [])), random.Random(0))
        for o, in zip(c["ops"]):
            print("  ", describe(o))
        print("memory :", " | ".join(pretty(t.split("#")[0]) for t in res["mem_out"])[:2500])
        print("sqlite :", " | ".join(pretty(t.split("#")[0]) for t in res["sql_out"])[:2500])
        for sig, desc, idx, backend in res["failures"]:
            print("FAIL [%s] at operation %d: %s" % (sig, idx, desc))
            reproduced = 1
    print("VIOLATION reproduced" if reproduced else "not reproduced")
    return 1 if reproduced else 0
