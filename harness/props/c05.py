"""C05 — no client input can stop the daemon or disturb other clients."""
import ast
import json
import os
import re
import socket
import threading
import warnings

import common
import srvkit
from props import c05_gen, c05_rig, c05_tr, c08

ID = "C05"
LEAN_MODEL_TARGETS = ["drv_c05", "drv_c06"]
LEAN_PROOF_TARGETS = ["PyroProps.C05", "PyroProps.C05Src"]
AUDIT_FILES = ["PyroModel/Server.lean", "PyroModel/ServerLoop.lean", "PyroModel/ServerLoopStreams.lean", "PyroModel/Gen/C05.lean",
               "PyroProofs/ServerLoop.lean", "PyroProps/C05.lean", "PyroProps/C05Src.lean"]
THEOREMS = ["Pyro.C05.C05_loop_survives", "Pyro.C05.C05_frame", "Pyro.C05.C05_witness_correct",
            "Pyro.C05.C05_no_stranded_worker", "Pyro.C05.C05_selector_exact", "Pyro.C05.C05_accounting_restored",
            "Pyro.C05.C05_accepts_after", "Pyro.C05.C05_objects_kept", "Pyro.C05.C05_refines_server",
            "Pyro.C05.C05_gen_cfg_good", "Pyro.C05.C05_gen_classes", "Pyro.C05.C05_gen_shape",
            "Pyro.C05.C05_current_source", "Pyro.C05.C05_unguarded_deny_stops",
            "Pyro.C05.C05_clientDisconnect_translated", "Pyro.C05.C05_source_streams_of_others_kept",
            "Pyro.C05.C05_source_own_streams_released", "Pyro.C05.C05_source_disconnect_adds_nothing",
            "Pyro.C05.C05_gen_disconnect_rows", "Pyro.C05.C05_stream_survives", "Pyro.C05.C05_witness_next_item"]
SUITES = ["loop", "classify"]
RULE = ("histories on the real thread-pool and multiplex servers, driven through their own loop() over in-memory sockets, pool "
        "sizes 2-8, COMMTIMEOUT 0 / 0.2: 1-2 witness connections (handshake, then calls returning / raising serialisable and "
        "unserialisable exceptions, pings, unknown objects, private members) interleaved in generated orders with 1-5 hostile "
        "connections; a hostile connection acts before, during or after its handshake: every kind of semantic item (any message "
        "type / serializer id / payload shape, methods raising every exception class, callbacks, oneway) and byte-level mutants of "
        "a valid handshake / invoke message (every header field at 0, 1, max-1, max, cur+-1 and the meaningful codes; data / "
        "annotation lengths off by +-1, +-8, shifted, at and beyond MAX_MESSAGE_SIZE; every prefix truncation; payload bytes "
        "flipped; garbage with and without the PYRO tag), optionally with a valid message behind, ended by eof / reset / timeout, "
        "the peer gone (send fails) or not when the daemon answers; connections beyond the pool size are denied by the acceptor; "
        "a witness may be half way through an item stream (it opens one and fetches 1-3 items with get_next_stream_item, anywhere "
        "among its calls; ITER_STREAM_LINGER default / 1e-9 / 0; the thread server's housekeeper pass runs after every delivery); "
        "a hostile caller may stay connected and wait after a call whose method raises a Pyro CommunicationError; "
        "afterwards every hostile peer disconnects and a new connection handshakes and calls.  The bytes are classified into model "
        "items with the real decoder and the classification is checked against the C06 decoder model (suite classify). "
        "non-trivial = the history contains a hostile delivery that the daemon did not simply accept, next to a witness call "
        "that was answered; distinct = distinct model line x transport.  A second oracle-only suite does the same over real unix "
        "sockets with a daemon thread in requestLoop().")
ASSUMPTIONS = ["byte level (exact reads, header validation) is as proved for C17 / C06; each delivery is classified by the real "
               "decoder and cross-checked against the C06 model",
               "a peer that stalls in the middle of a message WITHOUT disconnecting blocks the multiplex loop (and the thread "
               "server's acceptor while it denies a connection) until COMMTIMEOUT: timing lives in the OS and is outside the "
               "quantifier of the property (\"cut short by a disconnect\"); every generated partial message is followed by an ending",
               "exceptions that are not subclasses of Exception (KeyboardInterrupt, SystemExit) are outside the statement",
               "thread scheduling: deliveries are made one at a time and the harness waits until the serving thread is idle again"]
TRUSTED = ["harness/props/c05_tr.py (transcriber of Daemon._clientDisconnect: refuses what it does not understand; its output is "
           "checked against the real function's answers on 12 probed tables by C05_gen_disconnect_rows)",
           "harness/srvkit.py + harness/props/c05_rig.py (in-memory sockets / listener / selector; real Daemon, real loop(), real Pool)",
           "classification of mutated bytes into model items (c05_gen.classify: real decoder + real deserialiser, checked against drv_c06)"]


# ---- extractor: the containment layers are MEASURED on the real code, not read off its source -----------------------------
CLS = ["connClosed", "pyroTimeout", "protocol", "serialize", "security", "osError", "sockTimeout", "other", "keyboardInterrupt",
       "baseOther"]


class _ProbeSock:
    """stand-in socket for the probes: its auxiliary methods fail the way a reset socket's do"""
    family = socket.AF_INET

    def __init__(self, log):
        self.log = log
        self.timeout = None
        self.closed = 0

    def settimeout(self, t):
        self.timeout = t

    def gettimeout(self):
        return self.timeout

    def setblocking(self, b):
        pass

    def close(self):
        self.closed += 1
        self.log.append("close")

    def fileno(self):
        return 7

    def _gone(self, *a, **k):
        raise OSError(107, "Transport endpoint is not connected")
    shutdown = getpeername = getsockname = recv = send = sendall = _gone


class _ProbeDaemon:
    def __init__(self, log, shake=True, request=None):
        self.log, self.shake, self.request = log, shake, request

    def _handshake(self, conn, denied_reason=None):
        self.log.append(("handshake", conn.sock.gettimeout()))
        if isinstance(self.shake, BaseException):
            raise self.shake
        return self.shake and not denied_reason

    def handleRequest(self, conn):
        self.log.append("handleRequest")
        raise self.request

    def _clientDisconnect(self, conn):
        self.log.append("_clientDisconnect")

    def _housekeeping(self):
        pass


class _ProbeSelector:
    def __init__(self, log, ready=()):
        self.log, self.ready = log, list(ready)

    def register(self, *a, **k):
        self.log.append("register")

    def unregister(self, *a, **k):
        self.log.append("unregister")

    def select(self, timeout=None):
        return self.ready

    def get_map(self):
        return {}

    def close(self):
        pass


class _ProbeListener:
    def __init__(self, log, exc=None):
        self.log, self.exc = log, exc

    def accept(self):
        if self.exc is not None:
            raise self.exc
        return _ProbeSock(self.log), ("probe", 1)

    def fileno(self):
        return 6

    def getsockname(self):
        return ("probe", 0)

    def close(self):
        pass


def _retire(srv):
    """the stand-in servers were never init()ed: keep their __del__ quiet"""
    srv.sock = None
    srv.pool = None
    srv.housekeeper = None


def extract():
    """Every fact is obtained by RUNNING the layer in question (the real ClientConnectionJob, Worker, transport servers, recv_stub,
    Daemon._sendExceptionResponse) with stand-ins that raise a representative of each exception class / record what is called, so
    that the facts do not depend on how the code is spelled, ordered or split over private helper methods."""
    common.repo_on_path()
    import selectors
    from Pyro5 import svr_threads, svr_multiplex, errors, server, serializers, config, protocol, socketutil
    if serializers.MarshalSerializer.serializer_id != c05_gen.MARSHAL_ID:
        raise ValueError("marshal serializer id changed")
    reps = {"connClosed": errors.ConnectionClosedError, "pyroTimeout": errors.TimeoutError, "protocol": errors.ProtocolError,
            "serialize": errors.SerializeError, "security": errors.SecurityError, "osError": lambda m: OSError(5, m),
            "sockTimeout": socket.timeout, "other": KeyError, "keyboardInterrupt": KeyboardInterrupt, "baseOther": SystemExit}

    def rep(name):
        return reps[name]("probe " + name)
    exception_classes = [n for n in CLS if isinstance(rep(n), Exception)]

    def contained(run):
        """classes whose representative, raised inside the layer, does not leave it; run(exc) executes the layer"""
        out = []
        for name in CLS:
            e = rep(name)
            try:
                run(e)
                out.append(name)
            except BaseException as x:
                if x is not e:
                    # something else came out (e.g. the OSError of getpeername() inside an except handler): not contained
                    if not isinstance(x, (Exception, KeyboardInterrupt, SystemExit)):
                        raise
        return out

    saved = (config.COMMTIMEOUT, config.POLLTIMEOUT)
    config.COMMTIMEOUT = 1.5
    try:
        # ---- thread-pool server: the connection job --------------------------------------------------------------------
        def job_with(daemon):
            log = daemon.log
            return svr_threads.ClientConnectionJob(_ProbeSock(log), ("probe", 1), daemon)

        thr_job = contained(lambda e: job_with(_ProbeDaemon([], True, e))())
        thr_shake = contained(lambda e: job_with(_ProbeDaemon([], e))())
        thr_deny = contained(lambda e: job_with(_ProbeDaemon([], e)).denyConnection("no free workers"))
        # what happens after the request loop is left, in order (hook, close), also when the exception is not contained
        def quietly(fn):
            """run an observation probe; what it raises is not the point here (the `contained` lists record that)"""
            try:
                fn()
            except BaseException as x:
                if not isinstance(x, (Exception, KeyboardInterrupt, SystemExit)):
                    raise
        d = _ProbeDaemon([], True, rep("connClosed"))
        quietly(job_with(d))
        thread_finally = [x for x in d.log[d.log.index("handleRequest") + 1:] if x in ("_clientDisconnect", "close")] \
            if "handleRequest" in d.log else ["(request loop not entered)"]
        thread_finally = [x for i, x in enumerate(thread_finally) if x not in thread_finally[:i]]
        d = _ProbeDaemon([], True, rep("baseOther"))
        try:
            job_with(d)()
        except SystemExit:
            pass
        finally_always = "handleRequest" in d.log and \
            [x for x in d.log[d.log.index("handleRequest") + 1:] if x in ("_clientDisconnect", "close")][:2] == thread_finally[:2]
        if not finally_always:
            thread_finally = ["(not on every exit) "] + thread_finally
        # the refused connection is closed on every path
        deny_closes = True
        for name in ["none"] + exception_classes:
            d = _ProbeDaemon([], False if name == "none" else rep(name))
            j = job_with(d)
            try:
                j.denyConnection("no free workers")
            except BaseException:
                pass
            deny_closes = deny_closes and j.csock.sock.closed > 0

        # ---- Worker.run ------------------------------------------------------------------------------------------------
        class Pool:
            def __init__(self):
                self.log = []

            def notify_done(self, worker):
                self.log.append("notify_done")
                worker.job = None
                worker.job_available.set()

        def run_worker(e, pool=None):
            pool = pool or Pool()
            w = svr_threads.Worker(pool)

            def job():
                raise e
            w.job = job
            w.job_available.set()
            w.run()
            return pool
        thr_worker = contained(run_worker)
        notifies = all(run_worker(rep(n)).log == ["notify_done"] for n in thr_worker) and bool(thr_worker)

        # ---- the accept loop -------------------------------------------------------------------------------------------
        def acceptor(listener, pool):
            srv = object.__new__(svr_threads.SocketServer_Threadpool)
            srv.daemon = _ProbeDaemon(listener.log, False)
            srv.sock = listener
            srv.shutting_down = False
            srv.pool = pool
            srv._selector = _ProbeSelector(listener.log, [(None, selectors.EVENT_READ)])
            srv.housekeeper = None
            return srv

        def events_with(e):
            srv = acceptor(_ProbeListener([], e), None)
            try:
                srv.events([srv.sock])
            finally:
                _retire(srv)
        thr_events = contained(events_with)

        def loop_with(srv_cls, e):
            srv = object.__new__(srv_cls)
            srv.sock = _ProbeListener([])
            srv.shutting_down = False
            srv.daemon = _ProbeDaemon([], False)
            srv.pool = srv.housekeeper = None
            left = [6]
            calls_made = [0]

            def cond():
                left[0] -= 1
                return left[0] > 0

            def events(socks):
                calls_made[0] += 1
                raise e
            srv.events = events
            if srv_cls is svr_multiplex.SocketServer_Multiplex:
                key = selectors.SelectorKey(srv.sock, 6, selectors.EVENT_READ, srv)
                srv.selector = _ProbeSelector([], [(key, selectors.EVENT_READ)])
            try:
                srv.loop(cond)
            finally:
                _retire(srv)
            if calls_made[0] < 2:
                raise e             # the loop ended (a `break`): for the model that is the same as the exception leaving it
        thr_loop = contained(lambda e: loop_with(svr_threads.SocketServer_Threadpool, e))
        mux_loop = contained(lambda e: loop_with(svr_multiplex.SocketServer_Multiplex, e))

        # with COMMTIMEOUT configured: the timeout is on the socket when the handshake starts reading - refused and served
        class FullPool:
            def process(self, job):
                raise svr_threads.NoFreeWorkersError("probe: full")

        class InlinePool:
            def process(self, job):
                job()
        log = []
        srv = acceptor(_ProbeListener(log), FullPool())
        quietly(lambda: srv.events([srv.sock]))
        _retire(srv)
        deny_timeouts = [x[1] for x in log if isinstance(x, tuple) and x[0] == "handshake"]
        log = []
        srv = acceptor(_ProbeListener(log), InlinePool())
        quietly(lambda: srv.events([srv.sock]))
        _retire(srv)
        serve_timeouts = [x[1] for x in log if isinstance(x, tuple) and x[0] == "handshake"]
        thr_timeout = deny_timeouts == [1.5] and serve_timeouts == [1.5]

        # ---- multiplex server ------------------------------------------------------------------------------------------
        retired = []

        def mux(daemon, log):
            srv = object.__new__(svr_multiplex.SocketServer_Multiplex)
            srv.daemon = daemon
            srv.sock = _ProbeListener(log)
            srv.shutting_down = False
            srv.selector = _ProbeSelector(log)
            return srv

        def mux_request(e):
            log = []
            srv = mux(_ProbeDaemon(log, True, e), log)
            retired.append(srv)
            if srv.handleRequest(socketutil.SocketConnection(_ProbeSock(log))) is not False:
                raise ValueError("SocketServer_Multiplex.handleRequest: a failed request does not report the connection inactive")
        mux_req = contained(mux_request)

        def mux_shake_probe(e):
            log = []
            srv = mux(_ProbeDaemon(log, e), log)
            retired.append(srv)
            if srv._handleConnection(srv.sock):
                raise ValueError("SocketServer_Multiplex._handleConnection: a failed handshake yields a connection")
        mux_shake = contained(mux_shake_probe)
        log = []
        srv = mux(_ProbeDaemon(log, True, rep("connClosed")), log)
        retired.append(srv)
        quietly(lambda: srv.events([socketutil.SocketConnection(_ProbeSock(log))]))
        inactive = [x for x in log[log.index("handleRequest") + 1:] if x in ("_clientDisconnect", "unregister", "close")] \
            if "handleRequest" in log else ["(request not handled)"]
        inactive = [x for i, x in enumerate(inactive) if x not in inactive[:i]]
        log = []
        srv = mux(_ProbeDaemon(log, False), log)
        retired.append(srv)
        quietly(lambda: srv._handleConnection(srv.sock))
        mux_timeout = [x[1] for x in log if isinstance(x, tuple) and x[0] == "handshake"] == [1.5]
        for x in retired:
            _retire(x)
    finally:
        config.COMMTIMEOUT, config.POLLTIMEOUT = saved

    # ---- recv_stub refuses an invalid prefix of six bytes without asking the connection for more --------------------------
    class WouldWait(Exception):
        pass

    class Conn:
        def __init__(self, data):
            self.data, self.pos = data, 0

        def recv(self, n):
            if len(self.data) - self.pos < n:
                raise WouldWait()
            self.pos += n
            return self.data[self.pos - n:self.pos]
    prefix_first = True
    for data in (b"XXXXXX", b"PYRO\x00\x2f", b"PYRO\xff\xff" + b"z" * 33, b"GET / HTTP/1.1\r\n"):
        try:
            protocol.recv_stub(Conn(data), None)
            prefix_first = False
        except errors.ProtocolError:
            pass
        except Exception:
            prefix_first = False

    # ---- an exception that cannot be serialised, whatever goes wrong: the caller still gets an error reply -------------------
    class Sink:
        def __init__(self):
            self.sent = []

        def send(self, data):
            self.sent.append(bytes(data))
    dm = object.__new__(server.Daemon)
    fallback_all = True
    for ser_id in sorted(serializers.serializers_by_id):
        for kind in ("slots", "getstate", "deep", "lock"):
            e = ValueError("probe")
            e.extra = threading.Lock() if kind == "lock" else c05_rig.poison_value(kind)
            sink = Sink()
            try:
                dm._sendExceptionResponse(sink, 1, ser_id, e, ["tb"])
                ok = len(sink.sent) == 1 and bool(sink.sent[0][9] & protocol.FLAGS_EXCEPTION)
            except Exception:
                ok = False
            fallback_all = fallback_all and ok

    # ---- Daemon._clientDisconnect, TRANSCRIBED from its current source (c05_tr: symbolic execution per atom assignment, ----
    # ---- re-emitted as a normalised decision tree), and the real function's answers on a fixed table of inputs --------------
    src_lean = c05_tr.transcribe(server)        # raises c05_tr.Untranslatable: the tie is broken, the runner searches an input
    src_rows = c05_tr.lean_rows(c05_tr.probe_rows(server))

    L = lambda xs: "[" + ", ".join("." + x for x in xs) + "]"
    b = lambda x: "true" if x else "false"
    return f"""-- GENERATED by harness/props/c05.py by running the real layers of Pyro5/svr_threads.py, svr_multiplex.py, server.py,
-- protocol.py with stand-ins (see extract()) — do not edit
import PyroModel.ServerLoop
import PyroModel.ServerLoopStreams
namespace Pyro.Gen.C05
open Pyro.ServerLoop
/-- per containment layer: the classes whose representative, raised inside it, does not leave it -/
def cfg : Cfg :=
  {{ thrJob := {L(thr_job)},
    thrShake := {L(thr_shake)},
    thrDeny := {L(thr_deny)},
    thrWorker := {L(thr_worker)},
    thrEvents := {L(thr_events)},
    thrLoop := {L(thr_loop)},
    muxReq := {L(mux_req)},
    muxShake := {L(mux_shake)},
    muxLoop := {L(mux_loop)} }}
/-- the representatives that are instances of Exception -/
def exceptionClasses : List Cls := {L(exception_classes)}
/-- what runs after the request loop of a connection job is left (observed; on every exit, also an uncontained one) -/
def threadFinally : List String := {json.dumps(thread_finally)}
/-- Worker.run tells the pool (once) after a job that raised something it contains -/
def workerNotifiesAfterTry : Bool := {b(notifies)}
/-- what SocketServer_Multiplex.events does with a connection whose request reported it inactive (observed, in order) -/
def multiplexInactive : List String := {json.dumps(inactive)}
/-- denyConnection leaves the refused socket closed, whatever _handshake does -/
def denyAlwaysCloses : Bool := {b(deny_closes)}
/-- with COMMTIMEOUT configured the socket carries the timeout when _handshake starts reading: for a refused connection
    (acceptor thread) and for a served one (thread server) / for a new connection (multiplex) -/
def threadTimeoutBeforeJob : Bool := {b(thr_timeout)}
def multiplexTimeoutBeforeHandshake : Bool := {b(mux_timeout)}
/-- recv_stub refuses 6..39 bytes with an invalid prefix without asking the connection for more bytes -/
def headerPrefixValidatedFirst : Bool := {b(prefix_first)}
/-- Daemon._sendExceptionResponse sends an error reply for exceptions whose serialisation fails with TypeError,
    AttributeError, RuntimeError, RecursionError ..., under every serializer -/
def exceptionFallbackCatchesAll : Bool := {b(fallback_all)}

-- ---- transcribed from the source of Pyro5/server.py Daemon._clientDisconnect (harness/props/c05_tr.py) ----
open Pyro.ServerLoop.Streams
{src_lean}
/-- what the REAL `_clientDisconnect(conn 1)` did at extraction time (time.time() = 77): (ITER_STREAM_LINGER, table before as
    (id, entry) list, (id, entry afterwards) list) -/
def disconnectRows : List (Nat × List (Nat × Entry) × List (Nat × Option Entry)) := {src_rows}
end Pyro.Gen.C05
"""


# ---- running a history on the real code --------------------------------------------------------------------
def run_real(h, servertype):
    rig = c05_rig.LoopRig(servertype, poolsize=h["poolsize"], commtimeout=float(h["commtimeout"]),
                          linger=(float(h["linger"]) if h.get("linger") not in (None, "None") else None))
    out = {"stuck": None, "snap": {}, "fresh_pool_full": None, "outbound": [], "unanswered": []}
    try:
        objs_before = {k: id(v) for k, v in rig.daemon.objectsById.items()}
        try:
            for i, st in enumerate(h["steps"]):
                if i == h["pre"]:
                    rig.settle_pool()
                    out["snap"]["pre"] = rig.accounting()
                if st[0] == "connect":
                    rig.connect(st[1])
                    continue
                if st[6] and st[6][0] == "fresh-handshake":
                    rig.settle_pool()
                    out["snap"]["post"] = rig.accounting()
                    out["fresh_pool_full"] = rig.pool_full() if servertype == "thread" else False
                before = len(rig.outbound())
                data = common.unhx(st[2])
                if len(st) > 7 and st[7] == "streamnext":
                    # the call names the stream the daemon opened for this connection: its id is in the reply it got
                    sid = rig.stream_id(st[1])
                    if sid is not None and len(sid) == len(c05_rig.STREAM_PLACEHOLDER):
                        data = data.replace(c05_rig.STREAM_PLACEHOLDER, sid)
                nrep = len(rig.replies(st[1]))
                rig.deliver(st[1], data, st[3], st[4])
                # a complete request (not oneway) from a peer that stays connected and waits: answered, or the connection ended
                if st[3] is None and not st[4] and st[5] and rig.loop_alive and st[1] in rig.started \
                        and all(it[0] == "M" and it[4] == "0" for it in st[5]):
                    s = rig.socks[st[1]]
                    if not s.closed and len(rig.replies(st[1])) == nrep:
                        out["unanswered"].append((i, st[1], st[7] if len(st) > 7 else "semantic"))
                for where, thread in rig.outbound()[before:]:
                    out["outbound"].append((i, st[7] if len(st) > 7 else "?", where))
            rig.settle_pool()
            out["snap"]["end"] = rig.accounting()
            out["settled"] = not rig.unsettled
        except srvkit.Stuck as x:
            out["stuck"] = repr(x)
        out["loop_alive"] = rig.loop_alive
        out["blocked"] = [(c, "acceptor" if t == rig.main_thread else "worker") for c, t in rig.blocked]
        who = lambda t: ("loop" if servertype == "multiplex" else "acceptor") if t == rig.main_thread else "worker"
        out["waited"] = [(c, who(t)) for c, t in rig.waited]
        out["loop_exc"] = rig.loop_exc
        out["obs"] = [rig.observe(c) if c in rig.started else None for c in range(h["nconn"])]
        out["replies"] = {c: rig.replies(c) for c in list(h["witnesses"]) + [h["fresh"]]}
        out["objects_kept"] = all(id(rig.daemon.objectsById.get(k)) == v for k, v in objs_before.items())
        out["accounting"] = rig.accounting()
        return out
    finally:
        rig.close()


def real_line(h, servertype, out):
    a = out["accounting"]
    if servertype == "thread":
        head = "%d|%d|%d|-" % (1 if out["loop_alive"] else 0, a["busy"], a["idle"])
    else:
        head = "%d|-|-|%s" % (1 if out["loop_alive"] else 0, ",".join(map(str, a["registered"])) or "-")
    conns = []
    for o in out["obs"]:
        if o is None:
            conns.append("fresh||-|0")
            continue
        closed = o["sockclosed"] > 0
        reps = ",".join("%d:%d:%d:%d" % (r[0], r[1], r[2], 1 if r[3] else 0) for r in o["replies"])
        first_ok = bool(o["replies"]) and o["replies"][0][0] == 2
        phase = "closed" if closed else ("active" if first_ok else "fresh")
        conns.append("%s|%s|%s|%d" % (phase, reps, ",".join(map(str, o["execs"])) or "-", o["hook"]))
    return " ; ".join([head] + conns)


def model_canon(servertype, line):
    parts = line.split(" ; ")
    f = parts[0].split("|")          # running|len busy|idle|busy ids|registered|zombie
    if servertype == "thread":
        head = "%s|%s|%s|-" % (f[0], f[1], f[2])
    else:
        regs = sorted(int(x) for x in f[4].split(",")) if f[4] != "-" else []
        head = "%s|-|-|%s" % (f[0], ",".join(map(str, regs)) or "-")
    return " ; ".join([head] + parts[1:])


# ---- the property itself, on the real observations only ----------------------------------------------------
def expected_reply(exp):
    k = exp[0]
    if k in ("connectok", "fresh-handshake"):
        return (2, exp[1], exp[2], False, None)
    if k in ("result", "fresh-call", "item"):
        return (5, exp[1], exp[2], False, exp[3])
    if k in ("error", "stream"):     # an item stream is announced by an exception reply that carries the stream id (STRM)
        return (5, exp[1], exp[2], True, None)
    if k == "ping":
        return (6, exp[1], exp[2], False, None)
    raise ValueError(k)


def reply_matches(rep, want):
    from Pyro5 import serializers
    if (rep[0], rep[1], rep[2], rep[3]) != want[:4]:
        return False
    if want[4] is not None:
        try:
            return serializers.serializers_by_id[rep[2]].loads(rep[6]) == want[4]
        except Exception:
            return False
    return True


def oracle_case(ctx, h, servertype, out, case):
    st = servertype
    # the daemon never connects out on behalf of a peer: no component of a handshake / call / batch payload may make it
    # talk to an address the peer chose (a deserialised Proxy whose methods are remote calls)
    for i, kind, where in out.get("outbound", [])[:1]:
        comp = kind.split(":")[1] if kind.startswith("proxy:") else "unknown"
        ctx.fail("outbound-connection:%s:%s" % (st, comp),
                 "%s server: while handling step %d (a %s payload whose %s is a serialised Pyro5.client.Proxy) the daemon opened a "
                 "connection to the address named in it (%s): its %s now waits on an endpoint the peer chose - one that never answers "
                 "wedges %s" % (st, i, "handshake" if comp.startswith("hs") else "call", comp, where,
                                "request loop" if st == "multiplex" else "worker (or accept loop, when the pool is full)",
                                "the whole daemon for every client" if st == "multiplex" else "that thread for good"), case)
    if out["stuck"]:
        ctx.fail("stuck:" + st, "%s server got stuck: %s — %s" % (st, out["stuck"], (
            "the worker serving that connection never comes back: it spins or waits although everything the peer will ever send "
            "is there, and stays in Pool.busy after the peer has left" if st == "thread" else
            "the handler never returns to the single request loop: no client is served and nothing is accepted any more")), case)
        return
    if not out["loop_alive"]:
        e = out["loop_exc"] or ("?", "loop", "")
        ctx.fail("loop-stopped:%s:%s" % (st, e[1]),
                 "%s server: %s (%s) left transportServer.loop() — in a daemon it leaves requestLoop() and nothing is accepted any more"
                 % (st, e[0], e[2]), case)
        return          # everything else that goes wrong afterwards is a consequence
    # with a communication timeout configured, a stalling peer may cost at most that timeout: every socket the daemon
    # reads from must carry it (a recv() without one blocks its thread - the acceptor: the whole server - for ever)
    if float(h["commtimeout"]) > 0 and out.get("blocked"):
        who = sorted({w for _, w in out["blocked"]})
        ctx.fail("stall-without-timeout:%s:%s" % (st, "+".join(who)),
                 "%s server with COMMTIMEOUT=%s: the %s read from connection %d, whose peer had stalled, on a socket that was never "
                 "given the timeout: in a daemon this recv() blocks for ever%s"
                 % (st, h["commtimeout"], who[0], out["blocked"][0][0],
                    " and nothing is accepted any more" if "acceptor" in who else ""), case)
    # an invalid prefix (>= 6 bytes) is refused at once: no thread may wait for more bytes from that (connected, silent) peer
    silent = {s[1] for s in h["steps"] if s[0] == "send" and s[3] == "silent"}
    # ... and without a communication timeout the accept loop / the multiplex loop must never wait for ANY peer that has sent
    # everything it is going to send for now (e.g. after it has been refused): with a timeout that costs at most the timeout
    w = [(c, t) for c, t in out.get("waited", []) if c in silent or (t in ("loop", "acceptor") and float(h["commtimeout"]) == 0)]
    if w:
        ctx.fail("waits-for-silent-peer:%s:%s" % (st, w[0][1]),
                 "%s server: connection %d has sent everything it will send for now (an invalid prefix / a message that was answered "
                 "or refused) and stays connected; the %s waited for further bytes from it%s"
                 % (st, w[0][0], w[0][1], {"loop": ": the whole multiplex loop stands still", "acceptor": ": nothing is accepted meanwhile",
                                           "worker": ""}[w[0][1]]), case)
    # a caller that stays connected and waits gets an answer or loses the connection - never neither (it would wait for ever,
    # and so would the thread serving it)
    for i, c, kind in out.get("unanswered", [])[:1]:
        ctx.fail("no-reply-no-close:" + st,
                 "%s server: step %d (%s) is a complete request on connection %d, whose peer stays connected and waits for the "
                 "answer: the daemon neither answered nor ended the connection - the caller%s wait for each other for good"
                 % (st, i, kind, c, " and the worker serving it" if st == "thread" else " and its registration in the loop"), case)
    # witnesses: exactly the correct replies to their own calls, still connected
    for w in h["witnesses"]:
        wsteps = [s for s in h["steps"] if s[0] == "send" and s[1] == w and s[6]]
        want = [expected_reply(s[6]) for s in wsteps]
        got = out["replies"][w]
        lost = [s for s, g in zip(wsteps, got) if s[6][0] == "item" and not reply_matches(g, expected_reply(s[6]))]
        if lost and all(reply_matches(g, expected_reply(s[6])) for s, g in zip(wsteps, got) if s[6][0] != "item"):
            ctx.fail("witness-stream-lost:" + st,
                     "%s server (ITER_STREAM_LINGER=%s): witness connection %d, connected all along, is half way through an item "
                     "stream; fetching item %r it got %s instead - its stream was dropped while OTHER connections came and went"
                     % (st, h.get("linger"), w, lost[0][6][3],
                        "an error reply" if got[wsteps.index(lost[0])][3] else "a wrong item"), case)
        elif len(got) != len(want) or not all(reply_matches(g, x) for g, x in zip(got, want)):
            ctx.fail("witness-reply:" + st, "%s server: witness connection %d received %r, its own calls demand %r"
                     % (st, w, [(g[0], g[1], g[2], g[3]) for g in got], [x[:4] for x in want]), case)
        o = out["obs"][w]
        toks = [s[6][3] for s in h["steps"] if s[0] == "send" and s[1] == w and s[6] and s[6][0] == "result"]
        if o is None or o["sockclosed"] or (st == "thread" and o["job_done"]) or (st == "multiplex" and not o["registered"]):
            ctx.fail("witness-dropped:" + st, "%s server: witness connection %d is no longer served" % (st, w), case)
        elif [t for t in o["execs"] if t in toks] != toks:
            ctx.fail("witness-exec:" + st, "%s server: witness %d calls executed %r, sent %r" % (st, w, o["execs"], toks), case)
    # a new connection afterwards
    f = h["fresh"]
    got = out["replies"][f]
    if out["loop_alive"]:
        if out["fresh_pool_full"]:
            ok = len(got) == 1 and got[0][0] == 3
        else:
            want = [expected_reply(s[6]) for s in h["steps"] if s[0] == "send" and s[1] == f and s[6]]
            ok = len(got) == len(want) and all(reply_matches(g, x) for g, x in zip(got, want))
        if not ok:
            ctx.fail("fresh-handshake:" + st, "%s server: a new connection after the attack got %r (pool full: %s)"
                     % (st, [(g[0], g[1], g[2], g[3]) for g in got], out["fresh_pool_full"]), case)
    # accounting once every hostile peer is gone
    pre, post = out["snap"].get("pre"), out["snap"].get("post")
    for c in h["hostile"]:
        o = out["obs"][c]
        if o is not None and not o["sockclosed"]:
            ctx.fail("hostile-not-closed:" + st, "%s server: connection %d was never closed although its peer is gone" % (st, c), case)
    if pre is not None and post is not None and out["loop_alive"]:
        if st == "thread":
            mn = min(h["poolsize"], 2)
            if not out.get("settled", True) or post["busy"] != pre["busy"]:
                ctx.fail("worker-stranded", "thread pool: %d busy workers before the attack, %d after every hostile peer had gone"
                         % (pre["busy"], post["busy"]), case)
            elif not (pre["idle"] <= post["idle"] <= mn):
                ctx.fail("idle-workers-lost", "thread pool: %d idle workers before the attack, %d afterwards (MIN %d)"
                         % (pre["idle"], post["idle"], mn), case)
        elif post["registered"] != pre["registered"]:
            ctx.fail("selector-accounting", "multiplex selector: registered %r before the attack, %r afterwards"
                     % (pre["registered"], post["registered"]), case)
    if not out["objects_kept"]:
        ctx.fail("objects-lost:" + st, "%s server: daemon.objectsById changed during the attack" % st, case)


# ---- suites -----------------------------------------------------------------------------------------------------
def _corpus():
    d = os.path.join(common.VERIF, "corpus", "C05")
    out = []
    if os.path.isdir(d):
        for f in sorted(os.listdir(d)):
            if f.endswith(".json"):
                c = json.load(open(os.path.join(d, f)))
                h = c["history"]
                if "trap_port_placeholder" in c:
                    # the witness names PYRO:trap@127.0.0.1:<placeholder>: point it at this process's black-hole listener
                    old = ("trap@127.0.0.1:%d" % c["trap_port_placeholder"]).encode()
                    new = ("trap@127.0.0.1:%d" % c05_rig.Trap.get().blackhole[1]).encode()
                    for st in h["steps"]:
                        if st[0] == "send" and old in common.unhx(st[2]):
                            st[2] = common.hx(_repoint(common.unhx(st[2]), old, new))
                out.append(h)
    return out


def _repoint(msg, old, new):
    """replace the trap address inside a message's payload and fix the lengths that depend on it"""
    from Pyro5 import protocol
    m = protocol.ReceivingMessage(msg[:40], msg[40:])
    data = bytes(m.data)
    data = data.replace(old, new)        # the corpus witnesses use the text serializers (serpent, json): no length prefixes
    from Pyro5.callcontext import current_context
    saved = current_context.correlation_id
    current_context.correlation_id = None
    try:
        return bytes(protocol.SendingMessage(m.type, m.flags, m.seq, m.serializer_id, data).data)
    finally:
        current_context.correlation_id = saved


def _nontrivial(h, out):
    answered = any(len(out["replies"][w]) >= 2 for w in h["witnesses"])
    hostile = any(s[0] == "send" and s[1] in h["hostile"] and s[5] and any(it[0] in ("G", "X", "T") or it[1] not in ("1", "4", "6")
                  or "x" in it or "U" in it for it in s[5]) for s in h["steps"])
    return answered and hostile


def _run(ctx, name, n, do_model):
    rng = ctx.sub_rng(name)
    gen = c05_gen.HistGen(rng, exhaustive=c05_gen.sweep(rng, ctx.tier == "thorough") if do_model else None)
    state = {"stuck": 0, "made": 0}

    def chunks():
        if do_model:
            yield _corpus()
        while state["made"] < n or (do_model and any(gen.exhaustive.values()) and state["made"] < n + 20000):
            k = min(1000, max(n - state["made"], 200))      # the systematic sweep must be used up, too
            state["made"] += k
            yield (gen.history(None) for _ in range(k))     # lazily: on a tree where the decoder hangs each history costs seconds

    with warnings.catch_warnings():
        # serpent parses (mutated) payload text with ast.literal_eval, which warns about odd escape sequences
        warnings.simplefilter("ignore", SyntaxWarning)
        for hists in chunks():
            if state["stuck"] >= 3:
                ctx.notes.append("C05: stopped after 3 stuck / unsettled runs (every further one would wait for its deadline again)")
                break
            _run_chunk(ctx, gen, hists, do_model, state)


def _run_chunk(ctx, gen, hists, do_model, state):
    lines, reals, cases = [], [], []
    for h in hists:
        if state["stuck"] >= 3:
            break
        for st in ("thread", "multiplex"):
            ml = c05_gen.model_line(h, st)
            case = {"servertype": st, "history": h}
            out = run_real(h, st)
            ctx.evaluations += 1
            oracle_case(ctx, h, st, out, case)
            for s in h["steps"]:
                if s[0] == "send" and s[1] in h["hostile"]:
                    ctx.count("hostile:" + (s[7] if len(s) > 7 else "semantic").split(":")[0] + (":unclassified" if s[5] is None else ""))
            if out["stuck"] or not out.get("settled", True):
                state["stuck"] += 1
            if out["stuck"]:
                continue
            if ml is not None:
                lines.append(ml)
                reals.append(real_line(h, st, out))
                cases.append(case)
                if _nontrivial(h, out):
                    ctx.nontriv(lines[-1])
            if len(ctx.samples) < 4 and ml is not None and len(ml) < 900:
                ctx.sample({"servertype": st, "model_request": ml, "observed": real_line(h, st, out)})
    if do_model:
        if lines:
            outs = common.run_driver("drv_c05", lines)
            ctx.corr_cases += len(lines)
            for l, r, o, c in zip(lines, reals, outs, cases):
                m = model_canon(c["servertype"], o)
                if r != m:
                    ctx.mismatch("loop", {"line": l[:3000], "servertype": c["servertype"], "case": c}, r, m)
        checks, gen.checks = gen.checks, []
        if checks:
            outs = common.run_driver("drv_c06", [c[0] for c in checks])
            ctx.corr_cases += len(checks)
            for (l, r), o in zip(checks, outs):
                # " IR!" / " IH!" / " IG!" ... (any " I<letter>!") are drv_c06's own cross-checks of C06's source transcriptions (Gen/C06.lean, which this
                # check does not regenerate): not part of the classification
                o = re.sub(r"( I[A-Z]!)+$", "", o)
                if r != o:
                    ctx.mismatch("classify", {"line": l[:800]}, r[:300], o[:300])
    else:
        gen.checks = []


def correspondence(ctx):
    _run(ctx, "hist", ctx.n(1200, 20000), True)


def oracle(ctx):
    from props import c05_real
    c05_real.run(ctx)
    if ctx.search_mode:
        for h in _corpus():
            for st in ("thread", "multiplex"):
                oracle_case(ctx, h, st, run_real(h, st), {"servertype": st, "history": h})
        _run(ctx, "search", ctx.n(300, 3000), False)


def replay(ctx, case):
    f = case.get("failing_input") or {}
    c = f.get("case") or {}
    if c.get("real_sockets"):
        from props import c05_real
        return c05_real.replay(ctx, c)
    if "history" not in c:
        print(json.dumps(case.get("no_longer_checks")))
        return 1
    h = c["history"]
    out = run_real(h, c["servertype"])
    print("model request:", c05_gen.model_line(h, c["servertype"]))
    print("observed:", real_line(h, c["servertype"], out))
    print("loop alive:", out["loop_alive"], out["loop_exc"])
    before = len(ctx.failures)
    oracle_case(ctx, h, c["servertype"], out, c)
    for fl in ctx.failures[before:]:
        print("  ", fl["signature"], "-", fl["desc"])
    bad = len(ctx.failures) > before
    print("VIOLATION reproduced" if bad else "not reproduced")
    return 1 if bad else 0
