"""C05 — no client input can stop the daemon or disturb other clients."""
import ast
import json
import os
import socket
import warnings

import common
import srvkit
from props import c05_gen, c05_rig, c08

ID = "C05"
LEAN_MODEL_TARGETS = ["drv_c05", "drv_c06"]
LEAN_PROOF_TARGETS = ["PyroProps.C05"]
AUDIT_FILES = ["PyroModel/Server.lean", "PyroModel/ServerLoop.lean", "PyroModel/Gen/C05.lean", "PyroProofs/ServerLoop.lean",
               "PyroProps/C05.lean"]
THEOREMS = ["Pyro.C05.C05_loop_survives", "Pyro.C05.C05_frame", "Pyro.C05.C05_witness_correct",
            "Pyro.C05.C05_no_stranded_worker", "Pyro.C05.C05_selector_exact", "Pyro.C05.C05_accounting_restored",
            "Pyro.C05.C05_accepts_after", "Pyro.C05.C05_objects_kept", "Pyro.C05.C05_refines_server",
            "Pyro.C05.C05_gen_cfg_good", "Pyro.C05.C05_gen_subclass", "Pyro.C05.C05_gen_shape",
            "Pyro.C05.C05_current_source", "Pyro.C05.C05_unguarded_deny_stops"]
SUITES = ["loop", "classify"]
RULE = ("histories on the real thread-pool and multiplex servers, driven through their own loop() over in-memory sockets, pool "
        "sizes 2-8, COMMTIMEOUT 0 / 0.2: 1-2 witness connections (handshake, then calls returning / raising serialisable and "
        "unserialisable exceptions, pings, unknown objects, private members) interleaved in generated orders with 1-5 hostile "
        "connections; a hostile connection acts before, during or after its handshake: every kind of semantic item (any message "
        "type / serializer id / payload shape, methods raising every exception class, callbacks, oneway) and byte-level mutants of "
        "a valid handshake / invoke message (every header field at 0, 1, max-1, max, cur+-1 and the meaningful codes; data / "
        "annotation lengths off by +-1, +-8, shifted, at and beyond MAX_MESSAGE_SIZE; every prefix truncation; payload bytes "
        "flipped; garbage with and without the PYRO tag), optionally with a valid message behind, ended by eof / reset / timeout, "
        "the peer gone (send fails) or not when the daemon answers; connections beyond the pool size are denied by the acceptor; "
        "afterwards every hostile peer disconnects and a new connection handshakes and calls.  The bytes are classified into model "
        "items with the real decoder and the classification is checked against the C06 decoder model (suite classify). "
        "non-trivial = the history contains a hostile delivery that the daemon did not simply accept, next to a witness call "
        "that was answered; distinct = distinct model line x transport.  A second oracle-only suite does the same over real unix "
        "sockets with a daemon thread in requestLoop().")
ASSUMPTIONS = ["byte level (exact reads, header validation) is as proved for C17 / C06; each delivery is classified by the real "
               "decoder and cross-checked against the C06 model",
               "a peer that stalls in the middle of a message WITHOUT disconnecting blocks the multiplex loop (and the thread "
               "server's acceptor while it denies a connection) until COMMTIMEOUT: timing lives in the OS and is outside the "
               "quantifier of the property (\"cut short by a disconnect\"); every generated partial message is followed by an ending",
               "exceptions that are not subclasses of Exception (KeyboardInterrupt, SystemExit) are outside the statement",
               "thread scheduling: deliveries are made one at a time and the harness waits until the serving thread is idle again"]
TRUSTED = ["harness/srvkit.py + harness/props/c05_rig.py (in-memory sockets / listener / selector; real Daemon, real loop(), real Pool)",
           "classification of mutated bytes into model items (c05_gen.classify: real decoder + real deserialiser, checked against drv_c06)"]

HANDLERS = ["exception", "baseException", "connClosed", "pyroTimeout", "communication", "pyroError", "security", "osError",
            "sockTimeout", "keyboardInterrupt"]


# ---- extractor ------------------------------------------------------------------------------------------
def extract():
    common.repo_on_path()
    from Pyro5 import svr_threads, svr_multiplex, errors, server
    cls_name = {Exception: "exception", BaseException: "baseException", errors.ConnectionClosedError: "connClosed",
                errors.TimeoutError: "pyroTimeout", errors.CommunicationError: "communication", errors.PyroError: "pyroError",
                errors.SecurityError: "security", OSError: "osError", socket.timeout: "sockTimeout",
                KeyboardInterrupt: "keyboardInterrupt"}
    from Pyro5 import serializers
    if serializers.MarshalSerializer.serializer_id != c05_gen.MARSHAL_ID:
        raise ValueError("marshal serializer id changed")
    if socket.timeout is OSError:
        raise ValueError("socket.timeout is OSError on this interpreter")

    def names_of(mod, expr):
        if expr is None:
            return ["baseException"]
        elts = expr.elts if isinstance(expr, ast.Tuple) else [expr]
        out = []
        for e in elts:
            obj = eval(compile(ast.Expression(e), "<except>", "eval"), vars(mod))
            if obj not in cls_name:
                raise ValueError("except clause names a class the model does not know: %s" % ast.unparse(e))
            out.append(cls_name[obj])
        return out

    def find(tree, cname, fname):
        c = [n for n in tree.body if isinstance(n, ast.ClassDef) and n.name == cname][0]
        return [n for n in c.body if isinstance(n, ast.FunctionDef) and n.name == fname][0]

    def calls(node, attr):
        return [n for n in ast.walk(node) if isinstance(n, ast.Call) and isinstance(n.func, ast.Attribute) and n.func.attr == attr]

    def try_around(fn, attr):
        """innermost Try whose *body* contains a call of .attr()"""
        best = None
        for t in ast.walk(fn):
            if isinstance(t, ast.Try) and any(calls(st, attr) for st in t.body):
                if best is None or any(t is x for x in ast.walk(best)):
                    best = t
        return best

    def ladder(mod, t, ends=None):
        out = []
        for h in t.handlers:
            if ends is not None and not ends(h):
                continue
            out += names_of(mod, h.type)
        return out

    def methods_of(tree, cname):
        c = [n for n in tree.body if isinstance(n, ast.ClassDef) and n.name == cname][0]
        return {n.name: n for n in c.body if isinstance(n, ast.FunctionDef)}

    def self_call(node):
        """name M if node is the call self.M(...)"""
        if isinstance(node, ast.Call) and isinstance(node.func, ast.Attribute) and isinstance(node.func.value, ast.Name) \
                and node.func.value.id == "self":
            return node.func.attr
        return None

    def attr_calls_in_order(stmts, wanted, meths=None, depth=0):
        """attribute calls named in `wanted`, in source order; calls of the class's own helper methods are looked into"""
        out = []

        def visit(node):
            if isinstance(node, ast.Call):
                m = self_call(node)
                if meths and m in meths and m not in wanted and depth < 3:
                    out.extend(attr_calls_in_order(meths[m].body, wanted, meths, depth + 1))
                elif isinstance(node.func, ast.Attribute) and node.func.attr in wanted:
                    for ch in ast.iter_child_nodes(node):
                        visit(ch)
                    out.append(node.func.attr)
                    return
            for ch in ast.iter_child_nodes(node):
                visit(ch)
        for st in stmts:
            visit(st)
        return out

    def contains(stmts, target, meths):
        """target node lies in stmts, directly or inside a helper method of the class that stmts call"""
        for st in stmts:
            for n in ast.walk(st):
                if n is target:
                    return True
                m = self_call(n)
                if m in meths and any(x is target for x in ast.walk(meths[m])):
                    return True
        return False

    tt = ast.parse(open(svr_threads.__file__).read())
    mt = ast.parse(open(svr_multiplex.__file__).read())

    # -- thread: ClientConnectionJob.__call__
    call = find(tt, "ClientConnectionJob", "__call__")
    jobm = methods_of(tt, "ClientConnectionJob")
    t = None
    for fn in [call] + [f for f in jobm.values() if f is not call]:      # the loop may live in a helper method of the job
        t = try_around(fn, "handleRequest")
        if t is not None:
            break
    if t is None or not all(isinstance(h.body[-1], (ast.Break, ast.Return)) for h in t.handlers):
        raise ValueError("ClientConnectionJob: request loop shape not recognised")
    thr_job = ladder(svr_threads, t)
    outer = [x for x in ast.walk(call) if isinstance(x, ast.Try) and x.finalbody and contains(x.body, t, jobm)]
    thread_finally = attr_calls_in_order(outer[0].finalbody, ("_clientDisconnect", "close"), jobm) if outer else []
    # -- thread: handleConnection
    hc = find(tt, "ClientConnectionJob", "handleConnection")
    t = try_around(hc, "_handshake")
    thr_shake = ladder(svr_threads, t) if t is not None else []
    # -- thread: denyConnection
    dc = find(tt, "ClientConnectionJob", "denyConnection")
    t = try_around(dc, "_handshake")
    thr_deny = ladder(svr_threads, t, lambda h: not any(isinstance(n, ast.Raise) for n in ast.walk(h))) if t is not None else []
    silent = t is not None and bool(thr_deny) and not any(isinstance(n, ast.Raise) for h in t.handlers for n in ast.walk(h))
    deny_closes = t is not None and (bool(calls(ast.Module(t.finalbody, []), "close")) or
                                     (silent and any(calls(st, "close") for st in dc.body[dc.body.index(t) + 1:] if t in dc.body)))
    # -- thread: Worker.run
    run = find(tt, "Worker", "run")
    t = try_around(run, "job")
    thr_worker = ladder(svr_threads, t) if t is not None else []
    loop_body = [n for n in ast.walk(run) if isinstance(n, ast.While)][0].body
    idx_try = [i for i, st in enumerate(loop_body) if st is t]
    notifies_after = bool(idx_try) and any(calls(st, "notify_done") for st in loop_body[idx_try[0] + 1:])
    # -- thread: events (contextlib.suppress) and loop
    ev = find(tt, "SocketServer_Threadpool", "events")
    thr_events = []
    for w in ast.walk(ev):
        if isinstance(w, ast.With) and calls(w, "denyConnection"):
            for item in w.items:
                c = item.context_expr
                if isinstance(c, ast.Call) and getattr(c.func, "attr", "") == "suppress":
                    for a in c.args:
                        thr_events += names_of(svr_threads, a)
    lp = find(tt, "SocketServer_Threadpool", "loop")
    t = try_around(lp, "events")
    continues = lambda h: any(isinstance(n, ast.Continue) for n in ast.walk(h)) or all(isinstance(n, ast.Pass) for n in h.body)
    thr_loop = ladder(svr_threads, t, continues) if t is not None else []
    # -- multiplex
    hr = find(mt, "SocketServer_Multiplex", "handleRequest")
    t = try_around(hr, "handleRequest")
    ret_false = lambda h: isinstance(h.body[-1], ast.Return) and isinstance(h.body[-1].value, ast.Constant) and h.body[-1].value.value is False
    if t is None or not all(ret_false(h) for h in t.handlers):
        raise ValueError("SocketServer_Multiplex.handleRequest: shape not recognised")
    mux_req = ladder(svr_multiplex, t)
    hcm = find(mt, "SocketServer_Multiplex", "_handleConnection")
    t = try_around(hcm, "_handshake")
    mux_shake = ladder(svr_multiplex, t) if t is not None else []
    lpm = find(mt, "SocketServer_Multiplex", "loop")
    t = try_around(lpm, "events")
    mux_loop = ladder(svr_multiplex, t, continues) if t is not None else []
    evm = find(mt, "SocketServer_Multiplex", "events")
    inactive = []
    muxm = methods_of(mt, "SocketServer_Multiplex")
    for node in ast.walk(evm):
        # `if not active:` after `active = self.handleRequest(s)`, or directly `if / elif not self.handleRequest(s):`
        if isinstance(node, ast.If) and isinstance(node.test, ast.UnaryOp) and isinstance(node.test.op, ast.Not) \
                and (getattr(node.test.operand, "id", "") == "active" or self_call(node.test.operand) == "handleRequest"):
            inactive = attr_calls_in_order(node.body, ("_clientDisconnect", "unregister", "close"), muxm)
    # -- socket calls inside except / finally bodies of the transports must themselves be contained: after a reset
    #    getpeername() & co. raise OSError, and an exception raised inside a handler is caught by no sibling clause
    RISKY = {"getpeername", "getsockname", "getpeercert", "shutdown", "fileno", "settimeout", "gettimeout", "send", "recv",
             "register", "unregister"}
    COVER = {"osError", "exception", "baseException"}

    def unguarded(mod, label, fn):
        out = []

        def visit(node, safe):
            if isinstance(node, ast.Try):
                covers = any(set(names_of(mod, h.type)) & COVER for h in node.handlers)
                for st in node.body:
                    visit(st, safe or covers)
                for part in [h.body for h in node.handlers] + [node.orelse, node.finalbody]:
                    for st in part:
                        visit(st, safe)
                return
            if isinstance(node, ast.With):
                sup = False
                for item in node.items:
                    c = item.context_expr
                    if isinstance(c, ast.Call) and getattr(c.func, "attr", "") == "suppress":
                        sup = sup or any(set(names_of(mod, a)) & COVER for a in c.args)
                for st in node.body:
                    visit(st, safe or sup)
                return
            if isinstance(node, ast.Call) and isinstance(node.func, ast.Attribute) and node.func.attr in RISKY and not safe:
                out.append("%s:%s" % (label, node.func.attr))
            for ch in ast.iter_child_nodes(node):
                visit(ch, safe)
        for t in ast.walk(fn):
            if isinstance(t, ast.Try):
                for part in [h.body for h in t.handlers] + [t.finalbody]:
                    for st in part:
                        visit(st, False)
        return sorted(set(out))

    unguarded_calls = []
    SETUP = {"__init__", "init", "__del__", "__repr__", "close", "shutdown", "wakeup", "combine_loop", "sockets", "selector", "process"}
    for mod, tree, cname in ((svr_threads, tt, "ClientConnectionJob"), (svr_threads, tt, "Worker"),
                             (svr_threads, tt, "SocketServer_Threadpool"), (svr_multiplex, mt, "SocketServer_Multiplex")):
        for fname, fn in sorted(methods_of(tree, cname).items()):          # incl. helper methods the serving code is split into
            if fname not in SETUP:
                unguarded_calls += unguarded(mod, "%s.%s" % (cname, fname), fn)

    # -- with COMMTIMEOUT configured the accepted socket gets its timeout before anything reads from it: in the accept loop,
    #    ahead of the job's creation (so the deny path, which runs in the accept loop, reads with the timeout too)
    def lineno_of(fn, pred):
        ls = [n.lineno for n in ast.walk(fn) if pred(n)]
        return min(ls) if ls else None

    def guarded_settimeout(fn):
        for n in ast.walk(fn):
            if isinstance(n, ast.If) and "COMMTIMEOUT" in ast.unparse(n.test) and calls(ast.Module(n.body, []), "settimeout"):
                return n.lineno
        return None
    st_line = guarded_settimeout(ev)
    job_line = lineno_of(ev, lambda n: isinstance(n, ast.Call) and getattr(n.func, "id", "") == "ClientConnectionJob")
    thr_timeout_first = st_line is not None and job_line is not None and st_line < job_line
    st_line = guarded_settimeout(hcm)
    hs_line = lineno_of(hcm, lambda n: isinstance(n, ast.Call) and getattr(n.func, "attr", "") == "_handshake")
    mux_timeout_first = st_line is not None and hs_line is not None and st_line < hs_line

    # -- the daemon: _handshake sends outside its try; (checked so that `gone` means what the model says)
    stree = ast.parse(open(server.__file__).read())
    hs = find(stree, "Daemon", "_handshake")
    t = try_around(hs, "recv_stub")
    if t is None or any(calls(st, "send") for st in t.body) or not any(calls(st, "send") for st in hs.body if st is not t):
        raise ValueError("Daemon._handshake: the reply is no longer sent after (outside) the try block")

    # -- recv_stub refuses an invalid prefix after its first six bytes: first recv of a constant <= 6, validate, then the rest
    from Pyro5 import protocol
    ptree = ast.parse(open(protocol.__file__).read())
    rs = [n for n in ptree.body if isinstance(n, ast.FunctionDef) and n.name == "recv_stub"][0]
    order = []
    for n in sorted((n for n in ast.walk(rs) if isinstance(n, ast.Call) and isinstance(n.func, ast.Attribute)
                     and n.func.attr in ("recv", "validate")), key=lambda n: (n.lineno, n.col_offset)):
        if n.func.attr == "recv":
            a = n.args[0] if n.args else None
            order.append("recv:%s" % (a.value if isinstance(a, ast.Constant) else "expr"))
        else:
            order.append("validate")
    prefix_first = len(order) >= 3 and order[0].startswith("recv:") and order[0][5:].isdigit() and int(order[0][5:]) <= 6 \
        and order[1] == "validate" and order[2].startswith("recv:")
    # -- the fallback for an exception that cannot be serialised catches every Exception
    sx = find(stree, "Daemon", "_serializeException")
    t = try_around(sx, "dumps")
    def handler_classes(mod, h):
        if h.type is None:
            return [BaseException]
        elts = h.type.elts if isinstance(h.type, ast.Tuple) else [h.type]
        return [eval(compile(ast.Expression(e), "<except>", "eval"), vars(mod)) for e in elts]
    fallback_all = t is not None and any(c in (Exception, BaseException) for h in t.handlers for c in handler_classes(server, h))

    reps = [("connClosed", errors.ConnectionClosedError), ("pyroTimeout", errors.TimeoutError), ("protocol", errors.ProtocolError),
            ("serialize", errors.SerializeError), ("security", errors.SecurityError), ("osError", OSError),
            ("sockTimeout", socket.timeout), ("other", KeyError), ("keyboardInterrupt", KeyboardInterrupt), ("baseOther", SystemExit)]
    name_cls = {v: k for k, v in cls_name.items()}
    table = []
    for cname, cls in reps:
        hs_ = [h for h in HANDLERS if issubclass(cls, name_cls[h])]
        table.append("(.%s, [%s])" % (cname, ", ".join("." + h for h in hs_)))
    L = lambda xs: "[" + ", ".join("." + x for x in xs) + "]"
    b = lambda x: "true" if x else "false"
    return f"""-- GENERATED by harness/props/c05.py from Pyro5/svr_threads.py, svr_multiplex.py, server.py, errors.py — do not edit
import PyroModel.ServerLoop
namespace Pyro.Gen.C05
open Pyro.ServerLoop
/-- the except-ladders of the transports, in clause order -/
def cfg : Cfg :=
  {{ thrJob := {L(thr_job)},
    thrShake := {L(thr_shake)},
    thrDeny := {L(thr_deny)},
    thrWorker := {L(thr_worker)},
    thrEvents := {L(thr_events)},
    thrLoop := {L(thr_loop)},
    muxReq := {L(mux_req)},
    muxShake := {L(mux_shake)},
    muxLoop := {L(mux_loop)} }}
/-- issubclass(representative of the class, class named by the handler), from the real classes -/
def subclassTable : List (Cls × List Handler) :=
  [{(chr(10) + "   ").join(x + "," for x in table)[:-1]}]
/-- calls in the `finally:` of ClientConnectionJob.__call__, in order -/
def threadFinally : List String := {json.dumps(thread_finally)}
/-- Worker.run calls pool.notify_done after (outside) the try around the job -/
def workerNotifiesAfterTry : Bool := {b(notifies_after)}
/-- calls in the `if not active:` branch of SocketServer_Multiplex.events, in order -/
def multiplexInactive : List String := {json.dumps(inactive)}
/-- denyConnection closes the socket on every path (close in a `finally`, or after a try whose handlers do not raise) -/
def denyAlwaysCloses : Bool := {b(deny_closes)}
/-- socket calls (getpeername, shutdown, send, ...) inside except / finally bodies of the transports that are not themselves
    inside a try / suppress covering OSError: after a reset they raise, and nothing around a handler catches that -/
def unguardedSocketCalls : List String := {json.dumps(unguarded_calls)}
/-- `if config.COMMTIMEOUT: csock.settimeout(..)` stands in the accept loop before the connection job is created
    (thread; so the refusal path reads with the timeout too) / before `_handshake` (multiplex) -/
def threadTimeoutBeforeJob : Bool := {b(thr_timeout_first)}
def multiplexTimeoutBeforeHandshake : Bool := {b(mux_timeout_first)}
/-- recv_stub reads at most 6 bytes, validates them, and only then reads the rest of the header: an invalid prefix is
    refused without waiting for more bytes from the peer -/
def headerPrefixValidatedFirst : Bool := {b(prefix_first)}
/-- Daemon._serializeException: the fallback around serializer.dumps(exc_value) is `except Exception` (whatever goes wrong
    while serialising a raised exception, the caller still gets an error reply and keeps its connection) -/
def exceptionFallbackCatchesAll : Bool := {b(fallback_all)}
end Pyro.Gen.C05
"""


# ---- running a history on the real code --------------------------------------------------------------------
def run_real(h, servertype):
    rig = c05_rig.LoopRig(servertype, poolsize=h["poolsize"], commtimeout=float(h["commtimeout"]))
    out = {"stuck": None, "snap": {}, "fresh_pool_full": None}
    try:
        objs_before = {k: id(v) for k, v in rig.daemon.objectsById.items()}
        try:
            for i, st in enumerate(h["steps"]):
                if i == h["pre"]:
                    rig.settle_pool()
                    out["snap"]["pre"] = rig.accounting()
                if st[0] == "connect":
                    rig.connect(st[1])
                    continue
                if st[6] and st[6][0] == "fresh-handshake":
                    rig.settle_pool()
                    out["snap"]["post"] = rig.accounting()
                    out["fresh_pool_full"] = rig.pool_full() if servertype == "thread" else False
                rig.deliver(st[1], common.unhx(st[2]), st[3], st[4])
            rig.settle_pool()
            out["snap"]["end"] = rig.accounting()
            out["settled"] = not rig.unsettled
        except srvkit.Stuck as x:
            out["stuck"] = repr(x)
        out["loop_alive"] = rig.loop_alive
        out["blocked"] = [(c, "acceptor" if t == rig.main_thread else "worker") for c, t in rig.blocked]
        who = lambda t: ("loop" if servertype == "multiplex" else "acceptor") if t == rig.main_thread else "worker"
        out["waited"] = [(c, who(t)) for c, t in rig.waited]
        out["loop_exc"] = rig.loop_exc
        out["obs"] = [rig.observe(c) if c in rig.started else None for c in range(h["nconn"])]
        out["replies"] = {c: rig.replies(c) for c in list(h["witnesses"]) + [h["fresh"]]}
        out["objects_kept"] = all(id(rig.daemon.objectsById.get(k)) == v for k, v in objs_before.items())
        out["accounting"] = rig.accounting()
        return out
    finally:
        rig.close()


def real_line(h, servertype, out):
    a = out["accounting"]
    if servertype == "thread":
        head = "%d|%d|%d|-" % (1 if out["loop_alive"] else 0, a["busy"], a["idle"])
    else:
        head = "%d|-|-|%s" % (1 if out["loop_alive"] else 0, ",".join(map(str, a["registered"])) or "-")
    conns = []
    for o in out["obs"]:
        if o is None:
            conns.append("fresh||-|0")
            continue
        closed = o["sockclosed"] > 0
        reps = ",".join("%d:%d:%d:%d" % (r[0], r[1], r[2], 1 if r[3] else 0) for r in o["replies"])
        first_ok = bool(o["replies"]) and o["replies"][0][0] == 2
        phase = "closed" if closed else ("active" if first_ok else "fresh")
        conns.append("%s|%s|%s|%d" % (phase, reps, ",".join(map(str, o["execs"])) or "-", o["hook"]))
    return " ; ".join([head] + conns)


def model_canon(servertype, line):
    parts = line.split(" ; ")
    f = parts[0].split("|")          # running|len busy|idle|busy ids|registered|zombie
    if servertype == "thread":
        head = "%s|%s|%s|-" % (f[0], f[1], f[2])
    else:
        regs = sorted(int(x) for x in f[4].split(",")) if f[4] != "-" else []
        head = "%s|-|-|%s" % (f[0], ",".join(map(str, regs)) or "-")
    return " ; ".join([head] + parts[1:])


# ---- the property itself, on the real observations only ----------------------------------------------------
def expected_reply(exp):
    k = exp[0]
    if k in ("connectok", "fresh-handshake"):
        return (2, exp[1], exp[2], False, None)
    if k in ("result", "fresh-call"):
        return (5, exp[1], exp[2], False, exp[3])
    if k == "error":
        return (5, exp[1], exp[2], True, None)
    if k == "ping":
        return (6, exp[1], exp[2], False, None)
    raise ValueError(k)


def reply_matches(rep, want):
    from Pyro5 import serializers
    if (rep[0], rep[1], rep[2], rep[3]) != want[:4]:
        return False
    if want[4] is not None:
        try:
            return serializers.serializers_by_id[rep[2]].loads(rep[6]) == want[4]
        except Exception:
            return False
    return True


def oracle_case(ctx, h, servertype, out, case):
    st = servertype
    if out["stuck"]:
        ctx.fail("stuck:" + st, "%s server got stuck: %s — %s" % (st, out["stuck"], (
            "the worker serving that connection never comes back: it spins or waits although everything the peer will ever send "
            "is there, and stays in Pool.busy after the peer has left" if st == "thread" else
            "the handler never returns to the single request loop: no client is served and nothing is accepted any more")), case)
        return
    if not out["loop_alive"]:
        e = out["loop_exc"] or ("?", "loop", "")
        ctx.fail("loop-stopped:%s:%s" % (st, e[1]),
                 "%s server: %s (%s) left transportServer.loop() — in a daemon it leaves requestLoop() and nothing is accepted any more"
                 % (st, e[0], e[2]), case)
        return          # everything else that goes wrong afterwards is a consequence
    # with a communication timeout configured, a stalling peer may cost at most that timeout: every socket the daemon
    # reads from must carry it (a recv() without one blocks its thread - the acceptor: the whole server - for ever)
    if float(h["commtimeout"]) > 0 and out.get("blocked"):
        who = sorted({w for _, w in out["blocked"]})
        ctx.fail("stall-without-timeout:%s:%s" % (st, "+".join(who)),
                 "%s server with COMMTIMEOUT=%s: the %s read from connection %d, whose peer had stalled, on a socket that was never "
                 "given the timeout: in a daemon this recv() blocks for ever%s"
                 % (st, h["commtimeout"], who[0], out["blocked"][0][0],
                    " and nothing is accepted any more" if "acceptor" in who else ""), case)
    # an invalid prefix (>= 6 bytes) is refused at once: no thread may wait for more bytes from that (connected, silent) peer
    silent = {s[1] for s in h["steps"] if s[0] == "send" and s[3] == "silent"}
    w = [(c, t) for c, t in out.get("waited", []) if c in silent]
    if w:
        ctx.fail("waits-for-silent-peer:%s:%s" % (st, w[0][1]),
                 "%s server: connection %d sent 6..39 bytes that already fail the header check and stays connected without sending "
                 "more; instead of refusing it the %s waited for further bytes%s"
                 % (st, w[0][0], w[0][1], {"loop": ": the whole multiplex loop stands still", "acceptor": ": nothing is accepted meanwhile",
                                           "worker": ""}[w[0][1]]), case)
    # witnesses: exactly the correct replies to their own calls, still connected
    for w in h["witnesses"]:
        want = [expected_reply(s[6]) for s in h["steps"] if s[0] == "send" and s[1] == w and s[6]]
        got = out["replies"][w]
        if len(got) != len(want) or not all(reply_matches(g, x) for g, x in zip(got, want)):
            ctx.fail("witness-reply:" + st, "%s server: witness connection %d received %r, its own calls demand %r"
                     % (st, w, [(g[0], g[1], g[2], g[3]) for g in got], [x[:4] for x in want]), case)
        o = out["obs"][w]
        toks = [s[6][3] for s in h["steps"] if s[0] == "send" and s[1] == w and s[6] and s[6][0] == "result"]
        if o is None or o["sockclosed"] or (st == "thread" and o["job_done"]) or (st == "multiplex" and not o["registered"]):
            ctx.fail("witness-dropped:" + st, "%s server: witness connection %d is no longer served" % (st, w), case)
        elif [t for t in o["execs"] if t in toks] != toks:
            ctx.fail("witness-exec:" + st, "%s server: witness %d calls executed %r, sent %r" % (st, w, o["execs"], toks), case)
    # a new connection afterwards
    f = h["fresh"]
    got = out["replies"][f]
    if out["loop_alive"]:
        if out["fresh_pool_full"]:
            ok = len(got) == 1 and got[0][0] == 3
        else:
            want = [expected_reply(s[6]) for s in h["steps"] if s[0] == "send" and s[1] == f and s[6]]
            ok = len(got) == len(want) and all(reply_matches(g, x) for g, x in zip(got, want))
        if not ok:
            ctx.fail("fresh-handshake:" + st, "%s server: a new connection after the attack got %r (pool full: %s)"
                     % (st, [(g[0], g[1], g[2], g[3]) for g in got], out["fresh_pool_full"]), case)
    # accounting once every hostile peer is gone
    pre, post = out["snap"].get("pre"), out["snap"].get("post")
    for c in h["hostile"]:
        o = out["obs"][c]
        if o is not None and not o["sockclosed"]:
            ctx.fail("hostile-not-closed:" + st, "%s server: connection %d was never closed although its peer is gone" % (st, c), case)
    if pre is not None and post is not None and out["loop_alive"]:
        if st == "thread":
            mn = min(h["poolsize"], 2)
            if not out.get("settled", True) or post["busy"] != pre["busy"]:
                ctx.fail("worker-stranded", "thread pool: %d busy workers before the attack, %d after every hostile peer had gone"
                         % (pre["busy"], post["busy"]), case)
            elif not (pre["idle"] <= post["idle"] <= mn):
                ctx.fail("idle-workers-lost", "thread pool: %d idle workers before the attack, %d afterwards (MIN %d)"
                         % (pre["idle"], post["idle"], mn), case)
        elif post["registered"] != pre["registered"]:
            ctx.fail("selector-accounting", "multiplex selector: registered %r before the attack, %r afterwards"
                     % (pre["registered"], post["registered"]), case)
    if not out["objects_kept"]:
        ctx.fail("objects-lost:" + st, "%s server: daemon.objectsById changed during the attack" % st, case)


# ---- suites -----------------------------------------------------------------------------------------------------
def _corpus():
    d = os.path.join(common.VERIF, "corpus", "C05")
    out = []
    if os.path.isdir(d):
        for f in sorted(os.listdir(d)):
            if f.endswith(".json"):
                out.append(json.load(open(os.path.join(d, f)))["history"])
    return out


def _nontrivial(h, out):
    answered = any(len(out["replies"][w]) >= 2 for w in h["witnesses"])
    hostile = any(s[0] == "send" and s[1] in h["hostile"] and s[5] and any(it[0] in ("G", "X", "T") or it[1] not in ("1", "4", "6")
                  or "x" in it or "U" in it for it in s[5]) for s in h["steps"])
    return answered and hostile


def _run(ctx, name, n, do_model):
    rng = ctx.sub_rng(name)
    gen = c05_gen.HistGen(rng, exhaustive=c05_gen.sweep(rng, ctx.tier == "thorough") if do_model else None)
    state = {"stuck": 0, "made": 0}

    def chunks():
        if do_model:
            yield _corpus()
        while state["made"] < n or (do_model and any(gen.exhaustive.values()) and state["made"] < n + 20000):
            k = min(1000, max(n - state["made"], 200))      # the systematic sweep must be used up, too
            state["made"] += k
            yield (gen.history(None) for _ in range(k))     # lazily: on a tree where the decoder hangs each history costs seconds

    with warnings.catch_warnings():
        # serpent parses (mutated) payload text with ast.literal_eval, which warns about odd escape sequences
        warnings.simplefilter("ignore", SyntaxWarning)
        for hists in chunks():
            if state["stuck"] >= 3:
                ctx.notes.append("C05: stopped after 3 stuck / unsettled runs (every further one would wait for its deadline again)")
                break
            _run_chunk(ctx, gen, hists, do_model, state)


def _run_chunk(ctx, gen, hists, do_model, state):
    lines, reals, cases = [], [], []
    for h in hists:
        if state["stuck"] >= 3:
            break
        for st in ("thread", "multiplex"):
            ml = c05_gen.model_line(h, st)
            case = {"servertype": st, "history": h}
            out = run_real(h, st)
            ctx.evaluations += 1
            oracle_case(ctx, h, st, out, case)
            for s in h["steps"]:
                if s[0] == "send" and s[1] in h["hostile"]:
                    ctx.count("hostile:" + (s[7] if len(s) > 7 else "semantic").split(":")[0] + (":unclassified" if s[5] is None else ""))
            if out["stuck"] or not out.get("settled", True):
                state["stuck"] += 1
            if out["stuck"]:
                continue
            if ml is not None:
                lines.append(ml)
                reals.append(real_line(h, st, out))
                cases.append(case)
                if _nontrivial(h, out):
                    ctx.nontriv(lines[-1])
            if len(ctx.samples) < 4 and ml is not None and len(ml) < 900:
                ctx.sample({"servertype": st, "model_request": ml, "observed": real_line(h, st, out)})
    if do_model:
        if lines:
            outs = common.run_driver("drv_c05", lines)
            ctx.corr_cases += len(lines)
            for l, r, o, c in zip(lines, reals, outs, cases):
                m = model_canon(c["servertype"], o)
                if r != m:
                    ctx.mismatch("loop", {"line": l[:3000], "servertype": c["servertype"], "case": c}, r, m)
        checks, gen.checks = gen.checks, []
        if checks:
            outs = common.run_driver("drv_c06", [c[0] for c in checks])
            ctx.corr_cases += len(checks)
            for (l, r), o in zip(checks, outs):
                if r != o:
                    ctx.mismatch("classify", {"line": l[:800]}, r[:300], o[:300])
    else:
        gen.checks = []


def correspondence(ctx):
    _run(ctx, "hist", ctx.n(1200, 20000), True)


def oracle(ctx):
    from props import c05_real
    c05_real.run(ctx)
    if ctx.search_mode:
        for h in _corpus():
            for st in ("thread", "multiplex"):
                oracle_case(ctx, h, st, run_real(h, st), {"servertype": st, "history": h})
        _run(ctx, "search", ctx.n(300, 3000), False)


def replay(ctx, case):
    f = case.get("failing_input") or {}
    c = f.get("case") or {}
    if c.get("real_sockets"):
        from props import c05_real
        return c05_real.replay(ctx, c)
    if "history" not in c:
        print(json.dumps(case.get("no_longer_checks")))
        return 1
    h = c["history"]
    out = run_real(h, c["servertype"])
    print("model request:", c05_gen.model_line(h, c["servertype"]))
    print("observed:", real_line(h, c["servertype"], out))
    print("loop alive:", out["loop_alive"], out["loop_exc"])
    before = len(ctx.failures)
    oracle_case(ctx, h, c["servertype"], out, c)
    for fl in ctx.failures[before:]:
        print("  ", fl["signature"], "-", fl["desc"])
    bad = len(ctx.failures) > before
    print("VIOLATION reproduced" if bad else "not reproduced")
    return 1 if bad else 0
