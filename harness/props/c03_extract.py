"""
C03 extractor: facts about the CURRENT source, obtained by PROBING the real objects (not by reading their syntax):
the real functions are called on small tables of inputs over scripted fakes, and the tables are emitted as Lean
definitions (PyroModel/Gen/C03.lean).  A refactoring that keeps the behaviour keeps the tables; a change of behaviour
changes an entry and the obligation `C03_gen_*` about it no longer builds.

  invokeProbe     Proxy._pyroInvoke over a scripted connection object           (what is returned / raised, is the
                  connection released, sequence number afterwards, number of reads)
  handshakeProbe  Proxy._pyroBind over a scripted socket (patched socketutil.create_socket)
  retryProbe      _RemoteMethod.__call__ with a `send` that always raises a given exception class
  pathProbe       number of _pyroInvoke attempts made by each way of using a proxy whose _pyroMaxRetries is 2
                  (method, attribute read/write, batch, stream fetch, ...), metadata lookups, BatchProxy re-use
  serverProbe     the real Daemon (_handshake / handleRequest / get_next_stream_item): sequence number of each kind of reply
  seqFieldMax, commErrors, maxRetriesDefault
"""
import json
import os
import shutil
import socket
import struct
import tempfile
import threading

import common


class FakeConn:
    """stands for the proxy's SocketConnection: scripted send / recv"""

    def __init__(self, inbound=b"", send_exc=None, recv_exc=None):
        self.objectId = "obj"
        self.inbound = bytearray(inbound)
        self.send_exc = send_exc
        self.recv_exc = recv_exc
        self.sent = bytearray()
        self.recvs = 0
        self.closed = 0
        self.timeout = None

    def send(self, data):
        if self.send_exc is not None:
            raise self.send_exc
        self.sent += bytes(data)

    def recv(self, size):
        self.recvs += 1
        if len(self.inbound) < size:
            if self.recv_exc is not None:
                raise self.recv_exc
            raise AssertionError("probe: read of %d bytes, %d available" % (size, len(self.inbound)))
        out = bytes(self.inbound[:size])
        del self.inbound[:size]
        return out

    def close(self):
        self.closed += 1

    def family(self):
        return "fake"


class FakeSock:
    """stands for the client socket during a handshake"""
    family = socket.AF_INET

    def __init__(self, make_reply, send_exc=None, recv_exc=None):
        self.make_reply = make_reply      # request bytes -> reply bytes
        self.send_exc = send_exc
        self.recv_exc = recv_exc
        self.inbound = bytearray()
        self.closed = 0

    def sendall(self, data):
        if self.send_exc is not None:
            raise self.send_exc
        self.inbound += self.make_reply(bytes(data))

    def send(self, data):
        self.sendall(data)
        return len(data)

    def recv(self, n, flags=0):
        if not self.inbound:
            if self.recv_exc is not None:
                raise self.recv_exc
            return b""
        out = bytes(self.inbound[:n])
        del self.inbound[:n]
        return out

    def gettimeout(self):
        return None

    def settimeout(self, t):
        pass

    def setblocking(self, b):
        pass

    def getsockname(self):
        return ("fake-client", 1)

    def getpeername(self):
        return ("fake-server", 1)

    def shutdown(self, how):
        pass

    def close(self):
        self.closed += 1

    def fileno(self):
        return 4000


class SrvSock:
    family = socket.AF_INET

    def __init__(self):
        self.inbound = bytearray()
        self.sent = bytearray()

    def recv(self, n, flags=0):
        if not self.inbound:
            raise ConnectionResetError(104, "nothing pending")
        out = bytes(self.inbound[:n])
        del self.inbound[:n]
        return out

    def send(self, data):
        self.sent += bytes(data)
        return len(data)

    def sendall(self, data):
        self.sent += bytes(data)

    def gettimeout(self):
        return None

    def settimeout(self, t):
        pass

    def setblocking(self, b):
        pass

    def getpeername(self):
        return ("fake-client", 1)

    def getsockname(self):
        return ("fake-server", 1)

    def shutdown(self, how):
        pass

    def close(self):
        pass

    def fileno(self):
        return 4001


def _name(x):
    return type(x).__name__


# ---------------------------------------------------------------------------------------------------------
def probe_invoke():
    from Pyro5 import client, protocol, errors, serializers, config
    ser = serializers.serializers[config.SERIALIZER]
    other = [s for s in serializers.serializers_by_id.values() if s.serializer_id != ser.serializer_id][0]

    def reply(seq, value=("val",), mtype=None, flags=0, serid=None):
        return bytes(protocol.SendingMessage(protocol.MSG_RESULT if mtype is None else mtype, flags, seq,
                                             ser.serializer_id if serid is None else serid, ser.dumps(value)).data)

    def run(seq0, conn, method="m", raw=False):
        p = client.Proxy("PYRO:obj@localhost:1")
        p._pyroMethods, p._pyroOneway = {"m", "ow"}, {"ow"}
        p._pyroSeq = seq0
        p._pyroRawWireResponse = raw
        p._pyroConnection = conn
        try:
            r = p._pyroInvoke(method, (1,), {})
            out = "none" if r is None else ("msg" if isinstance(r, protocol.ReceivingMessage) else "ret")
        except BaseException as x:      # noqa
            out = _name(x)
        state = "kept" if p._pyroConnection is conn else ("released" if p._pyroConnection is None and conn.closed else "other")
        res = "%s/%s/seq=%d/reads=%d" % (out, state, p._pyroSeq, min(conn.recvs, 1))
        p._pyroConnection = None
        return res

    boom = ser.dumps(ValueError("boom"))
    exc_reply = bytes(protocol.SendingMessage(protocol.MSG_RESULT, protocol.FLAGS_EXCEPTION, 42, ser.serializer_id, boom).data)
    rows = [
        ("own-reply", run(41, FakeConn(reply(42)))),
        ("wrap-65535", run(65535, FakeConn(reply(0)))),
        ("no-wrap-255", run(255, FakeConn(reply(256)))),
        ("reply-seq-plus-1", run(41, FakeConn(reply(43)))),
        ("reply-seq-minus-1", run(41, FakeConn(reply(41)))),
        ("reply-type-connectok", run(41, FakeConn(reply(42, mtype=protocol.MSG_CONNECTOK)))),
        ("reply-other-serializer", run(41, FakeConn(reply(42, serid=other.serializer_id)))),
        ("remote-exception", run(41, FakeConn(exc_reply))),
        ("send-connection-closed", run(41, FakeConn(send_exc=errors.ConnectionClosedError("x")))),
        ("send-timeout", run(41, FakeConn(send_exc=errors.TimeoutError("x")))),
        ("recv-connection-closed", run(41, FakeConn(recv_exc=errors.ConnectionClosedError("x")))),
        ("recv-timeout", run(41, FakeConn(recv_exc=errors.TimeoutError("x")))),
        ("recv-keyboard-interrupt", run(41, FakeConn(recv_exc=KeyboardInterrupt()))),
        ("oneway", run(41, FakeConn(reply(42)), method="ow")),
        ("oneway-send-connection-closed", run(41, FakeConn(send_exc=errors.ConnectionClosedError("x")), method="ow")),
        ("raw-own-reply", run(41, FakeConn(reply(42)), raw=True)),
        ("raw-reply-seq-plus-1", run(41, FakeConn(reply(43)), raw=True)),
        ("raw-reply-other-serializer", run(41, FakeConn(reply(42, serid=other.serializer_id)), raw=True)),
    ]
    # the type filter of recv_stub rejects before the payload is read: bytes left unread after a CONNECTOK reply
    c = FakeConn(reply(42, mtype=protocol.MSG_CONNECTOK))
    total = len(c.inbound)
    try:
        protocol.recv_stub(c, [protocol.MSG_RESULT])
        rows.append(("type-filter-consumed", "accepted"))
    except errors.ProtocolError:
        rows.append(("type-filter-consumed", "header-only" if total - len(c.inbound) == protocol._header_size else "more"))
    return rows


def probe_handshake():
    from Pyro5 import client, protocol, errors, serializers, config, socketutil
    ser = serializers.serializers[config.SERIALIZER]
    meta = {"handshake": "hello", "meta": {"methods": ["m"], "oneway": [], "attrs": []}}

    def ok_reply(delta=0, mtype=None, payload=None):
        def make(req):
            seq = int.from_bytes(req[10:12], "big")
            return bytes(protocol.SendingMessage(protocol.MSG_CONNECTOK if mtype is None else mtype, 0, (seq + delta) % 65536,
                                                 ser.serializer_id, ser.dumps(meta if payload is None else payload)).data)
        return make

    def run(sock, seq0=7):
        saved = socketutil.create_socket
        socketutil.create_socket = lambda *a, **kw: sock
        try:
            p = client.Proxy("PYRO:obj@localhost:1")
            p._pyroSeq = seq0
            try:
                p._pyroBind()
                out = "connected"
            except BaseException as x:      # noqa
                out = _name(x)
            state = "live" if p._pyroConnection is not None else "none"
            res = "%s/%s/seq=%d/meta=%d" % (out, state, p._pyroSeq, 1 if p._pyroMethods else 0)
            p._pyroConnection = None
            return res
        finally:
            socketutil.create_socket = saved

    return [
        ("connectok", run(FakeSock(ok_reply()))),
        ("connectok-seq-altered", run(FakeSock(ok_reply(delta=5)))),
        ("reply-type-result", run(FakeSock(ok_reply(mtype=protocol.MSG_RESULT)))),
        ("connectfail", run(FakeSock(ok_reply(mtype=protocol.MSG_CONNECTFAIL, payload="denied")))),
        ("send-reset", run(FakeSock(ok_reply(), send_exc=ConnectionResetError(104, "reset")))),
        ("recv-timeout", run(FakeSock(lambda req: b"", recv_exc=socket.timeout("timed out")))),
        ("recv-reset", run(FakeSock(lambda req: b"", recv_exc=ConnectionResetError(104, "reset")))),
    ]


def probe_retry():
    from Pyro5 import client, errors
    rows = []
    for n in (0, 1, 2):
        for cls in (errors.ConnectionClosedError, errors.TimeoutError, errors.ProtocolError, errors.CommunicationError, ValueError):
            calls = []

            def send(name, args, kwargs):
                calls.append(name)
                raise cls("probe")
            try:
                client._RemoteMethod(send, "m", n)()
                out = "returned"
            except BaseException as x:      # noqa
                out = _name(x)
            rows.append((n, cls.__name__, len(calls), out))
    # failures followed by a success
    succ = []
    for n in (0, 1, 2):
        for k in (0, 1, 2):
            calls = []

            def send(name, args, kwargs):
                calls.append(name)
                if len(calls) <= k:
                    raise errors.TimeoutError("probe")
                return "value"
            try:
                out = "returned" if client._RemoteMethod(send, "m", n)() == "value" else "other"
            except BaseException as x:      # noqa
                out = _name(x)
            succ.append((n, k, len(calls), out))
    return rows, succ


def probe_paths():
    from Pyro5 import client, errors, config
    rows = []

    class P(client.Proxy):
        def _pyroInvoke(self, *a, **kw):
            COUNT[0] += 1
            raise errors.ConnectionClosedError("probe")
    COUNT = [0]

    def mk(retries=2, conn=object()):
        p = P("PYRO:obj@localhost:1")
        p._pyroMethods, p._pyroAttrs, p._pyroOneway = {"m", "ow"}, {"a"}, {"ow"}
        p._pyroMaxRetries = retries
        p._pyroConnection = conn
        return p

    def attempts(fn, **kw):
        p = mk(**kw)
        COUNT[0] = 0
        try:
            fn(p)
            out = "returned"
        except BaseException as x:      # noqa
            out = _name(x)
        p._pyroConnection = None
        return COUNT[0], out

    def batch(oneway):
        def go(p):
            b = client.BatchProxy(p)
            b.m(1)
            r = b(oneway=oneway)
            if r is not None:
                list(r)
        return go

    def setattr_(p):
        p.a = 1
    rows.append(("method", attempts(lambda p: p.m(1))[0]))
    rows.append(("oneway-method", attempts(lambda p: p.ow(1))[0]))
    rows.append(("attribute-read", attempts(lambda p: p.a)[0]))
    rows.append(("attribute-write", attempts(setattr_)[0]))
    rows.append(("batch", attempts(batch(False))[0]))
    rows.append(("batch-oneway", attempts(batch(True))[0]))
    def fetch(p):
        it = client._StreamResultIterator("sid", p)
        try:
            return next(it)
        finally:
            it.proxy = None       # no close_stream traffic when the iterator is collected
    rows.append(("stream-fetch", attempts(fetch)[0]))
    n, out = attempts(fetch, conn=None)
    rows.append(("stream-fetch-no-connection:" + out, n))
    # the proxy's own setting wins over the global one
    saved = config.MAX_RETRIES
    try:
        config.MAX_RETRIES = 2
        rows.append(("method-own-0-global-2", attempts(lambda p: p.m(1), retries=0)[0]))
        config.MAX_RETRIES = 0
        rows.append(("method-own-1-global-0", attempts(lambda p: p.m(1), retries=1)[0]))
    finally:
        config.MAX_RETRIES = saved

    # metadata lookups of attribute access on a proxy that has none yet
    class M(client.Proxy):
        def _pyroGetMetadata(self, objectId=None, known_metadata=None):
            LOOK[0] += 1
            self._pyroMethods, self._pyroAttrs = {"m"}, {"a"}

        def _pyroInvoke(self, *a, **kw):
            return None
    LOOK = [0]
    m = M("PYRO:obj@localhost:1")
    m.m
    rows.append(("metadata-lookups-first-method-access", LOOK[0]))
    m.m
    m.a
    rows.append(("metadata-lookups-later", LOOK[0] - 1))
    LOOK[0] = 0
    m2 = M("PYRO:obj@localhost:1")
    m2.a = 1
    rows.append(("metadata-lookups-first-attribute-write", LOOK[0]))
    LOOK[0] = 0
    m3 = M("PYRO:obj@localhost:1")
    b = client.BatchProxy(m3)
    b.m(1)
    rows.append(("metadata-lookups-batch-recording", LOOK[0]))

    # one BatchProxy object across submits: every submit carries only the calls recorded since the last one
    class B(client.Proxy):
        def _pyroInvokeBatch(self, calls, oneway=False):
            SIZES.append(len(calls))
            return None if oneway else [None] * len(calls)
    SIZES = []
    bp = client.BatchProxy(B("PYRO:obj@localhost:1"))
    bp.m(1)
    bp(oneway=True)
    bp.m(2)
    list(bp())
    bp.m(3)
    bp.m(4)
    bp(oneway=True)
    bp.m(5)
    bp(oneway=True)
    for i, s in enumerate(SIZES):
        rows.append(("batch-reuse-submit-%d-size" % (i + 1), s))
    return rows


def probe_server():
    from Pyro5 import server, protocol, serializers, config, socketutil, core, callcontext
    rows = []
    saved = (config.SERVERTYPE, config.ITER_STREAMING)
    tmp = tempfile.mkdtemp(prefix="c03probe")
    out = {}

    def work():
        d = None
        try:
            config.SERVERTYPE = "multiplex"
            d = server.Daemon(unixsocket=os.path.join(tmp, "s"))
            ser = serializers.serializers[config.SERIALIZER]

            def exchange(mtype, seq, payload, flags=0, handshake=False):
                s = SrvSock()
                conn = socketutil.SocketConnection(s)
                s.inbound += protocol.SendingMessage(mtype, flags, seq, ser.serializer_id, payload).data
                try:
                    if handshake:
                        d._handshake(conn)
                    else:
                        d.handleRequest(conn)
                except Exception:
                    pass
                data = bytes(s.sent)
                conn.keep_open = True
                if len(data) < protocol._header_size:
                    return "no-reply"
                m = protocol.ReceivingMessage(data[:protocol._header_size])
                kind = {protocol.MSG_CONNECTOK: "connectok", protocol.MSG_CONNECTFAIL: "connectfail", protocol.MSG_RESULT: "result"}.get(m.type, "type%d" % m.type)
                if m.flags & protocol.FLAGS_EXCEPTION:
                    kind += "+exception"
                if m.flags & protocol.FLAGS_BATCH:
                    kind += "+batch"
                return "%s/seq=%d" % (kind, m.seq)
            rows.append(("handshake-4321", exchange(protocol.MSG_CONNECT, 4321, ser.dumps({"handshake": "hello", "object": core.DAEMON_NAME}), handshake=True)))
            rows.append(("handshake-refused-4321", exchange(protocol.MSG_CONNECT, 4321, ser.dumps(["not", "a", "handshake"]), handshake=True)))
            rows.append(("call-777", exchange(protocol.MSG_INVOKE, 777, ser.dumpsCall(core.DAEMON_NAME, "ping", (), {}))))
            rows.append(("call-65535", exchange(protocol.MSG_INVOKE, 65535, ser.dumpsCall(core.DAEMON_NAME, "ping", (), {}))))
            rows.append(("call-raises-777", exchange(protocol.MSG_INVOKE, 777, ser.dumpsCall(core.DAEMON_NAME, "get_metadata", ("nosuchobject",), {}))))
            rows.append(("unknown-object-777", exchange(protocol.MSG_INVOKE, 777, ser.dumpsCall("nosuchobject", "m", (), {}))))
            rows.append(("oneway-777", exchange(protocol.MSG_INVOKE, 777, ser.dumpsCall(core.DAEMON_NAME, "ping", (), {}), flags=protocol.FLAGS_ONEWAY)))
            rows.append(("oneway-raises-777", exchange(protocol.MSG_INVOKE, 777, ser.dumpsCall("nosuchobject", "m", (), {}), flags=protocol.FLAGS_ONEWAY)))
            rows.append(("batch-777", exchange(protocol.MSG_INVOKE, 777, ser.dumpsCall(core.DAEMON_NAME, "<batch>", [("ping", (), {})], {}), flags=protocol.FLAGS_BATCH)))
            rows.append(("batch-oneway-777", exchange(protocol.MSG_INVOKE, 777, ser.dumpsCall(core.DAEMON_NAME, "<batch>", [("ping", (), {})], {}),
                                                      flags=protocol.FLAGS_BATCH | protocol.FLAGS_ONEWAY)))
            # a lingering stream that a fetch re-attaches to the fetching connection
            sentinel = object()
            d.streaming_responses["sid"] = (None, 1.0, 5.0, iter([10, 20]))
            callcontext.current_context.client = sentinel
            item = d.objectsById[core.DAEMON_NAME].get_next_stream_item("sid")
            info = d.streaming_responses.get("sid")
            rows.append(("reattach", "missing" if info is None else "item=%r/client=%s/linger=%s" % (
                item, "fetching-connection" if info[0] is sentinel else "other", "0" if info[2] == 0 else "kept")))
            out["rows"] = rows
        except BaseException as x:      # noqa
            out["error"] = x
        finally:
            if d is not None:
                d.close()
    t = threading.Thread(target=work)     # own thread: own thread-local call context
    try:
        t.start()
        t.join()
    finally:
        config.SERVERTYPE, config.ITER_STREAMING = saved
        shutil.rmtree(tmp, ignore_errors=True)
    if "error" in out:
        raise out["error"]
    return out["rows"]


def probe_seq_field():
    from Pyro5 import protocol
    top = None
    for bits in range(1, 40):
        v = 2 ** bits - 1
        try:
            data = protocol.SendingMessage(protocol.MSG_RESULT, 0, v, 1, b"x").data
        except (struct.error, OverflowError):
            break
        if protocol.ReceivingMessage(bytes(data[:protocol._header_size])).seq != v:
            break
        top = v
    return top


def _pairs(rows):
    return "[" + ",\n  ".join("(%s, %s)" % (json.dumps(a), json.dumps(b) if isinstance(b, str) else b) for a, b in rows) + "]"


def extract():
    common.repo_on_path()
    from Pyro5 import errors, config
    inv = probe_invoke()
    hs = probe_handshake()
    retry, succ = probe_retry()
    paths = probe_paths()
    srv = probe_server()
    top = probe_seq_field()
    if top is None:
        raise ValueError("could not determine the width of the header's seq field")
    comm = sorted(n for n, v in vars(errors).items() if isinstance(v, type) and issubclass(v, errors.CommunicationError))
    retry_s = "[" + ",\n  ".join("(%d, %s, %d, %s)" % (n, json.dumps(c), k, json.dumps(o)) for n, c, k, o in retry) + "]"
    succ_s = "[" + ", ".join("(%d, %d, %d, %s)" % (n, k, c, json.dumps(o)) for n, k, c, o in succ) + "]"
    return f"""-- GENERATED by harness/props/c03_extract.py by PROBING the real Pyro5 objects of the current tree — do not edit
namespace Pyro.Gen.C03
/-- largest value the header's seq field carries through SendingMessage / ReceivingMessage -/
def seqFieldMax : Nat := {top}
/-- Proxy._pyroInvoke over a scripted connection, _pyroSeq = 41 unless the row says otherwise:
    (scenario, "<returned|raised class>/<connection kept|released>/seq=<_pyroSeq afterwards>/reads=<0|1>") -/
def invokeProbe : List (String × String) :=
  {_pairs(inv)}
/-- Proxy._pyroBind over a scripted socket, _pyroSeq = 7: (scenario, "<connected|raised class>/<connection>/seq/metadata known") -/
def handshakeProbe : List (String × String) :=
  {_pairs(hs)}
/-- _RemoteMethod.__call__ with a send that always raises: (max_retries, exception class, attempts made, what came out) -/
def retryProbe : List (Nat × String × Nat × String) :=
  {retry_s}
/-- … with a send that times out k times and then returns: (max_retries, k, attempts made, what came out) -/
def retrySuccessProbe : List (Nat × Nat × Nat × String) := {succ_s}
/-- attempts (_pyroInvoke calls) made by each way of using a proxy with _pyroMaxRetries = 2 whose _pyroInvoke always raises
    ConnectionClosedError; metadata lookups; request sizes when one BatchProxy is re-used -/
def pathProbe : List (String × Nat) :=
  {_pairs(paths)}
/-- replies of the real Daemon: (request, "<reply kind>/seq=<n>" | "no-reply"); the re-attached lingering stream -/
def serverProbe : List (String × String) :=
  {_pairs(srv)}
/-- names in Pyro5.errors that are subclasses of CommunicationError (sorted) -/
def commErrors : List String := [{", ".join(json.dumps(x) for x in comm)}]
def maxRetriesDefault : Nat := {int(config.MAX_RETRIES)}
end Pyro.Gen.C03
"""
