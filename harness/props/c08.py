"""C08 — nothing is invoked on a connection before an accepted handshake."""
import ast
import json
import os

import common
import srvkit

ID = "C08"
LEAN_MODEL_TARGETS = ["drv_c08"]
LEAN_PROOF_TARGETS = ["PyroProps.C08", "PyroProps.C08Src"]
AUDIT_FILES = ["PyroModel/Server.lean", "PyroModel/Gen/C08.lean", "PyroProps/C08.lean",
               "PyroModel/Handshake.lean", "PyroModel/Gen/C08Src.lean", "PyroProps/C08Src.lean"]
THEOREMS = ["Pyro.C08.C08_accept_iff", "Pyro.C08.C08_fail_reply_and_close", "Pyro.C08.C08_no_exec_before",
            "Pyro.C08.C08_pipelined_dead", "Pyro.C08.C08_failed_then_anything", "Pyro.C08.C08_daemon",
            "Pyro.C08.C08_gen_facts", "Pyro.C08.C08_gen_except_rule",
            # Daemon._handshake transcribed from the source on every run (c08_tr.py -> Gen/C08Src.lean): equal to the statement-level
            # model for every behaviour of every collaborator; what that model does (accepts iff every step incl. the validator
            # succeeded, in order; False = nothing or one CONNECTFAIL; a refusing validator accepts no payload shape); it IS
            # Server.handshake on the worlds of history items; the main theorems restated over the transcription
            "Pyro.C08.C08_handshake_translated", "Pyro.C08.C08_hs_accept_iff", "Pyro.C08.C08_hs_fail_reply",
            "Pyro.C08.C08_hs_refusing_validator", "Pyro.C08.C08_hs_validator_before_lookup", "Pyro.C08.C08_hs_never_raises",
            "Pyro.C08.C08_hs_refines",
            "Pyro.C08.C08_source_accept_iff", "Pyro.C08.C08_source_fail_reply", "Pyro.C08.C08_source_refusing_validator",
            "Pyro.C08.C08_source_validator_before_lookup", "Pyro.C08.C08_source_never_raises",
            "Pyro.C08.C08_source_refines", "Pyro.C08.C08_source_no_exec_before", "Pyro.C08.C08_source_failed_then_anything"]
SUITES = ["history", "handshake-src"]
RULE = ("histories over 1-3 connections: first item of every kind (each message type, known/unknown serializer ids, handshake "
        "payload shapes, validator accept/raise/unserialisable reply, unknown object, garbage headers, cut at any offset, "
        "timeout) followed by 0-4 pipelined items (calls returning/raising every exception class, oneway, ping, unknown object, "
        "private member), rendered with the real encoder and run through the real thread-pool and multiplex transports over "
        "in-memory sockets; non-trivial = the history contains a failing first message with a call pipelined behind it, or an "
        "accepted handshake followed by a call; distinct = distinct model line x transport")
ASSUMPTIONS = ["the byte level (header validation, exact reads) is as proved for C06/C17; items are rendered by the real encoder",
               "socket pairs handed to a daemon pre-connected (svr_existingconn) are exempt by the property and not modelled"]
TRUSTED = ["harness/srvkit.py (in-memory sockets, fake selector/listener; real Daemon, real transports)"]


def extract():
    common.repo_on_path()
    from Pyro5 import server, svr_threads, svr_multiplex, serializers, protocol
    names = {"MSG_CONNECT": protocol.MSG_CONNECT, "MSG_INVOKE": protocol.MSG_INVOKE, "MSG_PING": protocol.MSG_PING,
             "MSG_CONNECTOK": protocol.MSG_CONNECTOK, "MSG_CONNECTFAIL": protocol.MSG_CONNECTFAIL, "MSG_RESULT": protocol.MSG_RESULT}

    def accepted(fn_name):
        """the message types the real Daemon.<fn_name> asks recv_stub for - observed by calling it with a spy in place of
        protocol.recv_stub (a literal list, a tuple, a module-level constant: all the same)"""
        import shutil
        import tempfile
        from Pyro5 import errors
        seen = []
        orig = protocol.recv_stub

        def spy(conn, accepted_msgtypes=None):
            seen.append(None if accepted_msgtypes is None else [int(t) for t in accepted_msgtypes])
            raise errors.ConnectionClosedError("probe")
        tmp = tempfile.mkdtemp(prefix="c08probe")
        d = server.Daemon(unixsocket=os.path.join(tmp, "s"))
        protocol.recv_stub = spy
        try:
            try:
                getattr(d, fn_name)(object())
            except errors.ConnectionClosedError:
                pass
        finally:
            protocol.recv_stub = orig
            d.close()
            shutil.rmtree(tmp, ignore_errors=True)
        if len(seen) != 1 or seen[0] is None:
            raise ValueError("%s: expected one recv_stub call with an explicit list of message types, saw %r" % (fn_name, seen))
        return seen[0]

    def handshake_ifs(fn):
        """`if <daemon>._handshake(..):` or `x = <daemon>._handshake(..)` (assigned once) followed by `if x:`"""
        is_hs = lambda e: isinstance(e, ast.Call) and getattr(e.func, "attr", "") == "_handshake"
        names = {}
        for n in ast.walk(fn):
            if isinstance(n, ast.Assign) and len(n.targets) == 1 and isinstance(n.targets[0], ast.Name):
                names.setdefault(n.targets[0].id, []).append(n.value)
        from_hs = {k for k, v in names.items() if len(v) == 1 and is_hs(v[0])}
        return [n for n in ast.walk(fn) if isinstance(n, ast.If) and (is_hs(n.test) or (isinstance(n.test, ast.Name) and n.test.id in from_hs))]

    def guarded_thread():
        tree = ast.parse(open(svr_threads.__file__).read())
        cls = [n for n in tree.body if isinstance(n, ast.ClassDef) and n.name == "ClientConnectionJob"][0]
        call = [n for n in cls.body if isinstance(n, ast.FunctionDef) and n.name == "__call__"][0]
        body = [n for n in call.body if not (isinstance(n, ast.Expr) and isinstance(n.value, ast.Constant))]    # skip a docstring
        st = body[0]
        is_hc = lambda e: isinstance(e, ast.Call) and getattr(e.func, "attr", "") == "handleConnection"
        # either the whole body is `if self.handleConnection(): <loop>` ...
        ok = isinstance(st, ast.If) and is_hc(st.test) and len(body) == 1 and not st.orelse
        # ... or it starts with `if not self.handleConnection(): return` (nothing else runs before that test)
        ok = ok or (isinstance(st, ast.If) and isinstance(st.test, ast.UnaryOp) and isinstance(st.test.op, ast.Not) and is_hc(st.test.operand)
                    and not st.orelse and len(st.body) == 1 and isinstance(st.body[0], ast.Return) and st.body[0].value is None)
        hc = [n for n in cls.body if isinstance(n, ast.FunctionDef) and n.name == "handleConnection"][0]
        # `return True` only directly under `if self.daemon._handshake(self.csock):`
        rets = [n for n in ast.walk(hc) if isinstance(n, ast.Return) and isinstance(n.value, ast.Constant) and n.value.value is True]
        ifs = handshake_ifs(hc)
        ok = ok and len(rets) == 1 and len(ifs) == 1 and rets[0] in ifs[0].body
        return ok

    def guarded_multiplex():
        tree = ast.parse(open(svr_multiplex.__file__).read())
        cls = [n for n in tree.body if isinstance(n, ast.ClassDef) and n.name == "SocketServer_Multiplex"][0]
        hc = [n for n in cls.body if isinstance(n, ast.FunctionDef) and n.name == "_handleConnection"][0]
        rets = [n for n in ast.walk(hc) if isinstance(n, ast.Return) and isinstance(n.value, ast.Name) and n.value.id == "conn"]
        ifs = handshake_ifs(hc)
        ev = [n for n in cls.body if isinstance(n, ast.FunctionDef) and n.name == "events"][0]
        regs = [n for n in ast.walk(ev) if isinstance(n, ast.Call) and getattr(n.func, "attr", "") == "register"]
        is_hcall = lambda e: isinstance(e, ast.Call) and getattr(e.func, "attr", "") == "_handleConnection"
        from_hc = {n.targets[0].id for n in ast.walk(ev) if isinstance(n, ast.Assign) and len(n.targets) == 1
                   and isinstance(n.targets[0], ast.Name) and is_hcall(n.value)}
        # `conn = self._handleConnection(..); if conn: register(conn..)`  or  `if conn := self._handleConnection(..): register(conn..)`
        guarded = [n for n in ast.walk(ev) if isinstance(n, ast.If) and any(r in list(ast.walk(n)) for r in regs)
                   and ((isinstance(n.test, ast.Name) and n.test.id in from_hc)
                        or (isinstance(n.test, ast.NamedExpr) and is_hcall(n.test.value)))]
        return len(rets) == 1 and len(ifs) == 1 and rets[0] in ifs[0].body and len(regs) == 1 and len(guarded) == 1

    ids = sorted(serializers.serializers_by_id.keys())
    b = lambda x: "true" if x else "false"
    # Daemon._handshake itself, transcribed statement by statement (c08_tr.py; raises Untranslatable = broken tie)
    from props import c08_tr
    src = c08_tr.handshake_src(server)
    common.write_if_changed(os.path.join(common.VERIF, "lean", "PyroModel", "Gen", "C08Src.lean"),
                            "-- GENERATED by harness/props/c08_tr.py from Pyro5/server.py (Daemon._handshake) — do not edit\n"
                            "import PyroModel.Handshake\nnamespace Pyro.Gen.C08Src\nopen Pyro.Handshake\n\n"
                            "/-- `Daemon._handshake(self, conn, denied_reason=None)` transcribed from the source: collaborators = fields of `w`,\n"
                            "    locals renamed v<first binding>_<version>, the try statement = `handler0` / `after0` -/\n"
                            + src + "\nend Pyro.Gen.C08Src\n")
    except_rule = translate_except_rule(server)
    return f"""-- GENERATED by harness/props/c08.py from Pyro5/server.py, svr_threads.py, svr_multiplex.py — do not edit
namespace Pyro.Gen.C08
/-- message types `_handshake` passes to recv_stub -/
def handshakeAccepts : List Nat := {accepted("_handshake")}
/-- message types `handleRequest` passes to recv_stub -/
def requestAccepts : List Nat := {accepted("handleRequest")}
/-- ClientConnectionJob.__call__ is `if self.handleConnection(): <loop>` and handleConnection returns True only under `if _handshake(..)` -/
def threadLoopGuardedByHandshake : Bool := {b(guarded_thread())}
/-- _handleConnection returns the connection only under `if _handshake(..)`, events() registers only `if conn:` -/
def multiplexRegisterGuardedByHandshake : Bool := {b(guarded_multiplex())}
def knownSerializerIds : List Nat := {ids}
def marshalId : Nat := {serializers.MarshalSerializer.serializer_id}
{except_rule}
end Pyro.Gen.C08
"""


def translate_except_rule(server):
    """
    The `except Exception as xv:` handler of Daemon.handleRequest, translated into two Lean boolean functions:
    when is an error reply sent, when is the exception re-raised (which makes the transports close the connection).
    Atoms: isinstance(xv, errors.X) -> a Bool parameter; `request_flags & FLAGS_ONEWAY` -> oneway; isCallback.
    Anything the translator does not recognise raises (the runner reports the broken tie).
    """
    from Pyro5 import errors
    tree = ast.parse(open(server.__file__).read())
    cls = [n for n in tree.body if isinstance(n, ast.ClassDef) and n.name == "Daemon"][0]
    fn = [n for n in cls.body if isinstance(n, ast.FunctionDef) and n.name == "handleRequest"][0]
    tries = [n for n in fn.body if isinstance(n, ast.Try)]
    handler = [h for t in tries for h in t.handlers if h.name == "xv" and getattr(h.type, "id", "") == "Exception"]
    if len(handler) != 1:
        raise ValueError("handleRequest: the `except Exception as xv` handler was not found")
    VAR = {"ConnectionClosedError": "isConnClosed", "SerializeError": "isSerialize", "CommunicationError": "isComm",
           "SecurityError": "isSecurity"}

    def cond(e):
        if isinstance(e, ast.BoolOp):
            op = " && " if isinstance(e.op, ast.And) else " || "
            return "(" + op.join(cond(v) for v in e.values) + ")"
        if isinstance(e, ast.UnaryOp) and isinstance(e.op, ast.Not):
            return "(!" + cond(e.operand) + ")"
        if isinstance(e, ast.Call) and getattr(e.func, "id", "") == "isinstance" and ast.unparse(e.args[0]) == "xv":
            c = e.args[1]
            names = [x.attr for x in c.elts] if isinstance(c, ast.Tuple) else [c.attr]
            return "(" + " || ".join(VAR[n] for n in names) + ")"
        if isinstance(e, ast.BinOp) and isinstance(e.op, ast.BitAnd) and ast.unparse(e) == "request_flags & protocol.FLAGS_ONEWAY":
            return "oneway"
        if isinstance(e, ast.Name) and e.id == "isCallback":
            return "isCallback"
        if isinstance(e, ast.Name) and e.id in local_defs:
            return cond(local_defs[e.id])             # a local that merely names a condition (assigned once in the handler)
        raise ValueError("except-rule: unrecognised condition " + ast.unparse(e))

    assigned = {}
    for n in ast.walk(fn):
        if isinstance(n, ast.Assign) and len(n.targets) == 1 and isinstance(n.targets[0], ast.Name) \
                and not isinstance(n.value, ast.Constant):          # (`x = 0` beside `request_flags = 0` is an initialiser)
            assigned.setdefault(n.targets[0].id, []).append(n.value)
    local_defs = {k: v[0] for k, v in assigned.items() if len(v) == 1 and isinstance(v[0], (ast.BoolOp, ast.UnaryOp, ast.Call, ast.BinOp, ast.Compare))
                  and k not in ("isCallback",)}

    sends, raises = [], []

    def walk(stmts, path):
        for st in stmts:
            if isinstance(st, ast.If):
                if ast.unparse(st.test) == "msg":
                    continue                      # bookkeeping of seq / serializer id, no decision
                c = cond(st.test)
                walk(st.body, path + [c])
                if st.orelse:
                    walk(st.orelse, path + ["(!" + c + ")"])
            elif isinstance(st, ast.Raise):
                raises.append(path)
            elif isinstance(st, ast.Expr) and isinstance(st.value, ast.Call) and ast.unparse(st.value.func) == "self._sendExceptionResponse":
                sends.append(path)
            elif isinstance(st, (ast.Assign, ast.Expr)):
                continue
            else:
                raise ValueError("except-rule: unrecognised statement " + ast.unparse(st)[:60])
    walk(handler[0].body, [])

    def dnf(paths):
        if not paths:
            return "false"
        return " || ".join("(" + (" && ".join(p) if p else "true") + ")" for p in paths)
    params = "(isCallback oneway isConnClosed isSerialize isComm isSecurity : Bool)"
    sub = lambda a, b_: "true" if issubclass(getattr(errors, a), getattr(errors, b_)) else "false"
    rows = []
    for model_name, pyname in (("generic", None), ("serialize", "SerializeError"), ("connClosed", "ConnectionClosedError"),
                               ("commOther", "TimeoutError"), ("security", "SecurityError")):
        if pyname is None:
            bits = ["false"] * 4
        else:
            bits = [sub(pyname, x) for x in ("ConnectionClosedError", "SerializeError", "CommunicationError", "SecurityError")]
        rows.append('("%s", %s)' % (model_name, ", ".join(bits)))
    return ("/-- handleRequest's `except Exception as xv:` handler, translated: an error reply is sent iff ... -/\n"
            "def exceptSends %s : Bool := %s\n"
            "/-- ... and the exception is re-raised (the transports then close the connection) iff ... -/\n"
            "def exceptReraises %s : Bool := %s\n"
            "/-- (model exception class, is ConnectionClosedError, is SerializeError, is CommunicationError, is SecurityError) by issubclass on Pyro5.errors -/\n"
            "def excBits : List (String × Bool × Bool × Bool × Bool) := [%s]\n"
            % (params, dnf(sends), params, dnf(raises), ", ".join(rows)))


# ---- history generation (shared with C13) ----------------------------------------------------------
EXC = ["generic", "serialize", "connClosed", "commOther", "security"]
EXC_TOK = {"generic": "g", "serialize": "s", "connClosed": "c", "commOther": "o", "security": "y"}


class Gen:
    def __init__(self, rng):
        self.rng = rng
        self.token = 0

    def method(self, oneway=False):
        r = self.rng
        self.token += 1
        spec = {"token": self.token}
        x = r.random()
        if x < 0.5:
            spec["out"] = "ret"
        elif x < 0.55 and not oneway:
            spec["out"] = "stream"
        elif x < 0.62:
            spec["out"] = "retbad"
        else:
            spec["out"] = "raise"
            spec["exc"] = r.choice(EXC + ["generic", "generic"])
            spec["ser"] = r.random() < 0.8
        if r.random() < 0.12 and not oneway:
            spec["callback"] = True
        if r.random() < 0.35:
            spec["track"] = r.sample(range(1, 6), r.choice([1, 1, 2]))
        if r.random() < 0.15:
            spec["untrack"] = r.sample(range(1, 6), 1)
        return spec

    def body(self, kind):
        r = self.rng
        if kind == "handshake":
            x = r.random()
            if x < 0.5:
                return ("handshake", True, True, "accept")
            return ("handshake", r.random() < 0.8, r.random() < 0.7, r.choice(["accept", "accept", "raises", "unser"]))
        if kind == "call":
            x = r.random()
            if x < 0.1:
                return ("call", ("unknown",))
            if x < 0.2:
                return ("call", ("refused", r.choice(["_hidden", "unexposed", "__init__", "nosuchmember"])))
            return None     # method: filled by caller (needs oneway flag)
        return ("undecodable", "security") if r.random() < 0.4 else ("undecodable",)

    def item(self, first):
        r = self.rng
        x = r.random()
        if x < 0.06:
            return ("garbage", r.randrange(len(srvkit.GARBAGE)))
        if x < 0.12:
            return ("cut", r.random())
        if x < 0.15:
            return ("timeout",)
        if first:
            ty = r.choice([1] * 12 + [4, 4, 6, 5, 2, 3, 0, 7, 255])
        else:
            ty = r.choice([4] * 12 + [6, 6, 1, 5, 2, 0, 9])
        ser = r.choice([1, 2, 3, 4] * 4 + [0, 9, 42])
        seq = r.choice([0, 1, 65535, r.randint(0, 65535)])
        oneway = r.random() < 0.15
        want = "handshake" if ty == 1 else "call"
        if r.random() < 0.08:
            want = r.choice(["handshake", "call", "undecodable"])
        b = self.body(want)
        if b is None:
            b = ("call", ("method", self.method(oneway)))
        m = {"type": ty, "ser": ser, "seq": seq, "oneway": oneway, "body": b}
        if b[0] == "handshake" and (r.random() < 0.5 or not b[2]):
            m["extra"] = r.choice([{"meta": False}, {"meta": 0}, {"meta": None}, {"meta": True}, {"object_id": "target"},
                                   {"flags": 1, "meta": ""}])
        if b[0] == "handshake" and b[1] and r.random() < 0.3:
            # the shape of the payload dict itself: entries missing, None / odd values (see eff_body)
            m["shape"] = r.choice(SHAPES)
        if r.random() < 0.05:
            # every field right except the magic number at the end of the header: malformed, whatever else it says
            m["magic"] = r.choice([0x0000, 0xffff, 0x4dc4, 0xc54d, 0x4d00])
        return ("msg", m)

    def history(self):
        r = self.rng
        nconn = r.choice([1, 1, 2, 3])
        per = []
        for c in range(nconn):
            items = [self.item(True)]
            good = r.random() < 0.55
            if good:
                items = [("msg", {"type": 1, "ser": r.choice([1, 2, 3, 4]), "seq": r.randint(0, 65535), "oneway": False,
                                  "body": ("handshake", True, True, "accept")})]
                if r.random() < 0.06:
                    items[0][1]["magic"] = r.choice([0x0000, 0xffff, 0x4dc4, 0xc54d, 0x4d00])
                elif r.random() < 0.12:
                    # an otherwise perfect CONNECT whose payload dict has another shape
                    items[0][1]["shape"] = r.choice(SHAPES)
            for _ in range(r.choice([0, 1, 2, 3, 4])):
                items.append(self.item(False))
            if r.random() < 0.4:
                items.append(r.choice([("cut", 0.0), ("cut", r.random()), ("timeout",), ("garbage", 0)]))
            per.append(items)
        # interleave preserving per-connection order
        evs = []
        idx = [0] * nconn
        while any(idx[c] < len(per[c]) for c in range(nconn)):
            c = r.choice([c for c in range(nconn) if idx[c] < len(per[c])])
            evs.append((c, per[c][idx[c]]))
            idx[c] += 1
        return nconn, evs


# shapes of the CONNECT payload dict (rendered by render(), read by eff_body()):
#   nohs / empty / onlyextra: no "handshake" entry (KeyError before the validator is asked: refused)
#   noobj: no "object" entry; objnone / objint / objlist: an "object" entry that names no registered object (refused AFTER the validator)
#   hsnone / hsfalse / hsdict: a "handshake" entry with another value: whatever it is, it is the validator that decides (the rig's accepts)
SHAPES = ["nohs", "nohs", "empty", "onlyextra", "noobj", "noobj", "objnone", "objint", "objlist", "hsnone", "hsfalse", "hsdict"]


def eff_body(m):
    """the body as the model sees it: what the payload's shape means for (well-formed, object known, validator)"""
    b = m["body"]
    s = m.get("shape")
    if b[0] != "handshake" or not s or not b[1]:
        return b
    _, wf, ok, val = b
    if s in ("nohs", "empty", "onlyextra"):
        wf = False
    elif s in ("noobj", "objnone", "objint", "objlist"):
        ok = False
    elif s in ("hsnone", "hsfalse", "hsdict"):
        val = "accept"
    else:
        raise ValueError("unknown payload shape %r" % (s,))
    return ("handshake", wf, ok, val)


def render(m):
    """bytes of a message; srvkit.render_msg except for CONNECT payload dicts of another shape"""
    s = m.get("shape")
    b = m["body"]
    from Pyro5 import protocol, serializers
    ser = serializers.serializers_by_id.get(m["ser"])
    if b[0] != "handshake" or not s or not b[1] or ser is None:
        return srvkit.render_msg(m)
    _, wf, objknown, val = b
    d = {"handshake": {"accept": "accept", "raises": "raise", "unser": "unser"}[val], "object": "target" if objknown else "nosuchobject"}
    d.update(m.get("extra") or {})
    if s in ("nohs", "onlyextra"):
        d.pop("handshake")
        if s == "onlyextra":
            d.pop("object")
            d["hand_shake"] = "accept"
    elif s == "empty":
        d = {}
    elif s == "noobj":
        d.pop("object")
    elif s == "objnone":
        d["object"] = None
    elif s == "objint":
        d["object"] = 7
    elif s == "objlist":
        d["object"] = ["target"]
    elif s == "hsnone":
        d["handshake"] = None
    elif s == "hsfalse":
        d["handshake"] = False
    elif s == "hsdict":
        d["handshake"] = {"user": "x", "n": [1, 2]}
    else:
        raise ValueError("unknown payload shape %r" % (s,))
    flags = protocol.FLAGS_ONEWAY if m.get("oneway") else 0
    ann = {k: b"rq" for k in m.get("ann", [])}
    from Pyro5.callcontext import current_context
    import uuid
    old = current_context.correlation_id
    current_context.correlation_id = uuid.UUID(int=m["corr"]) if m.get("corr") else None
    try:
        return bytes(protocol.SendingMessage(m["type"], flags, m["seq"], m["ser"], ser.dumps(d), annotations=ann).data)
    finally:
        current_context.correlation_id = old


def item_tokens(it):
    if it[0] == "garbage":
        return ["G"]
    if it[0] == "cut":
        return ["X"]
    if it[0] == "timeout":
        return ["T"]
    m = it[1]
    if m.get("magic") is not None:
        return ["G"]            # a message with a wrong magic number is garbage
    toks = ["M", str(m["type"]), str(m["ser"]), str(m["seq"]), "1" if m["oneway"] else "0"]
    b = eff_body(m)
    if b[0] == "undecodable":
        toks += ["US" if (len(b) > 1 and b[1] == "security" and m["ser"] in (1, 2, 3, 4)) else "U"]
    elif b[0] == "handshake":
        toks += ["H", "1" if b[1] else "0", "1" if b[2] else "0", {"accept": "a", "raises": "r", "unser": "u"}[b[3]]]
    else:
        t = b[1]
        if t[0] == "unknown":
            toks += ["C", "X"]
        elif t[0] == "refused":
            toks += ["C", "R"]
        else:
            s = t[1]
            out = {"ret": "r", "stream": "st", "retbad": "b" + dump_class(m["ser"]), "raise": "x"}[s.get("out", "ret")]
            lst = lambda l: ",".join(map(str, l)) if l else "-"
            toks += ["C", "M", str(s["token"]), out, EXC_TOK[s.get("exc", "generic")], "1" if s.get("ser", True) else "0",
                     "1" if s.get("callback") else "0", lst(s.get("ann", [])), lst(s.get("track", [])), lst(s.get("untrack", [])),
                     "1" if s.get("session") else "0"]
    return toks


_DUMP = {}


def dump_class(ser_id):
    """how the serializer fails on the unserialisable return value used by the rig (a parameter of the model)"""
    if ser_id not in _DUMP:
        import threading
        from Pyro5 import serializers, errors
        ser = serializers.serializers_by_id.get(ser_id)
        if ser is None:
            _DUMP[ser_id] = "o"
        else:
            try:
                ser.dumps(threading.Lock())
                _DUMP[ser_id] = "o"
            except errors.SerializeError:
                _DUMP[ser_id] = "s"
            except Exception:
                _DUMP[ser_id] = "o"
    return _DUMP[ser_id]


def hist_line(nconn, evs):
    toks = ["hist", str(nconn), str(len(evs))]
    for c, it in evs:
        toks += [str(c)] + item_tokens(it)
    return " ".join(toks)


CUT_BASE = {"type": 4, "ser": 2, "seq": 5, "oneway": False, "body": ("call", ("method", {"token": 0}))}


CUT_BASE_FIRST = {"type": 1, "ser": 3, "seq": 5, "oneway": False, "body": ("handshake", True, True, "accept")}


def item_bytes(it, first=False):
    """(data, ending) for one item; a cut message is one the current phase would have accepted"""
    if it[0] == "garbage":
        return srvkit.GARBAGE[it[1]], None
    if it[0] == "cut":
        full = srvkit.render_msg(CUT_BASE_FIRST if first else CUT_BASE)
        k = int(it[1] * len(full))
        if k >= len(full):
            k = len(full) - 1
        # ("cut", fraction, "reset"): the peer ends with RST instead of FIN (killed client, close with SO_LINGER 0): reads fail with
        # ECONNRESET and getpeername() with ENOTCONN afterwards
        return full[:k], ("reset" if (len(it) > 2 and it[2] == "reset") else "eof")
    if it[0] == "timeout":
        return b"", "timeout"
    data = render(it[1])
    if it[1].get("magic") is not None:
        data = data[:38] + int(it[1]["magic"]).to_bytes(2, "big") + data[40:]
    return data, None


DENY_EXC = ["ValueError", "KeyError", "RuntimeError", "AssertionError", "LookupError", "OSError", "errors.SecurityError",
            "errors.ProtocolError", "errors.CommunicationError", "errors.TimeoutError", "errors.DaemonError", "errors.SerializeError"]
ACCEPT_VALUES = [None, False, 0, "", [], {"k": 1}, "hello", 1.5]


def install_validator(rig, validator):
    """the daemon's validator for this run: ("deny", exception class name): raises for whatever it is shown;
    ("value", v): decides as the rig's own validator does and, where that accepts, returns v (falsy or not: returning IS accepting)"""
    kind, arg = validator
    inner = rig.daemon.validateHandshake
    if kind == "deny":
        from Pyro5 import errors
        import builtins
        cls = getattr(errors, arg.split(".")[1]) if arg.startswith("errors.") else getattr(builtins, arg)

        def v(conn, data):
            raise cls("refused by the validator")
    elif kind == "value":
        def v(conn, data):
            r = inner(conn, data)
            return arg if r == "hello" else r
    else:
        raise ValueError("unknown validator mode %r" % (validator,))
    rig.daemon.validateHandshake = v


def run_real(servertype, nconn, evs, hook_raises=(), linger=None, collect=False, commtimeout=0.0, validator=None):
    rig = srvkit.Rig(servertype, linger=linger, commtimeout=commtimeout)
    rig.hook_raises = set(hook_raises)
    try:
        if validator:
            install_validator(rig, validator)
        seen = set()
        for c, it in evs:
            data, ending = item_bytes(it, first=c not in seen)
            seen.add(c)
            rig.deliver(c, data, ending, peername_fails=(ending == "reset"))
        obs = [rig.observe(c) if c in rig.started else None for c in range(nconn)]
        for o in obs:
            if o is not None:
                o["all_execs"] = [t for _, t in rig.execs]      # whichever connection the method believed it was serving
        if collect:
            rig.collect_garbage()       # connection objects of ended connections are finalised: nothing may be closed again
        res = {r: rig.resources[r].closes for r in rig.resources}
        pool = rig.pool_accounting()
        return obs, res, pool
    finally:
        rig.close()


def real_line(obs):
    """canonical per-connection text comparable with the model's phase|replies|execs"""
    out = []
    for o in obs:
        if o is None:
            out.append("fresh||-")
            continue
        closed = o["sockclosed"] > 0
        reps = ",".join("%d:%d:%d:%d" % (r[0], r[1], r[2], 1 if r[3] else 0) for r in o["replies"])
        ex = ",".join(map(str, o["execs"])) or "-"
        first_ok = bool(o["replies"]) and o["replies"][0][0] == 2
        phase = "closed" if closed else ("active" if first_ok else "fresh")
        out.append("%s|%s|%s" % (phase, reps, ex))
    return " ; ".join(out)


def model_line_c08(m):
    out = []
    for part in m.split(" ; "):
        f = part.split("|")
        out.append("|".join(f[:3]))
    return " ; ".join(out)


def _corpus():
    d = os.path.join(common.VERIF, "corpus", "C08")
    out = []
    if os.path.isdir(d):
        for f in sorted(os.listdir(d)):
            c = json.load(open(os.path.join(d, f)))
            out.append((c["nconn"], [(e[0], _untuple(e[1])) for e in c["evs"]]))
    return out


def _untuple(it):
    it = list(it)
    if it[0] == "msg":
        m = dict(it[1])
        b = list(m["body"])
        if b[0] == "call":
            b[1] = tuple(b[1])
        m["body"] = tuple(b)
        return ("msg", m)
    return tuple(it)


def _run(ctx, name, n, do_model):
    rng = ctx.sub_rng(name)
    g = Gen(rng)
    hists = _corpus() + [g.history() for _ in range(n)]
    lines, reals, cases = [], [], []
    for nconn, evs in hists:
        for st in ("thread", "multiplex"):
            try:
                obs, res, pool = run_real(st, nconn, evs)
            except srvkit.Stuck as x:
                ctx.fail("stuck:" + st, "the %s server got stuck on a history: %r" % (st, x), {"nconn": nconn, "evs": evs})
                continue
            ctx.evaluations += 1
            lines.append(hist_line(nconn, evs))
            reals.append(real_line(obs))
            cases.append({"servertype": st, "nconn": nconn, "evs": evs})
            # ---- D: the property itself on the real code -----------------------------------------
            for c, o in enumerate(obs):
                if o is None:
                    continue
                first = next((it for cc, it in evs if cc == c), None)
                accepted = bool(o["replies"]) and o["replies"][0][0] == 2
                if o["execs"] and not accepted:
                    ctx.fail("exec-before-handshake", "%s server executed %r for a connection whose first reply was %r"
                             % (st, o["execs"], o["replies"][:1]), cases[-1])
                if o.get("premature"):
                    ctx.fail("daemon-object-before-validation", "%s server ran %s of the registered object 'Pyro.Daemon' for a connection "
                             "before the handshake validator had accepted it (first reply %r)"
                             % (st, "/".join(sorted(set(o["premature"]))), o["replies"][:1]), cases[-1])
                good_first = (first[0] == "msg" and first[1]["type"] == 1 and first[1]["ser"] in (1, 2, 3, 4)
                              and eff_body(first[1]) == ("handshake", True, True, "accept") and first[1].get("magic") is None)
                if accepted and not good_first:
                    ctx.fail("handshake-accepted-wrongly", "%s server answered CONNECTOK to first item %r" % (st, first), cases[-1])
                if not good_first:
                    peer_gone = first[0] == "cut"
                    if not peer_gone and not (len(o["replies"]) == 1 and o["replies"][0][0] == 3):
                        sig = "no-connectfail"
                        if first[0] == "msg" and first[1]["type"] == 1 and first[1]["ser"] not in (1, 2, 3, 4):
                            sig = "no-connectfail:unknown-serializer"
                        ctx.fail(sig, "%s server: failing first item %r got replies %r instead of one CONNECTFAIL"
                                 % (st, item_tokens(first), o["replies"]), cases[-1])
                    if o["sockclosed"] < 1:
                        ctx.fail("not-closed-after-failed-handshake", "%s server left the connection open after a failed handshake" % st, cases[-1])
            nevs = {}
            for cc, it in evs:
                nevs.setdefault(cc, []).append(it)
            if any(len(v) >= 2 and v[0][0] in ("msg", "garbage") for v in nevs.values()):
                ctx.nontriv(lines[-1] + st)
            ctx.count("first:" + "/".join(sorted({v[0][0] for v in nevs.values()})))
            if len(ctx.samples) < 4 and len(evs) >= 3:
                ctx.sample({"servertype": st, "history": lines[-1], "observed": reals[-1]})
    if do_model and lines:
        outs = common.run_driver("drv_c08", lines)
        ctx.corr_cases += len(lines)
        for l, r, o, c in zip(lines, reals, outs, cases):
            m = model_line_c08(o)
            if r != m:
                ctx.mismatch("history", {"line": l, "servertype": c["servertype"], "case": c}, r, m)
        # the TRANSCRIPTION of Daemon._handshake (Gen/C08Src.lean) on the first item of every connection against what the real
        # function answered: first reply (type, seq, serializer) or none, and whether the connection was accepted
        want = {}
        for r, c in zip(reals, cases):
            firsts = {}
            for cc, it in c["evs"]:
                firsts.setdefault(cc, it)
            parts = r.split(" ; ")
            for cc, it in firsts.items():
                f = parts[cc].split("|")
                rep = f[1].split(",")[0] if f[1] else ""
                real = ("%s|%d" % (":".join(rep.split(":")[:3]), 1 if rep.startswith("2:") else 0)) if rep else "-|0"
                want.setdefault("hs " + " ".join(item_tokens(it)), set()).add((real, c["servertype"]))
        hl = sorted(want)
        houts = common.run_driver("drv_c08", hl)
        ctx.corr_cases += len(hl)
        for l, o in zip(hl, houts):
            for real, st in sorted(want[l]):
                if real != o:
                    ctx.mismatch("handshake-src", {"line": l, "servertype": st}, real, o)


# ---- the set of registered objects changes while clients connect ------------------------------------
def _hs(obj, ser=2, seq=1):
    return ("msg", {"type": 1, "ser": ser, "seq": seq, "oneway": False, "body": ("handshake", True, True, "accept"),
                    "extra": {"object": obj}})


def _call(token, ser=2, seq=2):
    return ("msg", {"type": 4, "ser": ser, "seq": seq, "oneway": False, "body": ("call", ("method", {"token": token}))})


def _judge_conn(ctx, st, o, known, what, case):
    accepted = bool(o["replies"]) and o["replies"][0][0] == 2
    if known:
        if not accepted:
            ctx.fail("registered-object-refused", "%s server: %s: a connect for a registered object got %r" % (st, what, o["replies"][:1]), case)
        return
    if o["execs"]:
        ctx.fail("exec-before-handshake", "%s server: %s: executed %r on a connection whose handshake had to be refused "
                 "(first reply %r)" % (st, what, o["execs"], o["replies"][:1]), case)
    if accepted:
        ctx.fail("handshake-accepted-wrongly", "%s server: %s: CONNECTOK although the handshake had to be refused" % (st, what), case)
    elif not (len(o["replies"]) == 1 and o["replies"][0][0] == 3):
        ctx.fail("no-connectfail", "%s server: %s: replies %r instead of one CONNECTFAIL" % (st, what, o["replies"]), case)
    if o["sockclosed"] < 1:
        ctx.fail("not-closed-after-failed-handshake", "%s server: %s: connection left open after a failed handshake" % (st, what), case)


def run_registry(st, steps):
    """steps: ('reg'|'regweak'|'force'|'unreg'|'drop', id) change the daemon's registrations; ('connect', id) is a new
    connection: CONNECT for that id with a call to the always-registered 'target' pipelined behind it.
    Returns [(step index, id, registered according to the steps so far, observation)]"""
    import gc
    rig = srvkit.Rig(st)
    strong = {}
    known = set()
    out = []
    try:
        conn = 0
        for i, (op, oid) in enumerate(steps):
            if op in ("reg", "regweak", "force"):
                if oid in known and op != "force":
                    continue
                o = rig.Target()
                rig.daemon.register(o, oid, force=(op == "force"), weak=(op == "regweak"))
                strong[oid] = (o, op == "regweak")
                o = None
                known.add(oid)
            elif op == "unreg":
                if oid in known:
                    rig.daemon.unregister(oid)
                    known.discard(oid)
                    strong.pop(oid, None)
            elif op == "drop":
                # the application lets go of a weakly registered object: it is gone for the daemon as well
                if oid in known and strong[oid][1]:
                    del strong[oid]
                    gc.collect()
                    known.discard(oid)
            else:
                rig.deliver(conn, srvkit.render_msg(_hs(oid, ser=[1, 2, 3, 4][conn % 4])[1]) + srvkit.render_msg(_call(1000 + conn)[1]))
                out.append((i, oid, oid in known, rig.observe(conn)))
                conn += 1
        return out
    finally:
        strong.clear()
        rig.close()


def _registry(ctx, n):
    rng = ctx.sub_rng("registry")
    fixed = [
        [("regweak", "w"), ("connect", "w"), ("drop", "w"), ("connect", "w")],
        [("reg", "s"), ("connect", "s"), ("unreg", "s"), ("connect", "s")],
        [("regweak", "w"), ("drop", "w"), ("connect", "w")],
        [("reg", "s"), ("connect", "s"), ("force", "s"), ("connect", "s"), ("unreg", "s"), ("connect", "s"), ("reg", "s"), ("connect", "s")],
        [("connect", "never"), ("reg", "never"), ("connect", "never")],
    ]
    cases = list(fixed)
    for _ in range(n):
        ids = ["p", "q"]
        steps = []
        for _ in range(rng.choice([3, 5, 8])):
            steps.append((rng.choice(["reg", "regweak", "force", "unreg", "drop", "connect", "connect", "connect"]), rng.choice(ids)))
        steps.append(("connect", rng.choice(ids)))
        cases.append(steps)
    for steps in cases:
        for st in ("thread", "multiplex"):
            case = {"kind": "registry", "servertype": st, "steps": steps}
            try:
                res = run_registry(st, steps)
            except srvkit.Stuck as x:
                ctx.fail("stuck:" + st, "the %s server got stuck on registry history %r: %r" % (st, steps, x), case)
                continue
            for i, oid, known, o in res:
                ctx.evaluations += 1
                ctx.count("registry:" + ("known" if known else "unknown"))
                _judge_conn(ctx, st, o, known, "after %r, connect #%d for %r" % (steps[:i], i, oid), case)
            if any(op in ("drop", "unreg") for op, _ in steps):
                ctx.nontriv(("registry", st, tuple(steps)))


# ---- other validators: one that refuses everybody (any exception class), one that accepts with any return value ----------
def _validators(ctx, n):
    rng = ctx.sub_rng("validators")
    g = Gen(rng)
    for i in range(n):
        nconn, evs = g.history()
        validator = ("deny", rng.choice(DENY_EXC)) if i % 3 != 2 else ("value", rng.choice(ACCEPT_VALUES))
        for st in ("thread", "multiplex"):
            case = {"servertype": st, "nconn": nconn, "evs": evs, "validator": list(validator)}
            try:
                obs, res, pool = run_real(st, nconn, evs, validator=validator)
            except srvkit.Stuck as x:
                ctx.fail("stuck:" + st, "the %s server got stuck on a history (validator %r): %r" % (st, validator, x), case)
                continue
            ctx.evaluations += 1
            ctx.count("validator:" + validator[0])
            for c, o in enumerate(obs):
                if o is None:
                    continue
                first = next((it for cc, it in evs if cc == c), None)
                good_first = (validator[0] == "value" and first[0] == "msg" and first[1]["type"] == 1 and first[1]["ser"] in (1, 2, 3, 4)
                              and eff_body(first[1]) == ("handshake", True, True, "accept") and first[1].get("magic") is None)
                what = "validator %s, first item %r" % ("that refuses everybody with " + validator[1] if validator[0] == "deny"
                                                        else "that accepts by returning %r" % (validator[1],), item_tokens(first))
                if first[0] == "cut" and not good_first:
                    # the peer went away inside its first message: no reply can be demanded, everything else can
                    if o["execs"] or (o["replies"] and o["replies"][0][0] == 2):
                        ctx.fail("exec-before-handshake" if o["execs"] else "handshake-accepted-wrongly",
                                 "%s server: %s: replies %r execs %r" % (st, what, o["replies"], o["execs"]), case)
                    if o["sockclosed"] < 1:
                        ctx.fail("not-closed-after-failed-handshake", "%s server: %s: connection left open" % (st, what), case)
                else:
                    _judge_conn(ctx, st, o, good_first, what, case)
                if o.get("premature"):
                    ctx.fail("daemon-object-before-validation", "%s server: %s: ran %s of 'Pyro.Daemon' before the validator had accepted"
                             % (st, what, "/".join(sorted(set(o["premature"])))), case)
                if len(evs) > nconn and first[0] == "msg" and first[1]["type"] == 1:
                    ctx.nontriv(("validators", st, validator[0], str(validator[1]), hist_line(nconn, evs)))


# ---- connections the thread-pool server DENIES (no free worker): _handshake(conn, denied_reason=...) ------------------------
def run_denied(first, pipelined, reason):
    """ClientConnectionJob.denyConnection(reason) - what the accept loop does with a connection when the pool is full - on a
    connection whose peer has sent `first` and, behind it, `pipelined`, and then half-closed"""
    from Pyro5 import svr_threads, serializers
    rig = srvkit.Rig("thread")
    try:
        s = srvkit.FakeSock(0)
        rig.socks.append(s)
        s.feed(item_bytes(first, first=True)[0] + b"".join(item_bytes(it)[0] for it in pipelined))
        s.end("eof")
        job = svr_threads.ClientConnectionJob(s, ("fake", 0), rig.daemon)
        job.denyConnection(reason)
        reps = rig.replies(0)
        texts = []
        for r in reps:
            try:
                texts.append(serializers.serializers_by_id[r[2]].loads(r[6]))
            except Exception as x:
                texts.append("<undecodable: %r>" % (x,))
        return {"replies": [(r[0], r[1], r[2], r[3]) for r in reps], "texts": texts, "execs": [t for _, t in rig.execs],
                "sockclosed": s.closed, "premature": [m for _, m in rig.premature]}
    finally:
        rig.close()


def _denied(ctx, n):
    rng = ctx.sub_rng("denied")
    g = Gen(rng)
    for i in range(n):
        first = g.item(True) if i % 2 else ("msg", {"type": 1, "ser": rng.choice([1, 2, 3, 4]), "seq": rng.randint(0, 65535), "oneway": False,
                                                   "body": ("handshake", True, True, "accept")})
        if first[0] != "msg":
            continue
        pipelined = [it for it in (g.item(False) for _ in range(rng.choice([0, 1, 2]))) if it[0] == "msg"]
        reason = "no free workers (%d)" % rng.randint(0, 9999)
        case = {"kind": "denied", "first": first, "pipelined": pipelined, "reason": reason}
        try:
            o = run_denied(first, pipelined, reason)
        except srvkit.Stuck as x:
            ctx.fail("stuck:thread", "denied connection: %r" % (x,), case)
            continue
        ctx.evaluations += 1
        ctx.count("denied")
        what = "a connection the server denies (%r), first item %r" % (reason, item_tokens(first))
        _judge_conn(ctx, "thread", o, False, what, case)
        wellformed = first[1]["type"] == 1 and first[1].get("magic") is None
        if wellformed and len(o["replies"]) == 1 and o["replies"][0][0] == 3 and not (o["texts"] and isinstance(o["texts"][0], str) and reason in o["texts"][0]):
            ctx.fail("denial-reason-lost", "thread server: %s: the CONNECTFAIL says %r" % (what, o["texts"][:1]), case)
        if pipelined and wellformed:
            ctx.nontriv(("denied", hist_line(1, [(0, first)] + [(0, it) for it in pipelined])))


# ---- two handshakes in flight on the thread-pool server ---------------------------------------------
def run_concurrent(first_ok, how):
    """connection 0's handler is held inside Daemon.annotations() (called while its handshake reply is built) until
    connection 1's handshake has been answered completely; exactly one of the two handshakes is a good one"""
    import threading
    import time
    rig = srvkit.Rig("thread")
    try:
        good = _hs("target")[1]
        bad = dict(good)
        if how == "validator":
            bad["body"] = ("handshake", True, True, "raises")
        elif how == "object":
            bad["extra"] = {"object": "nosuchobject"}
        else:
            bad["ser"] = 42
        m0, m1 = (good, bad) if first_ok else (bad, good)
        rig.ann_gates[0] = "hs0"
        errs = []

        def first():
            try:
                rig.deliver(0, srvkit.render_msg(m0) + srvkit.render_msg(_call(500)[1]))
            except BaseException as x:
                errs.append(x)
        t = threading.Thread(target=first)
        t.start()
        t0 = time.time()
        while not rig.gate_threads.get("hs0") and t.is_alive() and time.time() - t0 < 10:
            time.sleep(0.0005)
        held = bool(rig.gate_threads.get("hs0"))
        rig.deliver(1, srvkit.render_msg(m1) + srvkit.render_msg(_call(501)[1]))
        rig.gate("hs0").set()
        t.join(60)
        if t.is_alive() or errs:
            raise srvkit.Stuck("held handshake did not finish: %r" % (errs,))
        return held, rig.observe(0), rig.observe(1)
    finally:
        rig.close()


def _concurrent(ctx):
    for first_ok in (False, True):
        for how in ("validator", "object", "serializer"):
            case = {"kind": "concurrent", "first_ok": first_ok, "how": how}
            try:
                held, o0, o1 = run_concurrent(first_ok, how)
            except srvkit.Stuck as x:
                ctx.fail("stuck:thread", "two handshakes in flight: %r" % (x,), case)
                continue
            ctx.evaluations += 1
            ctx.count("concurrent:" + ("held" if held else "not-held"))
            what = "connection %%d of two whose handshakes overlap (%s is refused because of its %s, the other accepted)" % (
                "the later one" if first_ok else "the earlier one", how)
            _judge_conn(ctx, "thread", o0, first_ok, what % 0, case)
            _judge_conn(ctx, "thread", o1, not first_ok, what % 1, case)
            if held:
                ctx.nontriv(("concurrent", first_ok, how))


def correspondence(ctx):
    _run(ctx, "hist", ctx.n(120, 1500), True)


def oracle(ctx):
    if ctx.search_mode:
        _run(ctx, "search", ctx.n(200, 3000), False)
    else:
        from props import c08_client
        c08_client.run(ctx)
    _validators(ctx, ctx.n(30, 600))
    _denied(ctx, ctx.n(20, 400))
    _registry(ctx, ctx.n(25, 400))
    _concurrent(ctx)


def replay(ctx, case):
    f = case.get("failing_input") or {}
    c = f.get("case") or {}
    if c.get("kind") == "registry":
        bad = False
        for i, oid, known, o in run_registry(c["servertype"], [tuple(x) for x in c["steps"]]):
            print("step", i, "connect for", oid, "registered" if known else "NOT registered", "->", o["replies"], "execs", o["execs"], "closed", o["sockclosed"])
            accepted = bool(o["replies"]) and o["replies"][0][0] == 2
            bad = bad or (known != accepted) or (not known and (o["execs"] or o["sockclosed"] < 1))
        print("VIOLATION reproduced" if bad else "not reproduced")
        return 1 if bad else 0
    if c.get("kind") == "denied":
        o = run_denied(_untuple(c["first"]), [_untuple(it) for it in c["pipelined"]], c["reason"])
        print("denied connection:", o)
        bad = bool(o["execs"]) or not (len(o["replies"]) == 1 and o["replies"][0][0] == 3) or o["sockclosed"] < 1 \
            or not (o["texts"] and isinstance(o["texts"][0], str) and c["reason"] in o["texts"][0])
        print("VIOLATION reproduced" if bad else "not reproduced")
        return 1 if bad else 0
    if c.get("kind") == "concurrent":
        held, o0, o1 = run_concurrent(c["first_ok"], c["how"])
        print("held:", held, "\nconnection 0:", o0, "\nconnection 1:", o1)
        acc = lambda o: bool(o["replies"]) and o["replies"][0][0] == 2
        bad = acc(o0) != c["first_ok"] or acc(o1) == c["first_ok"] or bool((o1 if c["first_ok"] else o0)["execs"])
        print("VIOLATION reproduced" if bad else "not reproduced")
        return 1 if bad else 0
    if "evs" not in c:
        print(json.dumps(case.get("no_longer_checks")))
        return 1
    evs = [(e[0], _untuple(e[1])) for e in c["evs"]]
    validator = tuple(c["validator"]) if c.get("validator") else None
    obs, res, pool = run_real(c["servertype"], c["nconn"], evs, validator=validator)
    print("history:", hist_line(c["nconn"], evs), ("validator: %r" % (validator,)) if validator else "")
    print("observed:", real_line(obs))
    bad = any(o and ((o["execs"] and not (o["replies"] and o["replies"][0][0] == 2)) or o.get("premature")
                     or (validator and validator[0] == "deny" and o["replies"] and o["replies"][0][0] == 2)) for o in obs)
    print("VIOLATION reproduced" if bad else "see observed replies above")
    return 1
