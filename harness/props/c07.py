"""C07 — remote exceptions arrive as the same exception with the same content."""
import json
import os
import random

import common
from props import c07_extract as X
from props import c07_rig as R
from props.c07_rig import SERS, SEQ_OUT, TB_TOKEN, Unser, cps, enc, enc_exc, qual

ID = "C07"
LEAN_MODEL_TARGETS = ["drv_c07"]
LEAN_PROOF_TARGETS = ["PyroProps.C07", "PyroProps.C07Src"]
AUDIT_FILES = ["PyroModel/Exceptions.lean", "PyroModel/Gen/C07.lean", "PyroProofs/Exceptions.lean", "PyroProps/C07.lean",
               "PyroModel/ExcSrc.lean", "PyroModel/Gen/C07Src.lean", "PyroProps/C07Src.lean"]
THEOREMS = ["Pyro.C07.C07_roundtrip_partial", "Pyro.C07.C07_roundtrip_batch_partial", "Pyro.C07.C07_roundtrip_whitelisted",
            "Pyro.C07.C07_fallback", "Pyro.C07.C07_fallback_batch", "Pyro.C07.C07_never_silent", "Pyro.C07.C07_no_hang",
            "Pyro.C07.C07_usable_after", "Pyro.C07.C07_usable_after_roundtrip", "Pyro.C07.C07_usable_after_fallback",
            "Pyro.C07.C07_usable_after_batch", "Pyro.C07.C07_usable_after_comm", "Pyro.C07.C07_stream_item_after_housekeeping",
            "Pyro.C07.C07_unknown_class",
            "Pyro.C07.C07_roundtrip_fails_nonexception", "Pyro.C07.C07_roundtrip_fails_comm", "Pyro.C07.C07_batch_stopiteration",
            "Pyro.C07.C07_gen_whitelist_resolves", "Pyro.C07.C07_gen_whitelist_covers", "Pyro.C07.C07_gen_special",
            "Pyro.C07.C07_gen_flags_sane", "Pyro.C07.C07_gen_sendable", "Pyro.C07.C07_gen_error_path",
            "Pyro.C07.C07_gen_error_path_covers", "Pyro.C07.C07_gen_other_kinds", "Pyro.C07.C07_gen_fallback",
            "Pyro.C07.C07_gen_batch", "Pyro.C07.C07_gen_batch_fallback", "Pyro.C07.C07_gen_client", "Pyro.C07.C07_gen_retry",
            "Pyro.C07.C07_gen_retry_classes", "Pyro.C07.C07_gen_dict", "Pyro.C07.C07_gen_dispatch",
            "Pyro.C07.C07_retry_never_none",
            "Pyro.C07.C07_retry_forwarded_once", "Pyro.C07.C07_roundtrip_retry", "Pyro.C07.C07_retry_bound_matters",
            # the source's own functions, transcribed on every run (c07_tr.py -> Gen/C07Src.lean)
            "Pyro.C07.C07_make_exception_translated", "Pyro.C07.C07_class_to_dict_translated",
            "Pyro.C07.C07_class_to_dict_daemon_attr", "Pyro.C07.C07_class_to_dict_registered",
            "Pyro.C07.C07_wrapper_to_dict_translated", "Pyro.C07.C07_raiseIt_translated", "Pyro.C07.C07_source_raiseIt_batch",
            "Pyro.C07.C07_source_roundtrip_content", "Pyro.C07.C07_source_make_exception_only_exc"]
SUITES = ["single", "batch", "decode"]
RULE = ("ALL exception classes of vars(builtins) and all PyroError subclasses of vars(Pyro5.errors) (enumerated, 77 on this "
        "interpreter) x argument tuples the class's constructor accepts with e.args == args (class-specific shapes for the "
        "Unicode errors; values from each serializer's lossless domain: None/bool/int/str/float/list/dict, tuples for "
        "serpent+marshal, bytes for marshal+msgpack) x attribute dicts (0-3 custom attributes, '__notes__', a pre-set "
        "_pyroTraceback) x 4 serializers x call kinds plain / callback / attribute get / attribute set / stream item / batch "
        "member at position 0-3 with 0-2 calls after it, method calls through proxies with _pyroMaxRetries 0/1/2, stream items "
        "fetched after a Daemon._housekeeping() run under ITER_STREAM_LIFETIME 0/60/3600 s and ITER_STREAM_LINGER 0/30 s, every case "
        "followed by a second call on the same proxy, the server object "
        "being a delegating wrapper (defines __getattr__), against a real Daemon (thread-pool server, unix socket); plus "
        "unserialisable argument/attribute values (object(), lock, builtin function, bound method), classes unknown to the "
        "receiver (with and without '__' in the module name), exceptions whose args were reassigned so that the receiver's "
        "constructor rejects them, and (suite decode) class dicts fed to recreate_classes reaching every branch of dict_to_class. "
        "All from VERIF_SEED. A case is non-trivial when the real caller got an exception object back over the wire (an "
        "exception reply or a batch wrapper was decoded); distinct = distinct (serializer, kind, position, class, args, attrs).")
ASSUMPTIONS = [
    "the four serializer libraries satisfy the lossless-core law on the stated domain (CodecLaw: dumps then loads returns the "
    "tree, tuples possibly as lists, dict item order immaterial) - proved/validated by C01, a hypothesis structure here",
    "exception constructors are CPython's: (construct c args).args = args on the generated domain (checked per case in isolation)",
    "no application converter is registered for exception classes or for Pyro5.core._ExceptionWrapper (register_class_to_dict / "
    "register_dict_to_class)",
    "thread-pool server (config.SERVERTYPE='thread'), no oneway calls; retries per proxy (_pyroMaxRetries 0, 1, 2), the remote "
    "code behaves the same on every attempt",
]
TRUSTED = ["props/c07_tr.py: python ast -> Lean text for make_exception / class_to_dict (exception instance) / _ExceptionWrapper "
           "(sound by refusal; primitive operations in PyroModel/ExcSrc.lean)",
           "props/c07_rig.py: the in-process Daemon/Proxy rig and the canonical text forms of values and exceptions",
           "props/c07_probe.py: extraction-time behaviour probes of the real handleRequest / _pyroInvoke / BatchProxy / retry loop / "
           "class_to_dict / dict_to_class over in-memory sockets (their tables are what the C07_gen_ obligations compare the model with)",
           "_pyroTraceback is compared only as 'a non-empty list of str' (traceback formatting is not modelled)"]

FALLBACK_FMT = "Error serializing exception: %s. Original exception: %s: %s"
DEFAULT_UNSER = {"serpent": "builtins.TypeError", "marshal": "builtins.ValueError", "json": "Pyro5.errors.SerializeError",
                 "msgpack": "Pyro5.errors.SerializeError"}
KINDS = ["p", "g", "s", "i", "b"]
KIND_NAME = {"p": "plain", "c": "callback", "g": "getattr", "s": "setattr", "i": "stream", "b": "batch"}


def extract():
    text = X.extract()
    # the functions that decide the wire form of an exception, transcribed from the current source (c07_tr.py);
    # an unrecognised construct raises Untranslatable = a broken tie
    import importlib
    from props import c07_tr
    common.repo_on_path()
    src = c07_tr.lean_source(X.exception_classes(), importlib.import_module("Pyro5.serializers"), importlib.import_module("Pyro5.core"))
    common.write_if_changed(os.path.join(common.LEAN, "PyroModel", "Gen", "C07Src.lean"), src)
    return text


# ----------------------------------------------------------------------------------------------
# JSON form of cases (corpus / replay)
# ----------------------------------------------------------------------------------------------
def to_js(v):
    t = type(v)
    if v is None or t in (bool, int, str):
        return v
    if t is float:
        return {"f": repr(v)}
    if t is bytes:
        return {"b": v.hex()}
    if t is list:
        return [to_js(x) for x in v]
    if t is tuple:
        return {"t": [to_js(x) for x in v]}
    if t is dict:
        return {"d": [[k, to_js(x)] for k, x in v.items()]}
    if t is Unser:
        return {"u": v.kind}
    raise TypeError(t)


def from_js(j):
    if isinstance(j, list):
        return [from_js(x) for x in j]
    if isinstance(j, dict):
        if "f" in j:
            return float(j["f"])
        if "b" in j:
            return bytes.fromhex(j["b"])
        if "t" in j:
            return tuple(from_js(x) for x in j["t"])
        if "d" in j:
            return {k: from_js(x) for k, x in j["d"]}
        if "u" in j:
            return Unser(j["u"])
    return j


# ----------------------------------------------------------------------------------------------
# classes
# ----------------------------------------------------------------------------------------------
_USER = {}


def user_class(q, base=Exception):
    c = _USER.get(q)
    if c is None:
        module, _, name = q.rpartition(".")
        c = _USER[q] = type(name, (base,), {"__module__": module})
    return c


def class_map():
    import struct
    m = {qual(t): t for t in X.exception_classes()}
    m[qual(struct.error)] = struct.error
    return m


def find_class(cmap, q):
    return cmap.get(q) or user_class(q)


def flags(t):
    from Pyro5 import errors
    return {"exc": issubclass(t, Exception), "comm": issubclass(t, errors.CommunicationError),
            "ser": issubclass(t, errors.SerializeError), "closed": issubclass(t, errors.ConnectionClosedError),
            "sec": issubclass(t, errors.SecurityError), "stop": issubclass(t, StopIteration)}


def sendable(f):
    return f["exc"] and not f["closed"] and (f["ser"] or not f["comm"])


# ----------------------------------------------------------------------------------------------
# generators
# ----------------------------------------------------------------------------------------------
TEXTS = ["", "x", "bad value", "café €", "\U0001f600 smile", "line1\nline2", "quote ' \" \\", "a" * 40, "__x__", "None"]


def gen_leaf(rng, ser):
    r = rng.random()
    if r < 0.12:
        return None
    if r < 0.24:
        return rng.random() < 0.5
    if r < 0.50:
        c = rng.random()
        if c < 0.6:
            return rng.randint(-20, 300)
        if c < 0.85 or ser == "msgpack":
            return rng.choice([2 ** 31, -2 ** 31 - 1, 2 ** 63 - 1, -2 ** 63, 10 ** 12])
        return rng.choice([2 ** 64, -2 ** 70, 10 ** 30])
    if r < 0.82:
        return rng.choice(TEXTS) if rng.random() < 0.6 else "".join(rng.choice("abcXYZ _-.:%{}") for _ in range(rng.randint(1, 12)))
    if r < 0.92:
        return rng.choice([0.0, 1.5, -2.25, 1e300, 3.141592653589793, 1e-7])
    if ser in ("marshal", "msgpack"):
        return rng.choice([b"", b"\x00\xff", b"bytes"])
    return rng.randint(0, 9)


def gen_value(rng, ser, depth=0):
    r = rng.random()
    if depth >= 2 or r < 0.62:
        return gen_leaf(rng, ser)
    if r < 0.80:
        return [gen_value(rng, ser, depth + 1) for _ in range(rng.randint(0, 3))]
    if r < 0.90 and ser in ("serpent", "marshal"):
        return tuple(gen_value(rng, ser, depth + 1) for _ in range(rng.randint(0, 3)))
    keys = rng.sample(["k", "key2", "a b", "ü", "_x", "class", "args"], rng.randint(0, 3))
    return {k: gen_value(rng, ser, depth + 1) for k in keys}


def arg_shapes(rng, ser, cls):
    """candidate argument tuples for the class; the caller keeps those the constructor accepts unchanged"""
    name = cls.__name__
    out = []
    if name == "UnicodeEncodeError":
        out.append((rng.choice(["ascii", "utf-8"]), rng.choice(TEXTS), rng.randint(0, 3), rng.randint(0, 5), rng.choice(TEXTS)))
    elif name == "UnicodeDecodeError":
        if ser in ("marshal", "msgpack"):
            out.append((rng.choice(["ascii", "utf-8"]), rng.choice([b"", b"\xff\xfe", b"abc"]), rng.randint(0, 3), rng.randint(0, 5),
                        rng.choice(TEXTS)))
    elif name == "UnicodeTranslateError":
        out.append((rng.choice(TEXTS), rng.randint(0, 3), rng.randint(0, 5), rng.choice(TEXTS)))
    else:
        out.append(())
        out.append((rng.choice(TEXTS),))
        out.append((rng.randint(0, 40), rng.choice(TEXTS)))
        n = rng.randint(1, 5)
        out.append(tuple(gen_value(rng, ser) for _ in range(n)))
        if rng.random() < 0.5:
            out.append(tuple(gen_value(rng, ser) for _ in range(rng.randint(3, 6))))
    return out


def accepted(cls, args):
    try:
        e = cls(*args)
    except Exception:
        return False
    if type(e) is not cls or type(e.args) is not tuple or enc(list(e.args)) != enc(list(args)) or vars(e):
        return False
    try:
        import traceback
        traceback.format_exception(type(e), e, None)    # CPython itself must be able to print it (e.g. SyntaxError(5, "abcdef") is not)
    except Exception:
        return False
    return True


ATTR_NAMES = ["detail", "code2", "x_info", "payload", "remote_id", "extra_data", "ctx", "Info", "v1"]


def gen_attrs(rng, ser, cls, args):
    n = rng.choice([0, 0, 1, 1, 2, 3])
    attrs = {}
    try:
        probe = cls(*args)
    except Exception:
        probe = None
    for name in rng.sample(ATTR_NAMES, n):
        if probe is not None and hasattr(probe, name):
            continue
        attrs[name] = gen_value(rng, ser)
    r = rng.random()
    if r < 0.08:
        attrs["__notes__"] = [rng.choice(TEXTS), "note"]
    elif r < 0.14:
        attrs["_pyroTraceback"] = ["stale traceback line\n"]
    return attrs


def gen_cases(ctx, rng, n_extra):
    """the exhaustive class sweep (every class x every serializer x every kind at least once) plus n_extra random cases"""
    cmap = class_map()
    classes = sorted(cmap)
    cases = []

    def one(q, ser, kind, shape_pick=None):
        cls = cmap[q]
        shapes = [a for a in arg_shapes(rng, ser, cls) if accepted(cls, a)]
        if not shapes:
            ctx.count("vacuous:no-accepted-args:" + q.rsplit(".", 1)[1] + ":" + ser)
            return
        args = shapes[shape_pick % len(shapes)] if shape_pick is not None else rng.choice(shapes)
        c = {"mode": "call", "ser": ser, "kind": kind, "cls": q, "args": to_js(list(args)),
             "attrs": to_js(gen_attrs(rng, ser, cls, args))}
        if kind in ("b", "i"):
            c["before"] = to_js([gen_value(rng, ser) for _ in range(rng.randint(0, 3))])
        if kind == "b":
            c["after"] = rng.randint(0, 2)
        if kind in ("p", "c") and shape_pick is not None:
            c["retries"] = shape_pick % 3         # proxy._pyroMaxRetries 0 / 1 / 2, rotating through classes and serializers
        if kind == "i" and (shape_pick if shape_pick is not None else rng.randint(0, 3)) % 4 != 0:
            # a housekeeping run before every item, with stream limits (seconds) far above the stream's age
            c["hk"] = {"lifetime": rng.choice([0, 60, 3600]), "linger": rng.choice([0, 30])}
        cases.append(c)
    # exhaustive sweep
    i = 0
    for q in classes:
        for ser in SERS:
            for kind in KINDS:
                one(q, ser, kind, shape_pick=i)
                i += 1
    for _ in range(n_extra):
        q = rng.choice(classes)
        one(q, rng.choice(SERS), rng.choice(KINDS + ["p", "b", "c"]))
    # unserialisable content
    for _ in range(max(40, n_extra // 6)):
        ser = rng.choice(SERS)
        q = rng.choice(classes)
        cls = cmap[q]
        shapes = [a for a in arg_shapes(rng, ser, cls) if accepted(cls, a)]
        if not shapes:
            continue
        base = rng.choice(shapes)
        # the failure of dumps has different classes: TypeError / ValueError / SerializeError for the first four,
        # AttributeError for the unfilled slot, RuntimeError for the failing __getstate__
        u = Unser(rng.choice(["object", "lock", "builtin", "event-method", "slots-unset", "getstate-raises"]))
        where = rng.choice(["attr", "attr-nested", "arg"])
        args = list(base)
        attrs = gen_attrs(rng, ser, cls, tuple(args))
        if where == "arg" and cls.__name__ not in ("UnicodeEncodeError", "UnicodeDecodeError", "UnicodeTranslateError"):
            args2 = args + [u] if rng.random() < 0.5 else [u] + args
            try:
                ok = enc(list(cls(*R.realise(tuple(args2))).args)[:0]) == "L()" and len(cls(*R.realise(tuple(args2))).args) == len(args2)
            except Exception:
                ok = False
            if ok:
                args = args2
            else:
                attrs["bad"] = u
        elif where == "attr-nested":
            attrs["bad"] = [1, {"k": u}]
        else:
            attrs["bad"] = u
        kind = rng.choice(KINDS)
        c = {"mode": "call", "ser": ser, "kind": kind, "cls": q, "args": to_js(args), "attrs": to_js(attrs), "unser": True}
        if kind in ("b", "i"):
            c["before"] = to_js([gen_value(rng, ser) for _ in range(rng.randint(0, 2))])
        if kind == "b":
            c["after"] = rng.randint(0, 2)
        cases.append(c)
    # classes the receiver does not know
    for _ in range(max(24, n_extra // 10)):
        ser = rng.choice(SERS)
        q = rng.choice(["c07mod.MyError", "c07mod.sub.OtherError", "c07__mod.DunderError", "app.errors.Timeout", "sqlite3x.FooError"])
        kind = rng.choice(KINDS)
        args = [gen_value(rng, ser) for _ in range(rng.randint(0, 3))]
        c = {"mode": "call", "ser": ser, "kind": kind, "cls": q, "user": True, "args": to_js(args),
             "attrs": to_js(gen_attrs(rng, ser, Exception, ()))}
        if kind in ("b", "i"):
            c["before"] = to_js([gen_value(rng, ser) for _ in range(rng.randint(0, 2))])
        if kind == "b":
            c["after"] = rng.randint(0, 1)
        cases.append(c)
    # args reassigned after construction: the receiver's constructor may reject them (outside the property's domain)
    for _ in range(max(16, n_extra // 12)):
        ser = rng.choice(SERS)
        q = rng.choice(["builtins.UnicodeEncodeError", "builtins.UnicodeTranslateError", "builtins.OSError", "builtins.KeyError",
                        "builtins.SyntaxError", "builtins.ImportError", "Pyro5.errors.NamingError"])
        cls = cmap[q]
        shapes = [a for a in arg_shapes(rng, ser, cls) if accepted(cls, a)]
        c = {"mode": "call", "ser": ser, "kind": rng.choice(KINDS), "cls": q, "args": to_js(list(rng.choice(shapes))),
             "attrs": to_js({}), "setargs": to_js([gen_value(rng, ser) for _ in range(rng.randint(0, 4))])}
        if c["kind"] in ("b", "i"):
            c["before"] = []
        if c["kind"] == "b":
            c["after"] = 0
        cases.append(c)
    for c in cases:
        if c["kind"] in ("p", "c") and "retries" not in c:
            c["retries"] = rng.choice([0, 0, 1, 2])
    return cases


# ----------------------------------------------------------------------------------------------
# running one call case on the real code
# ----------------------------------------------------------------------------------------------
class Obs:
    pass


def build_exception(cmap, c):
    cls = find_class(cmap, c["cls"])
    args = from_js(c["args"])
    e = cls(*R.realise(tuple(args)))
    if c.get("setargs") is not None:
        e.args = tuple(R.realise(from_js(c["setargs"])))
    model_attrs = from_js(c["attrs"])
    for k, v in model_attrs.items():
        setattr(e, k, R.realise(v))
    model_args = from_js(c["setargs"]) if c.get("setargs") is not None else args
    return cls, e, list(model_args), model_attrs


def run_call(rig, cmap, c):
    """perform the call on the real client/server; returns an Obs"""
    from Pyro5 import client, errors
    o = Obs()
    cls, e, margs, mattrs = build_exception(cmap, c)
    try:
        import traceback
        traceback.format_exception(type(e), e, None)
    except Exception:
        return None     # CPython's own traceback module cannot print this object (e.g. SyntaxError(x, "abcdef")): outside the domain
    o.cls, o.exc, o.margs, o.mattrs = cls, e, margs, mattrs
    o.str_exc, o.type_repr = str(e), str(type(e))
    ser = c["ser"]
    kind = c["kind"]
    o.kind = kind
    rig.H.exc = e
    before = [R.realise(v) for v in from_js(c.get("before", []))]
    rig.H.before = before
    rig.H.runs = 0
    p = rig.proxy(ser)
    retries = int(c.get("retries", 0)) if kind in ("p", "c") else 0
    p._pyroMaxRetries = retries       # only method calls go through the retry loop (_RemoteMethod.__call__)
    o.waited = rig.timeout
    o.yielded = []
    o.caught = None
    o.value = None
    try:
        if kind == "p":
            o.value = ("v", p.boom())
        elif kind == "c":
            o.value = ("v", p.boom_cb())
        elif kind == "g":
            o.value = ("v", p.prop)
        elif kind == "s":
            p.prop = 1
            o.value = ("v", None)
        elif kind == "i":
            hk = c.get("hk")
            if hk:
                rig.config.ITER_STREAM_LIFETIME, rig.config.ITER_STREAM_LINGER = float(hk["lifetime"]), float(hk["linger"])
            it = iter(p.stream())
            try:
                while True:     # next() by hand: a `for` would swallow a StopIteration that carries the remote content
                    if hk:
                        rig.daemon._housekeeping()      # what the transport servers run periodically / after every event batch
                    o.yielded.append(next(it))
            finally:
                if hk:
                    rig.config.ITER_STREAM_LIFETIME, rig.config.ITER_STREAM_LINGER = rig.saved_stream

                # detach the iterator now: its __del__ would otherwise run whenever the garbage collector finds it (it
                # hangs in the traceback's frame cycle), possibly in the daemon's own acceptor thread of this process
                it.proxy = None
            o.value = ("end",)
        elif kind == "b":
            b = client.BatchProxy(p)
            for i in range(len(before)):
                b.val(i)
            b.boom()
            for i in range(c.get("after", 0)):
                b.ok(100 + i)
            for item in b():
                o.yielded.append(item)
            o.value = ("end",)
    except (common.DeadlinePassed, common.GiveUp):
        raise           # the runner's own watchdog: never an observation of the call
    except BaseException as x:      # noqa: B902 — the property is about every class, KeyboardInterrupt included
        o.caught = x
    o.released = p._pyroConnection is None
    o.tries = rig.H.runs
    p._pyroMaxRetries = 0             # the probe of the connection's state is a single attempt
    try:
        o.next = "ok" if p.ok(4711) == 4711 else "wrong-result"
    except (common.DeadlinePassed, common.GiveUp):
        raise
    except BaseException as x:      # noqa: B902
        o.next = "fail:" + type(x).__name__
    if no_reply(o.caught, cls) or o.next == "fail:TimeoutError":
        # a wait that ended by the client-side watchdog: every further one costs a full wait, so wait less from now on
        rig.note_no_reply()
    if not flags(cls)["exc"]:
        for _ in range(max(1, o.tries)):
            rig.note_worker_killed()
    return o


def no_reply(x, cls):
    """the caller's watchdog (the proxy's socket timeout) fired: the server neither answered nor closed the connection"""
    from Pyro5 import errors
    return isinstance(x, errors.TimeoutError) and "_pyroTraceback" not in vars(x) and not issubclass(cls, errors.TimeoutError)


def dump_error(ser, e):
    """what serializer.dumps(e) raises (None if it works) — the same call _serializeException makes"""
    from Pyro5 import serializers
    try:
        serializers.serializers[ser].dumps(e)
        return None
    except Exception as x:
        return x


def shown_class(q):
    return q[len("builtins."):] if q.startswith("builtins.") else q


def real_line(o, derr):
    """canonical text of what the caller observed (same form as the driver's reply after `model_line`)"""
    from Pyro5 import errors
    x = o.caught
    if x is None:
        outcome = "value:" + (enc(o.value[1], True) if o.value[0] == "v" else "N")
    elif isinstance(x, errors.ConnectionClosedError) and not hasattr(x, "_pyroTraceback") and o.released:
        outcome = "connlost"
    elif isinstance(x, errors.TimeoutError) and not hasattr(x, "_pyroTraceback"):
        outcome = "hang"
    else:
        msg_map = {}
        if derr is not None:
            q = qual(o.cls)
            msg_map[FALLBACK_FMT % (str(derr), o.type_repr, o.str_exc)] = (
                "Error serializing exception: {%s}. Original exception: <class '%s'>: {%s}" % (qual(type(derr)), shown_class(q), q))
        if "_pyroTraceback" in vars(x):      # it came over the wire
            outcome = "raised:" + R.enc_caught(x, msg_map)
        else:
            outcome = "raised:" + R.enc_machinery_error(x)
    # the items a stream delivered before the failing one are separate calls: not part of this call's observation
    line = "%s y=%s rel=%d usable=%d" % (outcome, enc([] if o.kind == "i" else o.yielded, True), 1 if o.released else 0,
                                         1 if o.next == "ok" else 0)
    if o.kind in ("p", "c"):
        if x is None:
            line = "returned-none"
        line += " tries=%d" % o.tries       # how often the remote code ran = how often the call was sent
    elif o.kind != "b":
        line += " tries=1"
    return line


def model_line(out):
    """driver reply -> the observable part: outcome, yielded, released, usable (= conn active or released)"""
    tries = ""
    if out.rsplit(" ", 1)[-1].startswith("tries="):
        out, t = out.rsplit(" ", 1)
        tries = " " + t
    parts = out.rsplit(" ", 3)
    if len(parts) != 4 or not parts[2].startswith("rel=") or not parts[3].startswith("conn="):
        return out + tries
    rel = parts[2] == "rel=1"
    usable = rel or parts[3] == "conn=a"
    return "%s %s rel=%d usable=%d%s" % (parts[0], parts[1], 1 if rel else 0, 1 if usable else 0, tries)


def ctor_spec(cls, q, margs):
    """behaviour of the receiver's constructor on the arriving arguments, determined in isolation"""
    if any(R.has_unser(a) for a in margs):
        return "-"
    try:
        e2 = cls(*margs)
    except Exception as x:
        return "!%s=%s" % (cps(q), cps(qual(type(x))))
    if type(e2) is cls and enc(list(e2.args)) == enc(list(margs)):
        return "-"
    return "=%s=%s=%s" % (cps(q), cps(qual(type(e2))), enc(list(e2.args)))


def driver_line(c, o, derr, batch_fallback):
    q = qual(o.cls)
    ue = ("X(%s;%s;D())" % (cps(qual(type(derr))), enc(list(derr.args)))) if derr is not None else \
        "X(%s;L();D())" % cps(DEFAULT_UNSER[c["ser"]])
    ex = "E" + enc_exc(q, o.margs, o.mattrs)
    ctor = ctor_spec(o.cls, q, o.margs)
    if c["kind"] == "b":
        steps = ["R" + enc(v) for v in from_js(c.get("before", []))] + [ex] + ["RI%d" % (100 + i) for i in range(c.get("after", 0))]
        return "batch %d %s %s %d %s %s" % (SEQ_OUT[c["ser"]], ue, ctor, 1 if batch_fallback else 0, TB_TOKEN, " ".join(steps))
    kind = c["kind"]
    retries = int(c.get("retries", 0)) if kind in ("p", "c") else 0
    if kind == "i" and c.get("hk"):     # stream item after a housekeeping run: age 1 ms, limits in ms, client connected
        kind = "h1:%d:%d" % (int(c["hk"]["lifetime"]) * 1000, int(c["hk"]["linger"]) * 1000)
    return "single %d %d %s %s %s %s %s" % (retries, SEQ_OUT[c["ser"]], ue, ctor, kind, TB_TOKEN, ex)


# ----------------------------------------------------------------------------------------------
# D: the property itself, on the real observation (independent of the model)
# ----------------------------------------------------------------------------------------------
def describe(c):
    return "%s/%s%s%s %s(%s) attrs=%s" % (c["ser"], KIND_NAME[c["kind"]], " max_retries=%d" % c["retries"] if c.get("retries") else "",
                                          " housekeeping(lifetime=%s,linger=%s)" % (c["hk"]["lifetime"], c["hk"]["linger"]) if c.get("hk") else "",
                                        c["cls"], json.dumps(c["args"])[:80], json.dumps(c["attrs"])[:80])


def check_property(ctx, c, o, derr):
    from Pyro5 import errors
    f = flags(o.cls)
    x = o.caught
    ser, kind = c["ser"], c["kind"]
    name = o.cls.__name__
    if kind == "i" and f["stop"]:
        ctx.count("vacuous:stream-stopiteration-is-end-of-stream")     # the iterator protocol's own signal
        return
    if x is None:
        ctx.fail("no-exception:" + KIND_NAME[kind], "the remote code raised %s but the caller's call returned %r (%s)"
                 % (name, o.value, describe(c)), c)
        return
    if no_reply(x, o.cls):
        # "never a hang": the remote code raised, the server neither replied nor closed the connection; only the
        # watchdog of this rig (the proxy's socket timeout; Pyro's default is to wait for ever) ended the call
        ctx.fail("no-reply:" + qual(o.cls), "the remote code raised %s but the caller got no reply at all and the connection stayed "
                 "open: the call hangs (ended by the rig's watchdog after %.0f s; COMMTIMEOUT defaults to none) (%s)"
                 % (name, o.waited, describe(c)), c)
        ctx.no_reply = getattr(ctx, "no_reply", 0) + 1
        if ctx.no_reply >= 3:
            raise common.GiveUp("the caller got no reply on %d histories" % ctx.no_reply)
        return
    if ser == "marshal" and kind in ("g", "s", "b") and isinstance(x, AttributeError) and "NoneType" in str(x) \
            and not hasattr(x, "_pyroTraceback") and o.cls is not AttributeError:
        ctx.fail("marshal-kwargs-none", "marshal dumpsCall fails with kwargs=None: %r (%s)" % (x, describe(c)), c)
        return
    unknown = bool(c.get("user"))
    lossless = not c.get("unser") and c.get("setargs") is None
    usable_demanded = True
    if c.get("setargs") is not None:
        ctx.count("outside-domain:args-reassigned")
        return
    if unknown:
        # the receiver does not know the class: a Pyro error naming it, and a usable proxy
        if not (isinstance(x, errors.PyroError) and c["cls"] in str(x)):
            ctx.fail("unknown-class-not-described:" + KIND_NAME[kind],
                     "class %s is unknown to the receiver; the caller got %s%r instead of a Pyro error naming it (%s)"
                     % (c["cls"], type(x).__name__, x.args, describe(c)), c)
        elif o.next != "ok":
            ctx.fail("unknown-class-next-call:" + KIND_NAME[kind], "next call after the error: %s (%s)" % (o.next, describe(c)), c)
        return
    if not f["exc"]:
        sig = "non-exception-baseexception-not-forwarded"
        if not (type(x) is o.cls and "_pyroTraceback" in vars(x)):
            ctx.fail(sig, "a remote method raising %s (a BaseException that is no Exception) is not caught by the server: the worker "
                     "thread ends, no reply; the caller got %s%r (%s)" % (name, type(x).__name__, x.args[:1], describe(c)), c)
        return
    if not sendable(f) and kind != "b":
        sig = "communication-error-from-method-not-forwarded"
        if not (type(x) is o.cls and "_pyroTraceback" in vars(x)):
            ctx.fail(sig, "a remote method raising Pyro5.errors.%s is treated like a failure of the connection: no reply, connection "
                     "dropped; the caller got %s%r (%s)" % (name, type(x).__name__, x.args[:1], describe(c)), c)
        return
    if c.get("unser"):
        if derr is None:
            ctx.count("outside-domain:lossy-but-serialisable")
            return
        ok = isinstance(x, errors.PyroError) and name in str(x)
        if not ok:
            sig = "batch-unserialisable-exception-not-pyroerror" if kind == "b" else "unserialisable-not-described:" + KIND_NAME[kind]
            ctx.fail(sig, "%s with content %s cannot serialise; the caller got %s%r instead of a Pyro error describing the "
                     "original (%s)" % (name, ser, type(x).__name__, tuple(str(a)[:120] for a in x.args), describe(c)), c)
            return
        if kind == "c" or ((f["sec"] or f["comm"]) and kind != "b"):
            ctx.count("out-of-statement:reply-then-connection-dropped")
        elif o.next != "ok":
            ctx.fail("fallback-next-call:" + KIND_NAME[kind], "next call after the fallback error: %s (%s)" % (o.next, describe(c)), c)
        return
    # the round trip proper
    if kind == "b" and f["stop"]:
        if not (type(x) is o.cls):
            ctx.fail("batch-stopiteration-becomes-runtimeerror",
                     "a batch member raising StopIteration reaches the caller as %s%r: BatchProxy's result generator cannot "
                     "raise StopIteration (PEP 479) (%s)" % (type(x).__name__, x.args, describe(c)), c)
        return
    want_attrs = dict(o.mattrs)
    want_attrs.pop("_pyroTraceback", None)
    got_attrs = dict(vars(x))
    tb = got_attrs.pop("_pyroTraceback", None)
    problems = []
    if type(x) is not o.cls:
        problems.append("class %s" % qual(type(x)))
    if enc(list(x.args)) != enc(list(o.margs)):
        problems.append("args %r" % (x.args,))
    if enc(got_attrs, True) != enc(want_attrs, True):
        problems.append("attributes %r" % (got_attrs,))
    if R.canon_tb(tb) != TB_TOKEN:
        problems.append("_pyroTraceback %r" % (tb,))
    if kind in ("b", "i") and enc(o.yielded) != enc(from_js(c.get("before", []))):
        problems.append("values before the exception %r" % (o.yielded,))
    if problems:
        ctx.fail("roundtrip-mismatch:" + KIND_NAME[kind], "remote %s%r with attributes %r arrived with different %s (%s)"
                 % (name, tuple(o.margs), want_attrs, "; ".join(problems), describe(c)), c)
        return
    if kind == "c" or (f["sec"] and kind != "b"):
        ctx.count("out-of-statement:reply-then-connection-dropped")
    elif o.next != "ok":
        # also for a forwarded CommunicationError (SerializeError): the server drops the connection after replying, but
        # raising it inside _pyroInvoke releases the proxy's end, so the next call reconnects (C07_usable_after_comm)
        ctx.fail("next-call-fails:" + KIND_NAME[kind], "the exception arrived intact but the next call on the proxy: %s (%s)"
                 % (o.next, describe(c)), c)


# ----------------------------------------------------------------------------------------------
# suite decode: recreate_classes on literal class dicts
# ----------------------------------------------------------------------------------------------
def gen_decode(rng, cmap, n):
    import builtins
    import sqlite3
    quals = sorted(cmap)
    shorts = [q.rsplit(".", 1)[1] for q in quals]
    names = (quals + shorts + ["exceptions." + s for s in shorts[:20]]
             + ["sqlite3.OperationalError", "sqlite3.Error", "sqlite3.NoSuchError", "sqlite3.Row", "sqlite3.connectError",
                "Pyro5.errors.NoSuchError", "Pyro5.errors.sys", "Pyro5.errors.format_traceback", "Pyro5.errors.PyroError.x",
                "builtins.print", "builtins.int", "builtins.nope", "builtins.object", "exceptions.nope",
                "Foo", "struct.error", "struct.Struct", "Pyro5.util.JsonSerializer", "Pyro5.util.Nope", "Pyro5.utilX",
                "c07mod.MyError", "my__mod.Err", "__main__.Err", "os.system", "Pyro5.core.URIx", "sqlite3.x.Error",
                "IOError", "EnvironmentError", "TimeoutError", "builtins.TimeoutError", "builtins.IOError", ""])
    cases = []
    for _ in range(n):
        name = rng.choice(names) if rng.random() < 0.85 else rng.choice(quals)
        d = {"__class__": name}
        r = rng.random()
        if r < 0.70:
            d["__exception__"] = True
        elif r < 0.85:
            d["__exception__"] = rng.choice([False, 1, 0, "", "yes", [], [0], None, {"a": 1}, {}])
        r = rng.random()
        if r < 0.80:
            a = [gen_value(rng, "json") for _ in range(rng.randint(0, 3))]
            d["args"] = a if rng.random() < 0.7 else tuple(a)
        elif r < 0.88:
            d["args"] = rng.choice(["text", 5, None, {"k": 1}])
        r = rng.random()
        if r < 0.75:
            d["attributes"] = {k: gen_value(rng, "json") for k in rng.sample(ATTR_NAMES, rng.randint(0, 3))}
        elif r < 0.82:
            d["attributes"] = rng.choice([[], "x", 3, None])
        shape = rng.random()
        if shape < 0.60:
            lit = d
        elif shape < 0.80:
            w = {"__class__": "Pyro5.core._ExceptionWrapper"}
            r = rng.random()
            if r < 0.8:
                w["exception"] = d
            elif r < 0.9:
                w["exception"] = rng.choice([5, "x", {"plain": 1}, [d]])
            lit = w if rng.random() < 0.6 else [gen_value(rng, "json"), w]
        elif shape < 0.92:
            items = [gen_value(rng, "json") for _ in range(rng.randint(0, 3))]
            items.insert(rng.randint(0, len(items)), d)
            lit = items
        else:
            lit = gen_value(rng, "json")
        cases.append({"mode": "decode", "lit": to_js(lit)})
    return cases


def show_py(obj, core, serializers):
    if isinstance(obj, BaseException):
        return "exc:" + enc_exc(qual(type(obj)), list(obj.args), dict(vars(obj)), True)
    if isinstance(obj, core._ExceptionWrapper):
        inner = obj.exception
        if isinstance(inner, BaseException):
            return "wrapper:" + enc_exc(qual(type(inner)), list(inner.args), dict(vars(inner)), True)
        return "wrapper-of-data"
    if isinstance(obj, serializers.SerializerBase):
        return "foreign:" + cps("Pyro5.util." + type(obj).__name__)
    return "data:" + enc(obj, True)


def run_decode(c):
    """(canonical real result, ctor spec) for recreate_classes(lit) with SerializerBase's dict_to_class"""
    from Pyro5 import serializers, core
    lit = from_js(c["lit"])
    calls = []
    orig = serializers.SerializerBase.__dict__["make_exception"]

    def spy(exceptiontype, data):
        calls.append((exceptiontype, data.get("args") if isinstance(data, dict) else None))
        return orig.__func__(exceptiontype, data)
    serializers.SerializerBase.make_exception = staticmethod(spy)
    try:
        try:
            res = serializers.serializers["json"].recreate_classes(lit)
            if type(res) is list:
                real = "many:[" + " ".join(show_py(x, core, serializers) for x in res) + "]"
            else:
                real = "one:" + show_py(res, core, serializers)
        except Exception as x:
            real = "err:" + R.enc_machinery_error(x)
    finally:
        serializers.SerializerBase.make_exception = orig
    ctor = "-"
    if len(calls) == 1 and type(calls[0][1]) in (list, tuple):
        t, a = calls[0]
        ctor = ctor_spec(t, qual(t), list(a))
    elif len(calls) > 1:
        ctor = None     # more than one constructor call: the driver's one-entry constructor table cannot express it
    return real, ctor


# ----------------------------------------------------------------------------------------------
# corpus
# ----------------------------------------------------------------------------------------------
def corpus_cases():
    d = os.path.join(common.VERIF, "corpus", "C07")
    out = []
    if os.path.isdir(d):
        for f in sorted(os.listdir(d)):
            if f.endswith(".json"):
                j = json.load(open(os.path.join(d, f)))
                out.append(j.get("case", j))
    return out


# ----------------------------------------------------------------------------------------------
# C + D
# ----------------------------------------------------------------------------------------------
def _run(ctx, name, n_extra, n_decode, do_model):
    common.repo_on_path()
    rng = ctx.sub_rng(name)
    cmap = class_map()
    try:
        facts = X.facts()      # probed on the real code (c07_probe.py)
        batch_fallback = facts["batchFallback"]
    except Exception as x:      # a tree on which a probe itself trips: the search for a failing input must still run
        if do_model:
            raise
        ctx.count("source:probe-crashed:" + type(x).__name__)
        batch_fallback = True
    ctx.count("source:batchFallback=%s" % batch_fallback)
    corpus = corpus_cases()
    calls = [c for c in corpus if c.get("mode") == "call"] + gen_cases(ctx, rng, n_extra)
    decodes = [c for c in corpus if c.get("mode") == "decode"] + gen_decode(rng, cmap, n_decode)
    rig = R.Rig()
    lines, reals, kept = [], [], []
    try:
        for c in calls:
            o = run_call(rig, cmap, c)
            if o is None:
                ctx.count("outside-domain:exception-the-traceback-module-cannot-print")
                continue
            derr = dump_error(c["ser"], o.exc)
            ctx.evaluations += 1
            ctx.count("kind:" + KIND_NAME[c["kind"]])
            ctx.count("ser:" + c["ser"])
            x = o.caught
            ctx.count("outcome:" + ("none" if x is None else ("forwarded" if "_pyroTraceback" in vars(x) else "local:" + type(x).__name__)))
            if x is not None and "_pyroTraceback" in vars(x):
                ctx.nontriv((c["ser"], c["kind"], len(c.get("before", [])), c["cls"], c["args"], c["attrs"]))
            check_property(ctx, c, o, derr)
            real = real_line(o, derr)
            if len(ctx.samples) < 6 and x is not None and c["attrs"] and c["kind"] in ("b", "g", "i"):
                ctx.sample({"case": c, "observed": real[:300]})
            if c.get("unser") and derr is None:
                ctx.count("model:skipped-lossy-but-serialisable")    # the model's `obj` means: dumps raises
                continue
            lines.append(driver_line(c, o, derr, batch_fallback))
            reals.append(real)
            kept.append(c)
    finally:
        rig.close()
    dec_lines, dec_reals, dec_kept = [], [], []
    for c in decodes:
        real, ctor = run_decode(c)
        ctx.evaluations += 1
        ctx.count("decode:" + real.split(":", 1)[0])
        if ctor is None:
            ctx.count("decode:skipped-two-constructors")
            continue
        dec_lines.append("decode %s %s" % (ctor, enc(from_js(c["lit"]))))
        dec_reals.append(real)
        dec_kept.append(c)
    if do_model:
        outs = common.run_driver("drv_c07", lines + dec_lines)
        ctx.corr_cases += len(outs)
        for c, l, r, m in zip(kept, lines, reals, outs[:len(lines)]):
            mm = model_line(m)
            if mm.startswith("unmodelled"):
                ctx.count("model:unmodelled")
                continue
            if r != mm:
                ctx.mismatch("batch" if c["kind"] == "b" else "single", {"case": c, "line": l[:500]}, r[:600], mm[:600])
        for c, l, r, m in zip(dec_kept, dec_lines, dec_reals, outs[len(lines):]):
            if m in ("unmodelled", "fuel"):
                ctx.count("decode-model:" + m)
                continue
            if m.startswith("err:X("):
                ctx.count("decode-branch:raises:" + R.uncps(m[6:].split(";", 1)[0]))
            else:
                ctx.count("decode-branch:" + ":".join(m.split(":", 2)[:2]).split("(", 1)[0][:40])
            if r != m:
                ctx.mismatch("decode", {"case": c, "line": l[:500]}, r[:600], m[:600])


def correspondence(ctx):
    _run(ctx, "corr", ctx.n(600, 50000), ctx.n(1500, 100000), True)


def oracle(ctx):
    # step D runs inside _run on the same cases; in search mode it runs again on fresh ones
    if ctx.search_mode:
        _run(ctx, "search", ctx.n(1500, 16000), 0, False)
    else:
        from props import c07_stale
        c07_stale.run(ctx)


def replay(ctx, case):
    f = case.get("failing_input") or {}
    c = f.get("case") or case.get("case")
    if not c or c.get("mode") != "call":
        print("replay file names no failing call:", case.get("no_longer_checks"))
        return 1
    common.repo_on_path()
    cmap = class_map()
    rig = R.Rig()
    try:
        o = run_call(rig, cmap, c)
        derr = dump_error(c["ser"], o.exc) if o is not None else None
    finally:
        rig.close()
    if o is None:
        print("the exception of this case cannot be printed by CPython's traceback module: outside the property's domain")
        return 0
    print("remote code raised: %s%r attrs=%r  via %s / %s" % (qual(o.cls), tuple(o.margs), o.mattrs, c["ser"], KIND_NAME[c["kind"]]))
    print("caller observed   :", "no exception, value %r" % (o.value,) if o.caught is None else
          "%s%r attrs=%r" % (qual(type(o.caught)), o.caught.args, {k: ("<traceback>" if k == "_pyroTraceback" else v)
                                                                   for k, v in vars(o.caught).items()}))
    print("values before     :", o.yielded, " next call:", o.next)
    probe = common.Ctx(ID, "quick", 0)
    check_property(probe, c, o, derr)
    for fl in probe.failures:
        print("VIOLATION reproduced [%s]: %s" % (fl["signature"], fl["desc"][:400]))
    if not probe.failures:
        print("not reproduced")
    return 1 if probe.failures else 0
